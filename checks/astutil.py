"""AST helpers for the SMT-free contract passes (exception containment, call sites, frames)."""
from __future__ import annotations

import ast
import os


class Func:
    def __init__(self, module, qualname, node, cls=None):
        self.module = module  # dotted
        self.qualname = qualname
        self.node = node
        self.cls = cls

    @property
    def target(self):
        return f"{self.module}:{self.qualname}"


class Package:
    """All modules of /repo/myst_parser, parsed from the current working tree."""

    def __init__(self, repo="/repo", pkg="myst_parser"):
        self.repo = repo
        self.modules: dict[str, ast.Module] = {}
        self.sources: dict[str, str] = {}
        self.paths: dict[str, str] = {}
        root = os.path.join(repo, pkg)
        for dp, _dn, fns in sorted(os.walk(root)):
            for fn in sorted(fns):
                if not fn.endswith(".py"):
                    continue
                path = os.path.join(dp, fn)
                rel = os.path.relpath(path, repo)[:-3].replace(os.sep, ".")
                if rel.endswith(".__init__"):
                    rel = rel[: -len(".__init__")]
                src = open(path, encoding="utf8").read()
                self.sources[rel] = src
                self.paths[rel] = path
                self.modules[rel] = ast.parse(src)
        self._funcs = None

    def functions(self) -> list[Func]:
        if self._funcs is None:
            out = []
            for modn, tree in self.modules.items():
                self._collect(modn, tree.body, "", None, out)
            self._funcs = out
        return self._funcs

    def _collect(self, modn, body, prefix, cls, out):
        for st in body:
            if isinstance(st, (ast.FunctionDef, ast.AsyncFunctionDef)):
                q = prefix + st.name
                out.append(Func(modn, q, st, cls))
                self._collect(modn, st.body, q + ".<locals>.", cls, out)
            elif isinstance(st, ast.ClassDef):
                self._collect(modn, st.body, prefix + st.name + ".", st.name, out)
            elif isinstance(st, (ast.If, ast.Try, ast.With)):
                for blk in ("body", "orelse", "finalbody"):
                    self._collect(modn, getattr(st, blk, []) or [], prefix, cls, out)
                for h in getattr(st, "handlers", []) or []:
                    self._collect(modn, h.body, prefix, cls, out)

    def func(self, target) -> Func | None:
        for f in self.functions():
            if f.target == target:
                return f
        return None


def walk_own(fn):
    """Nodes of a function body, not descending into nested function / class definitions
    (lambdas are descended into: they belong to the enclosing function for these passes)."""
    todo = list(fn.body)
    while todo:
        n = todo.pop()
        yield n
        for c in ast.iter_child_nodes(n):
            if isinstance(c, (ast.FunctionDef, ast.AsyncFunctionDef, ast.ClassDef)):
                continue
            todo.append(c)


def call_name(call: ast.Call) -> str:
    f = call.func
    if isinstance(f, ast.Name):
        return f.id
    if isinstance(f, ast.Attribute):
        return f.attr
    return ""


def dotted(e) -> str:
    try:
        return ast.unparse(e)
    except Exception:
        return "?"


def parents(fn):
    """child -> parent map for a function body."""
    m = {}
    for n in ast.walk(fn):
        for c in ast.iter_child_nodes(n):
            m[c] = n
    return m
