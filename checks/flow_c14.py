"""C14 (DESIGN §7.2): call-site preconditions of the warning API, decided by constant propagation.

Contract of the warning API  (create_warning, DocutilsRenderer.create_warning, MystReferenceResolver.log_warning,
warning callbacks, logger.warning(type=, subtype=)):
    requires  (wtype, subtype) == ("myst", m) for a member m of MystWarnings      (catalogue is closed)
           or (wtype, subtype) == ("ref", "footnote")                                (the documented pair)
    requires  "." not in wtype                        (precondition of _is_suppressed_warning, proved separately)
    result    used only as: discarded | returned by a wrapper | `[x] if x else []`   (a suppressed warning
              cannot skip building anything else)
Every call site in myst_parser/ is an obligation.  Catalogue coverage and the number of untyped emitting
sites are compared with the committed ledger baseline/c14_sites.json.
"""
from __future__ import annotations

import ast
import json
import os

from checks.astutil import Package, call_name, parents, walk_own

ROOT = os.path.dirname(os.path.dirname(os.path.abspath(__file__)))
API_NAMES = {"create_warning", "log_warning"}
UNTYPED = {"warning", "error", "severe", "critical", "info"}  # reporter.<x>( / logger.<x>( without type=


def enum_members(pkg):
    tree = pkg.modules["myst_parser.warnings_"]
    for st in tree.body:
        if isinstance(st, ast.ClassDef) and st.name == "MystWarnings":
            out = {}
            for s in st.body:
                if isinstance(s, ast.Assign) and len(s.targets) == 1 and isinstance(s.targets[0], ast.Name) \
                        and isinstance(s.value, ast.Constant) and isinstance(s.value.value, str):
                    out[s.targets[0].id] = s.value.value
            return out
    return {}


def arg_of(call, pos, kw):
    for k in call.keywords:
        if k.arg == kw:
            return k.value
    if pos is not None and len(call.args) > pos:
        return call.args[pos]
    return None


def member_of(e, members):
    """MystWarnings.X  /  MystWarnings.X.value  -> X if X is a catalogue member."""
    if isinstance(e, ast.Attribute) and e.attr == "value":
        e = e.value
    if isinstance(e, ast.Attribute) and isinstance(e.value, ast.Name) and e.value.id == "MystWarnings":
        return e.attr if e.attr in members else None
    return None


def run(repo, pid, tier):
    pkg = Package(repo)
    members = enum_members(pkg)
    obligations = []
    functions = []
    typed_sites = {m: 0 for m in members}
    typed_sites["ref.footnote"] = 0
    untyped = {}
    undecided = []

    def ob(oid, ok, detail, kind="callsite"):
        obligations.append({"oid": oid, "status": "unsat" if ok else "sat", "kind": kind, "label": detail[:200],
                            "backend": "flow/constant-propagation", "paths": 1, "time": 0.0, "backends": {"flow": 1},
                            "detail": detail, "line": None})

    if not members:
        undecided.append(("myst_parser.warnings_:MystWarnings", "catalogue enum not found"))
    for f in pkg.functions():
        if ".<locals>." in f.qualname:
            continue  # nested defs are walked as part of their own Func entry only for calls below
        fnode = f.node
        params = {a.arg for a in fnode.args.posonlyargs + fnode.args.args + fnode.args.kwonlyargs}
        is_api = f.node.name in API_NAMES
        par = None
        sites = 0
        nth = {}
        for n in walk_own(fnode):
            if not isinstance(n, ast.Call):
                continue
            name = call_name(n)
            recv = n.func.value if isinstance(n.func, ast.Attribute) else None
            recv_txt = ast.unparse(recv) if recv is not None else ""
            # ---- typed warning API
            is_cb = isinstance(n.func, ast.Name) and name == "warning" and name in params
            if name in API_NAMES or is_cb:
                sites += 1
                k = nth[name] = nth.get(name, 0) + 1
                oid = f"{f.target}:callsite[{name}#{k}]"
                if is_cb:
                    sub, wt = arg_of(n, 0, "wtype"), None  # callback signature: (subtype, message)
                elif name == "log_warning":
                    sub, wt = arg_of(n, 2, "subtype"), None
                elif isinstance(n.func, ast.Name):  # module-level create_warning(document, message, subtype, ...)
                    sub, wt = arg_of(n, 2, "subtype"), arg_of(n, None, "wtype")
                else:  # renderer.create_warning(message, subtype, ...)
                    sub, wt = arg_of(n, 1, "subtype"), arg_of(n, None, "wtype")
                # enclosing lambda parameters (callback wrappers) count as pass-through too
                lam_params = set()
                par = par or parents(fnode)
                p = par.get(n)
                while p is not None:
                    if isinstance(p, ast.Lambda):
                        lam_params |= {a.arg for a in p.args.args}
                    p = par.get(p)
                def passthrough(e):
                    if isinstance(e, ast.Name) and ((is_api and e.id in params) or e.id in lam_params):
                        return True
                    # the `type` field of a ParseWarnings record: every construction site is an obligation below
                    return isinstance(e, ast.Attribute) and e.attr == "type" and isinstance(e.value, ast.Name)
                m = member_of(sub, members) if sub is not None else None
                wt_lit = wt.value if isinstance(wt, ast.Constant) else None
                if sub is None:
                    ob(oid, False, f"line {n.lineno}: no subtype argument")
                elif m is not None and (wt is None or wt_lit is None and isinstance(wt, ast.Constant) or wt_lit == "myst"):
                    typed_sites[m] += 1
                    ob(oid, True, f"line {n.lineno}: (myst, MystWarnings.{m})")
                elif isinstance(sub, ast.Constant) and sub.value == "footnote" and wt_lit == "ref":
                    typed_sites["ref.footnote"] += 1
                    ob(oid, True, f"line {n.lineno}: documented pair (ref, footnote)")
                elif passthrough(sub) and (wt is None or passthrough(wt) or (isinstance(wt_lit, str) and "." not in wt_lit)):
                    ob(oid, True, f"line {n.lineno}: pass-through of the wrapper's own parameters (obligation is at its callers)")
                else:
                    ob(oid, False, f"line {n.lineno}: subtype={ast.unparse(sub)} wtype={ast.unparse(wt) if wt is not None else None} "
                                   "is not a catalogue member / documented pair")
                # result flow
                par = par or parents(fnode)
                use = par.get(n)
                okflow, why = True, "discarded"
                if isinstance(use, ast.Expr):
                    pass
                elif isinstance(use, ast.Return) or isinstance(use, ast.Lambda):
                    okflow, why = (is_api or isinstance(use, ast.Lambda)), "returned by wrapper"
                elif isinstance(use, ast.Assign) and len(use.targets) == 1 and isinstance(use.targets[0], ast.Name):
                    v = use.targets[0].id
                    why = f"bound to {v}"
                    for m2 in walk_own(fnode):
                        if isinstance(m2, ast.Name) and m2.id == v and isinstance(m2.ctx, ast.Load):
                            pu = par.get(m2)
                            # allowed: `[v] if v else []`
                            ife = pu if isinstance(pu, ast.IfExp) else par.get(pu) if isinstance(pu, ast.List) else None
                            good = (isinstance(ife, ast.IfExp) and isinstance(ife.test, ast.Name) and ife.test.id == v
                                    and isinstance(ife.body, ast.List) and len(ife.body.elts) == 1
                                    and isinstance(ife.body.elts[0], ast.Name) and ife.body.elts[0].id == v
                                    and isinstance(ife.orelse, ast.List) and not ife.orelse.elts)
                            if not good:
                                okflow, why = False, f"{v} used at line {m2.lineno} outside `[{v}] if {v} else []`"
                else:
                    okflow, why = False, f"value used in {type(use).__name__} at line {n.lineno}"
                ob(f"{f.target}:result-flow[{name}#{k}]", okflow, f"line {n.lineno}: {why}", kind="result-flow")
                continue
            # ---- logger.warning(..., type=, subtype=)
            if name in ("warning", "error") and recv_txt.lower().endswith("logger") and any(kw.arg == "type" for kw in n.keywords):
                sites += 1
                k = nth["logger"] = nth.get("logger", 0) + 1
                ty = arg_of(n, None, "type")
                sub = arg_of(n, None, "subtype")
                m = member_of(sub, members) if sub is not None else None
                pt = (isinstance(sub, ast.Attribute) and sub.attr == "value" and isinstance(sub.value, ast.Name)
                      and sub.value.id in params and is_api)
                ok = isinstance(ty, ast.Constant) and ty.value == "myst" and (m is not None or pt)
                if f.target == "myst_parser.warnings_:create_warning":
                    # the API's own implementation: hands its (checked) parameters to Sphinx's logger.
                    # type_str / subtype_str must be the names derived from wtype / subtype
                    ok = isinstance(ty, ast.Name) and isinstance(sub, ast.Name)
                if m:
                    typed_sites[m] += 1
                ob(f"{f.target}:callsite[logger.{name}#{k}]", ok,
                   f"line {n.lineno}: type={ast.unparse(ty)} subtype={ast.unparse(sub) if sub is not None else None}")
                continue
            # ---- ParseWarnings(msg, lineno, type): the record's type field feeds create_warning in run_directive
            if name == "ParseWarnings":
                sites += 1
                k = nth[name] = nth.get(name, 0) + 1
                ty = arg_of(n, 2, "type")
                m = member_of(ty, members) if ty is not None else "DIRECTIVE_PARSING"  # the declared default
                if m:
                    typed_sites[m] += 1
                ob(f"{f.target}:callsite[ParseWarnings#{k}]", m is not None,
                   f"line {n.lineno}: type={ast.unparse(ty) if ty is not None else 'default MystWarnings.DIRECTIVE_PARSING'}")
                continue
            # ---- untyped emitting sites (counted, compared with the ledger)
            if name in UNTYPED and recv is not None and (recv_txt.endswith("reporter") or recv_txt.lower().endswith("logger")) \
                    and name in ("warning", "error", "severe", "critical"):
                untyped[f.target] = untyped.get(f.target, 0) + 1
        if sites:
            functions.append({"function": f.target, "warning_call_sites": sites})
    # ---- ledger comparison
    lp = os.path.join(ROOT, "baseline", "c14_sites.json")
    if os.environ.get("PYVC_WRITE_LEDGER"):
        os.makedirs(os.path.dirname(lp), exist_ok=True)
        json.dump({"typed": typed_sites, "untyped": untyped}, open(lp, "w"), indent=1, sort_keys=True)
    if os.path.exists(lp):
        led = json.load(open(lp))
        for m, cnt in sorted(led["typed"].items()):
            now = typed_sites.get(m, 0)
            ob(f"myst_parser.warnings_:catalogue[{m}]", now >= cnt and (m in members or m == "ref.footnote"),
               f"typed emitting sites for {m}: {now} (ledger {cnt})", kind="catalogue")
        for m in members:
            if m not in led["typed"]:
                ob(f"myst_parser.warnings_:catalogue[{m}]", False,
                   f"catalogue member {m} is not in the committed catalogue ledger (the documented catalogue changed)", kind="catalogue")
        for fn, cnt in sorted(untyped.items()):
            ob(f"{fn}:untyped-sites", cnt <= led["untyped"].get(fn, 0),
               f"untyped reporter/logger warning sites: {cnt} (ledger {led['untyped'].get(fn, 0)})", kind="untyped-sites")
    else:
        undecided.append(("baseline/c14_sites.json", "call-site ledger missing"))
    return {
        "obligations": obligations,
        "functions": functions,
        "undecided": undecided,
        "assumptions": [
            "call-site pass is syntactic: a warning API reached through an alias other than the names "
            "create_warning / log_warning / a parameter called `warning` / *logger.warning(type=...) is not seen",
            "Sphinx's logger filter removes a record whose (type, subtype) is suppressed (assumed, sphinx.util.logging)",
        ],
    }
