"""C01 (DESIGN §7.1): exception containment, decided modularly on the AST.

Every function of the containment chain has a `raises` contract (the classes that may escape it).  The pass
computes, per function, the set of classes that can escape its body: each `raise`, each call to a function with a
raises contract (repo function) or an assumed raise-set (library call), minus what enclosing handlers catch
(real class hierarchy, introspected from /venv).  escape(f) must be a subset of raises(f): one obligation per
(function, escaping class origin).  Calls that are in neither table are *assumed not to raise*; the number of such
calls per function is reported.
"""
from __future__ import annotations

import ast
import json
import re
import subprocess

from checks.astutil import Package, walk_own

B = "myst_parser.mdit_to_docutils.base"

# ---- raises contracts of the repo functions in the chain (what may escape them) -------------------------------
RAISES = {
    "myst_parser.parsers.options:options_to_items": {"TokenizeError"},  # PROVED by pyvc (C07)
    "myst_parser.config.main:read_topmatter": {"TopmatterReadError"},
    "myst_parser.config.main:merge_file_level": set(),
    "myst_parser.config.main:validate_field": {"TypeError", "ValueError"},
    "myst_parser.parsers.directives:_parse_directive_options": set(),
    "myst_parser.parsers.directives:parse_directive_arguments": {"MarkupError"},
    "myst_parser.parsers.directives:parse_directive_text": {"MarkupError"},
    f"{B}:DocutilsRenderer.render_front_matter": set(),
    f"{B}:DocutilsRenderer.run_directive": {"AssertionError"},  # the two explicit result-type assertions
    f"{B}:DocutilsRenderer.render_substitution": set(),
    f"{B}:DocutilsRenderer.generate_heading_target": set(),
    f"{B}:DocutilsRenderer.get_inventory_matches": set(),
    f"{B}:compute_unique_slug": {"Exception"},  # a configured slug function may raise anything (proved: nothing else)
    "myst_parser.mdit_to_docutils.html_to_nodes:html_to_nodes": set(),
    "myst_parser.parsers.parse_html:tokenize_html": {"AssertionError", "Exception"},
    "myst_parser.mocking:MockIncludeDirective.run": {"DirectiveError"},
    "myst_parser.inventory:fetch_inventory": {"Exception"},
    "myst_parser.inventory:load": {"ValueError", "Exception"},
    "myst_parser.parsers.docutils_:Parser.parse": set(),
    "myst_parser.parsers.sphinx_:MystParser.parse": set(),
}

# ---- how calls are matched to a raise-set: regex on the unparsed callee ------------------------------------------
CALLS = [
    (r"(^|\.)options_to_items$", "myst_parser.parsers.options:options_to_items"),
    (r"(^|\.)read_topmatter$", "myst_parser.config.main:read_topmatter"),
    (r"(^|\.)merge_file_level$", "myst_parser.config.main:merge_file_level"),
    (r"(^|\.)validate_field$", "myst_parser.config.main:validate_field"),
    (r"(^|\.)_parse_directive_options$", "myst_parser.parsers.directives:_parse_directive_options"),
    (r"(^|\.)parse_directive_arguments$", "myst_parser.parsers.directives:parse_directive_arguments"),
    (r"(^|\.)parse_directive_text$", "myst_parser.parsers.directives:parse_directive_text"),
    (r"(^|\.)compute_unique_slug$", f"{B}:compute_unique_slug"),
    (r"(^|\.)tokenize_html$", "myst_parser.parsers.parse_html:tokenize_html"),
    (r"(^|\.)fetch_inventory$", "myst_parser.inventory:fetch_inventory"),
]
# assumed raise-sets of library calls (DESIGN §6); a class listed here is what the *caller* must contain
ASSUMED = [
    (r"^yaml\.safe_load$", {"YAMLError", "ValueError"}, "PyYAML: any yaml.YAMLError subclass, or ValueError from timestamp construction"),
    (r"^converter$", {"ValueError", "TypeError"}, "docutils option converters raise ValueError/TypeError"),
    (r"\.read_text$|\.read_bytes$|^open$|\.open$|^urlopen$", {"OSError", "UnicodeError", "ValueError", "LookupError"},
     "file access: OSError, UnicodeError (decoding), ValueError (embedded NUL), LookupError (unknown encoding)"),
    (r"from_string\(.*\)\.render$", {"Exception"}, "jinja2 template rendering may raise arbitrary exceptions (user expressions)"),
    (r"\.from_string$", {"Exception"}, "jinja2 template compilation may raise TemplateSyntaxError etc."),
    (r"directive_instance\.run$", {"DirectiveError", "MockingError"},
     "a docutils/Sphinx directive raises DirectiveError (self.error/warning...) or, through the mocks, MockingError; "
     "anything else it raises is the directive's own defect (assumed absent)"),
    (r"^slug_func$", {"Exception"}, "user-configured slug function"),
    (r"^next$", {"StopIteration"}, "next() on an exhausted iterator"),
]


def introspect_hierarchy():
    """Names of the exception classes involved -> list of ancestor names (real MROs from /venv)."""
    code = r'''
import json, builtins
import yaml, jinja2
from docutils.parsers.rst import DirectiveError
from docutils.parsers.rst.states import MarkupError
from myst_parser.mocking import MockingError
from myst_parser.parsers.options import TokenizeError
from myst_parser.config.main import TopmatterReadError
out = {}
def add(c):
    out[c.__name__] = [k.__name__ for k in c.__mro__]
for n in dir(builtins):
    c = getattr(builtins, n)
    if isinstance(c, type) and issubclass(c, BaseException):
        add(c)
for n in dir(yaml):
    c = getattr(yaml, n)
    if isinstance(c, type) and issubclass(c, BaseException):
        add(c)
for sub in (yaml.scanner.ScannerError, yaml.parser.ParserError, yaml.composer.ComposerError, yaml.constructor.ConstructorError, yaml.reader.ReaderError):
    add(sub)
for c in (DirectiveError, MarkupError, MockingError, TokenizeError, TopmatterReadError, jinja2.TemplateError):
    add(c)
print(json.dumps(out))
'''
    p = subprocess.run(["/venv/bin/python", "-c", code], capture_output=True, text=True, timeout=120)
    if p.returncode != 0:
        raise RuntimeError("introspection failed: " + p.stderr[-500:])
    return json.loads(p.stdout.strip().splitlines()[-1])


class Analyzer:
    def __init__(self, hier):
        self.hier = hier
        self.assumed_silent = 0

    def sub(self, c, of):
        c, of = c.split(".")[-1], of.split(".")[-1]
        if c == of:
            return True
        return of in self.hier.get(c, [c, "Exception", "BaseException", "object"])

    def caught(self, cls, handlers):
        """Is class `cls` certainly caught by one of the handler class lists?"""
        return any(self.sub(cls, h) for hs in handlers for h in hs)

    def call_raises(self, call):
        txt = ast.unparse(call.func)
        for rx, target in CALLS:
            if re.search(rx, txt):
                return [(c, f"call {txt} (contract of {target.split(':')[1]})") for c in sorted(RAISES[target])]
        for rx, classes, why in ASSUMED:
            if re.search(rx, txt):
                return [(c, f"call {txt} (assumed: {why})") for c in sorted(classes)]
        self.assumed_silent += 1
        return []

    def expr_escapes(self, node, handlers, out):
        for n in ast.walk(node) if not isinstance(node, list) else [x for s in node for x in ast.walk(s)]:
            if isinstance(n, ast.Call):
                for cls, why in self.call_raises(n):
                    if not self.caught(cls, handlers):
                        out.append((cls, f"line {n.lineno}: {why}"))

    def block(self, stmts, handlers, out, current=None):
        for s in stmts:
            self.stmt(s, handlers, out, current)

    def stmt(self, s, handlers, out, current):
        if isinstance(s, (ast.FunctionDef, ast.AsyncFunctionDef, ast.ClassDef)):
            return
        if isinstance(s, ast.Raise):
            if s.exc is None:
                for cls in (current or ["Exception"]):
                    if not self.caught(cls, handlers):
                        out.append((cls, f"line {s.lineno}: re-raise"))
            else:
                e = s.exc.func if isinstance(s.exc, ast.Call) else s.exc
                cls = ast.unparse(e).split(".")[-1]
                if isinstance(s.exc, ast.Call):
                    self.expr_escapes(s.exc, handlers, out)
                if isinstance(e, ast.Name) and current and e.id not in self.hier and not e.id[0].isupper():
                    cls = None  # `raise exc` of a bound handler variable: the caught classes
                    for c in current:
                        if not self.caught(c, handlers):
                            out.append((c, f"line {s.lineno}: re-raise of caught exception"))
                if cls and not self.caught(cls, handlers):
                    out.append((cls, f"line {s.lineno}: raise {cls}"))
            return
        if isinstance(s, ast.Try):
            hs = []
            for h in s.handlers:
                if h.type is None:
                    hs.append("BaseException")
                else:
                    for t in (h.type.elts if isinstance(h.type, ast.Tuple) else [h.type]):
                        hs.append(ast.unparse(t).split(".")[-1])
            self.block(s.body, handlers + [hs], out, current)
            for h in s.handlers:
                cls = ["BaseException"] if h.type is None else [ast.unparse(t).split(".")[-1] for t in (h.type.elts if isinstance(h.type, ast.Tuple) else [h.type])]
                self.block(h.body, handlers, out, cls)
            self.block(s.orelse, handlers, out, current)
            self.block(s.finalbody, handlers, out, current)
            return
        if isinstance(s, ast.With):
            hs = []
            for it in s.items:
                ce = it.context_expr
                if isinstance(ce, ast.Call) and ast.unparse(ce.func).endswith("suppress"):
                    hs += [ast.unparse(a).split(".")[-1] for a in ce.args]
                else:
                    self.expr_escapes(ce, handlers, out)
            self.block(s.body, handlers + ([hs] if hs else []), out, current)
            return
        if isinstance(s, (ast.If, ast.While)):
            self.expr_escapes(s.test, handlers, out)
            self.block(s.body, handlers, out, current)
            self.block(s.orelse, handlers, out, current)
            return
        if isinstance(s, ast.For):
            self.expr_escapes(s.iter, handlers, out)
            self.block(s.body, handlers, out, current)
            self.block(s.orelse, handlers, out, current)
            return
        if isinstance(s, ast.Assert):
            if not self.caught("AssertionError", handlers):
                out.append(("AssertionError", f"line {s.lineno}: assert"))
            return
        self.expr_escapes(s, handlers, out)


def run(repo, pid, tier):
    pkg = Package(repo)
    hier = introspect_hierarchy()
    obligations, functions, undecided = [], [], []
    for target, allowed in sorted(RAISES.items()):
        if target in ("myst_parser.parsers.options:options_to_items", "myst_parser.parsers.parse_html:tokenize_html",
                      "myst_parser.inventory:fetch_inventory", "myst_parser.inventory:load", f"{B}:compute_unique_slug",
                      "myst_parser.config.main:validate_field"):
            continue  # contract proved elsewhere (pyvc) or used only as an assumed upper bound at call sites
        f = pkg.func(target)
        if f is None:
            undecided.append((f"{target}:raises", "function under contract not found (renamed or removed)"))
            continue
        an = Analyzer(hier)
        esc = []
        an.block(f.node.body, [], esc)
        bad = [(c, why) for c, why in esc if not any(an.sub(c, a) for a in allowed)]
        functions.append({"function": target, "raises_contract": sorted(allowed), "escaping_origins": len(esc),
                          "calls_assumed_not_to_raise": an.assumed_silent})
        obligations.append({
            "oid": f"{target}:raises-contained", "status": "sat" if bad else "unsat", "kind": "raises",
            "label": f"escape set within {sorted(allowed)}", "backend": "flow/exception-containment", "paths": 1, "time": 0.0,
            "backends": {"flow": 1}, "line": None,
            "detail": ("escapes: " + "; ".join(f"{c} ({why})" for c, why in bad)) if bad else
                      f"{len(esc)} raising origins, all contained or permitted: " + "; ".join(f"{c} ({why})" for c, why in esc[:6]),
        })
        # every handler the contract relies on is itself an obligation: the chain link must be present
    return {
        "obligations": obligations,
        "functions": functions,
        "undecided": undecided,
        "assumptions": [f"raise-set of {rx}: {sorted(cl)} - {why}" for rx, cl, why in ASSUMED] + [
            "calls that match no contract and no assumed raise-set are assumed not to raise (count per function in "
            "coverage.functions_under_contract[].calls_assumed_not_to_raise); implicit exceptions of built-in operations "
            "in the docutils-facing code are not modelled",
            "jinja2 env.parse(t) does not raise for a template text t that env.from_string(t) just compiled (render_substitution)",
            "exception class hierarchy introspected from the installed PyYAML/docutils/jinja2/myst_parser",
        ],
    }
