"""C15 / C20 (DESIGN §7.3): frame, ownership and effect contracts decided on the AST.

Contracts (one obligation per site):
  no-alias      a container attribute that is mutated in place somewhere in the package is an OWNED representation
                field: it may be read, iterated, indexed, copied - but a plain load of it may not be bound to another
                name / stored / returned / passed on, except at the sites listed (with their reason) in the ledger.
  shared-write  a store or in-place mutation whose base goes through a shared holder (configuration objects, docutils
                settings, class-level option specs, module globals, another library's module state) must be one of the
                ledger's sites; each ledger site carries its lemma (idempotent / restored in `finally`), and a
                'restored' site must still have its restoring assignment inside a `finally` block.
  param-frame   merge_file_level(config, ...) never hands `config` to a mutating callee and never stores into it.
  ambient-read  calls that read ambient nondeterminism (uuid, random, time, datetime.now, os.environ, id()) are
                exactly the ledger's (the uuid4 label is a known finding of C15).
  file-read     every call of a file/URL reading API is dominated, in its function, by the
                `file_insertion_enabled` refusal, or is one of the ledger's configuration-driven reads (C20).
  raw-removal   Parser.parse: under `not raw_enabled`, every node of document.traverse/findall(nodes.raw) is replaced
                by the direct result of document.reporter.warning(...) (never None) (C20).
The ledger baseline/frame_ledger.json is committed; nothing is added to it at run time.
"""
from __future__ import annotations

import ast
import json
import os

from checks.astutil import Package, parents, walk_own

ROOT = os.path.dirname(os.path.dirname(os.path.abspath(__file__)))
MUT = {"add", "update", "append", "extend", "pop", "remove", "clear", "insert", "setdefault", "discard", "sort",
       "difference_update", "intersection_update", "popitem", "appendleft"}
COPIERS = {"copy", "deepcopy", "dict", "list", "set", "sorted", "tuple", "frozenset", "len", "bool", "any", "all", "str",
           "repr", "isinstance", "iter", "enumerate", "zip", "max", "min", "sum", "reversed", "join", "print", "hasattr", "getattr"}
SHARED_HOLDERS = {"md_config", "config", "myst_config", "settings", "option_spec", "environ", "_roles", "registry"}
AMBIENT = ("uuid.", "random.", "time.time", "time.monotonic", "datetime.now", "datetime.today", "os.environ", "os.getenv")
FILE_APIS = ("open", "read_text", "read_bytes", "urlopen")


def attr_chain(e):
    out = []
    while isinstance(e, (ast.Attribute, ast.Subscript, ast.Call)):
        if isinstance(e, ast.Attribute):
            out.append(e.attr)
            e = e.value
        elif isinstance(e, ast.Subscript):
            e = e.value
        else:
            e = e.func
    if isinstance(e, ast.Name):
        out.append(e.id)
    return list(reversed(out))


def run(repo, pid, tier):
    pkg = Package(repo)
    funcs = [f for f in pkg.functions()]
    obligations, functions, undecided = [], [], []

    def ob(oid, ok, detail, kind):
        obligations.append({"oid": oid, "status": "unsat" if ok else "sat", "kind": kind, "label": detail[:200],
                            "backend": "flow/frame", "paths": 1, "time": 0.0, "backends": {"flow": 1}, "detail": detail, "line": None})

    # ---- pass 0: which attribute names are mutated in place anywhere?
    mutated = {}
    for f in funcs:
        for n in walk_own(f.node):
            tgt = None
            if isinstance(n, ast.Call) and isinstance(n.func, ast.Attribute) and n.func.attr in MUT and isinstance(n.func.value, ast.Attribute):
                tgt = n.func.value.attr
            elif isinstance(n, (ast.Assign, ast.Delete)):
                for t in n.targets:
                    if isinstance(t, ast.Subscript) and isinstance(t.value, ast.Attribute):
                        tgt = t.value.attr
            if tgt:
                mutated.setdefault(tgt, []).append(f"{f.target}:{n.lineno}")
    # docutils / markdown-it objects and scalar fields are not MyST-owned containers
    NOT_OWNED = {"document", "current_node", "parent", "attrs", "struct", "stack", "body", "options", "buffer", "_children",
                 "transforms", "metadata", "record_dependencies", "mathjax3_config", "mathjax_config", "html_block_math_renderers",
                 "_roles", "autofootnotes", "_index", "_line", "_column"}
    mutated = {k: v for k, v in mutated.items() if k not in NOT_OWNED}
    sites = {"alias": {}, "shared": {}, "ambient": {}, "file": {}}
    for f in funcs:
        par = None
        counters = {}
        for n in walk_own(f.node):
            # ---- aliasing of owned fields
            if isinstance(n, ast.Attribute) and isinstance(n.ctx, ast.Load) and n.attr in mutated:
                par = par or parents(f.node)
                p = par.get(n)
                kind = None
                if isinstance(p, (ast.Assign, ast.AnnAssign)) and p.value is n:
                    kind = "bound"
                elif isinstance(p, ast.Return):
                    kind = "returned"
                elif isinstance(p, (ast.Yield,)):
                    kind = "yielded"
                elif isinstance(p, ast.Call) and n in p.args:
                    fn = p.func.attr if isinstance(p.func, ast.Attribute) else getattr(p.func, "id", "")
                    if fn not in COPIERS:
                        kind = f"passed to {fn}"
                elif isinstance(p, ast.keyword):
                    kind = f"passed as {p.arg}="
                elif isinstance(p, (ast.List, ast.Tuple, ast.Dict, ast.Set)):
                    kind = "stored in a container"
                if kind:
                    k = f"{f.target}|{n.attr}|{kind}"
                    counters[k] = counters.get(k, 0) + 1
                    sites["alias"][f"{k}#{counters[k]}"] = f"line {n.lineno}: {ast.unparse(n)} {kind}"
            # ---- shared writes
            wr = None
            if isinstance(n, ast.Call) and isinstance(n.func, ast.Attribute) and n.func.attr in MUT:
                wr = (n.func.value, f".{n.func.attr}()")
            elif isinstance(n, ast.Call) and isinstance(n.func, ast.Name) and n.func.id == "setattr" and n.args:
                wr = (n.args[0], " via setattr")
            elif isinstance(n, (ast.Assign, ast.AugAssign, ast.AnnAssign, ast.Delete)):
                for t in (n.targets if isinstance(n, (ast.Assign, ast.Delete)) else [n.target]):
                    if isinstance(t, (ast.Attribute, ast.Subscript)):
                        wr = (t, " =")
            if wr:
                chain = attr_chain(wr[0])
                inner = chain[:-1] if isinstance(wr[0], ast.Attribute) and wr[1] == " =" else chain
                hit = [c for c in inner if c in SHARED_HOLDERS] or ([chain[0]] if chain and chain[0][:1].isupper() and len(chain) > 1 else [])
                if isinstance(wr[0], ast.Attribute) and wr[1] == " =" and chain and chain[0] not in ("self",) and chain[-1] in SHARED_HOLDERS:
                    hit = hit or [chain[-1]]
                if hit:
                    k = f"{f.target}|{'.'.join(chain)}{wr[1]}"
                    counters[k] = counters.get(k, 0) + 1
                    sites["shared"][f"{k}#{counters[k]}"] = f"line {n.lineno}: {ast.unparse(n)[:120]}"
            if isinstance(n, ast.Global):
                k = f"{f.target}|global {','.join(n.names)}"
                sites["shared"][k] = f"line {n.lineno}: global statement"
            # ---- ambient reads / file reads
            if isinstance(n, ast.Call):
                txt = ast.unparse(n.func)
                if any(txt.startswith(a) or ("." + a) in ("." + txt) for a in AMBIENT) or txt in ("id", "uuid4", "getpid"):
                    k = f"{f.target}|{txt}"
                    sites["ambient"][k] = f"line {n.lineno}: {ast.unparse(n)[:100]}"
                last = txt.split(".")[-1]
                if last in FILE_APIS and not (last == "open" and "." in txt and txt.split(".")[0] in ("webbrowser",)):
                    k = f"{f.target}|{txt}"
                    counters[k] = counters.get(k, 0) + 1
                    sites["file"][f"{k}#{counters[k]}"] = (f, n)
    # ---- ledger
    lp = os.path.join(ROOT, "baseline", "frame_ledger.json")
    if os.environ.get("PYVC_WRITE_LEDGER") == "frame":
        led = json.load(open(lp)) if os.path.exists(lp) else {}
        for cat in ("alias", "shared", "ambient"):
            led.setdefault(cat, {})
            for k, v in sites[cat].items():
                led[cat].setdefault(k, {"site": v, "lemma": "TODO"})
        led.setdefault("file", {})
        for k, (f, n) in sites["file"].items():
            led["file"].setdefault(k, {"site": f"line {n.lineno}", "lemma": "TODO"})
        json.dump(led, open(lp, "w"), indent=1, sort_keys=True)
    if not os.path.exists(lp):
        return {"obligations": [], "functions": [], "undecided": [("baseline/frame_ledger.json", "ledger missing")], "assumptions": []}
    led = json.load(open(lp))
    for cat, kind in (("alias", "no-alias"), ("shared", "shared-write"), ("ambient", "ambient-read")):
        for k, v in sorted(sites[cat].items()):
            fn, rest = k.split("|", 1)
            e = led.get(cat, {}).get(k)
            ob(f"{fn}:{kind}[{rest}]", e is not None, (v + (" - ledger: " + e["lemma"] if e else " - NOT in the committed ledger")), kind)
    # restored sites: the restoring assignment must still be inside a finally block of the same function
    for k, e in led.get("shared", {}).items():
        if e.get("restored_by"):
            fn = k.split("|", 1)[0]
            f = pkg.func(fn)
            ok = False
            if f is not None:
                for n in walk_own(f.node):
                    if isinstance(n, ast.Try) and n.finalbody:
                        txt = "\n".join(ast.unparse(s) for s in n.finalbody)
                        if e["restored_by"] in txt:
                            ok = True
            ob(f"{fn}:restored[{k.split('|', 1)[1]}]", ok, f"restoring statement `{e['restored_by']}` inside a finally block", "restored")
    # ---- file reads (C20)
    for k, (f, n) in sorted(sites["file"].items()):
        fn, rest = k.split("|", 1)
        e = led.get("file", {}).get(k)
        guarded = False
        for st in f.node.body:  # top-level statements before the read
            if st.lineno >= n.lineno:
                break
            if isinstance(st, ast.If) and "file_insertion_enabled" in ast.unparse(st.test) and isinstance(st.test, ast.UnaryOp) \
                    and isinstance(st.test.op, ast.Not) and st.body and isinstance(st.body[-1], (ast.Raise, ast.Return)) and not st.orelse:
                guarded = True
        if guarded:
            ob(f"{fn}:file-read[{rest}]", True, f"line {n.lineno}: dominated by the `if not ...file_insertion_enabled: raise` refusal at function entry", "file-read")
        else:
            ob(f"{fn}:file-read[{rest}]", e is not None, f"line {n.lineno}: {ast.unparse(n)[:80]} - " + (("ledger: " + e["lemma"]) if e else "not guarded by file_insertion_enabled and NOT in the committed ledger"), "file-read")
    # ---- param frame of merge_file_level (C15 / C13)
    f = pkg.func("myst_parser.config.main:merge_file_level")
    if f is None:
        undecided.append(("myst_parser.config.main:merge_file_level:param-frame", "function not found"))
    else:
        bad = []
        for n in walk_own(f.node):
            if isinstance(n, ast.Call):
                fnm = ast.unparse(n.func)
                if fnm in ("validate_field", "setattr", "validate_fields") and n.args and isinstance(n.args[0], ast.Name) and n.args[0].id == "config":
                    bad.append(f"line {n.lineno}: {ast.unparse(n)[:80]}")
            if isinstance(n, (ast.Assign, ast.AugAssign)):
                for t in (n.targets if isinstance(n, ast.Assign) else [n.target]):
                    ch = attr_chain(t) if isinstance(t, (ast.Attribute, ast.Subscript)) else []
                    if ch and ch[0] == "config":
                        bad.append(f"line {n.lineno}: store into config")
        copies = [n for n in walk_own(f.node) if isinstance(n, ast.Assign) and ast.unparse(n.value) == "config.copy()"]
        ob("myst_parser.config.main:merge_file_level:param-frame[config]", not bad and bool(copies),
           "the global config is only read: it is copied, never stored into and never passed to validate_field/setattr" + ("; violations: " + "; ".join(bad) if bad else ""), "param-frame")
    # ---- raw removal loop (C20)
    f = pkg.func("myst_parser.parsers.docutils_:Parser.parse")
    ok, why = False, "raw-removal loop not found"
    if f is not None:
        for n in walk_own(f.node):
            if isinstance(n, ast.If) and "raw_enabled" in ast.unparse(n.test) and isinstance(n.test, ast.UnaryOp):
                for lp_ in n.body:
                    if isinstance(lp_, ast.For) and "nodes.raw" in ast.unparse(lp_.iter) and ("traverse" in ast.unparse(lp_.iter) or "findall" in ast.unparse(lp_.iter)):
                        var = lp_.target.id if isinstance(lp_.target, ast.Name) else None
                        binds = {}
                        repl = None
                        for s in lp_.body:
                            if isinstance(s, ast.Assign) and isinstance(s.targets[0], ast.Name):
                                binds[s.targets[0].id] = s.value
                            if isinstance(s, ast.Expr) and isinstance(s.value, ast.Call) and ast.unparse(s.value.func) == f"{var}.parent.replace":
                                repl = s.value
                        if repl is not None and len(repl.args) == 2 and ast.unparse(repl.args[0]) == var:
                            new = repl.args[1]
                            src = binds.get(new.id) if isinstance(new, ast.Name) else new
                            if isinstance(src, ast.Call) and ast.unparse(src.func).endswith("reporter.warning"):
                                ok, why = True, f"line {lp_.lineno}: every raw node is replaced by document.reporter.warning(...) (a system_message, never None)"
                            else:
                                why = f"line {lp_.lineno}: replacement value {ast.unparse(new)} is not the direct result of reporter.warning(...) - it may be None"
                        else:
                            why = f"line {lp_.lineno}: loop body does not replace the node through node.parent.replace(node, warning)"
    ob("myst_parser.parsers.docutils_:Parser.parse:raw-removal", ok, why, "raw-removal")
    functions.append({"function": "package scan", "owned_fields_mutated_in_place": sorted(mutated), "alias_sites": len(sites["alias"]),
                      "shared_write_sites": len(sites["shared"]), "ambient_read_sites": len(sites["ambient"]), "file_read_sites": len(sites["file"])})
    KINDS = {"C20": {"file-read", "raw-removal"}, "C15": {"no-alias", "shared-write", "restored", "ambient-read", "param-frame"},
             "C13": {"param-frame"}, "C05": {"no-alias"}}
    if pid in KINDS:
        obligations = [o for o in obligations if o["kind"] in KINDS[pid] and (pid != "C05" or "_level_to_section" in o["oid"])]
    # an obligation about a ledger entry that is a recorded known finding is proved *outside* that region
    for o in obligations:
        if "C15-uuid-label" in o["detail"]:
            o["known"] = ["C15-uuid-label"]
    return {
        "obligations": obligations,
        "functions": functions,
        "undecided": undecided,
        "assumptions": [
            "frame pass is syntactic: bases are classified by attribute-chain names (shared holders: " + ", ".join(sorted(SHARED_HOLDERS)) +
            "); a shared object reached through a differently named alias is not seen; the mutating-method list is " + ", ".join(sorted(MUT)),
            "document.reporter.warning(...) returns a system_message node, never None (docutils)",
        ],
    }
