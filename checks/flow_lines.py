"""C04: the frame condition the line-arithmetic proofs (contracts/lines.py) rely on, decided on the AST of the whole package.

  map-frame   every store to an attribute named `map` (assignment, augmented assignment, del, setattr(..., "map", ...)) in
              myst_parser lies in one of the two regions under contract: the first loop of DocutilsRenderer._render_tokens
              (before `node_tree = SyntaxTreeNode(tokens)`) or the shift loop of DocutilsRenderer.nested_render_text.
              A write anywhere else is outside the declared frame (`modifies Token.map`) of every other function, so the
              relation  token.map[0] == parser line + offset + 1  proved for those two regions would no longer carry to the
              places where add_line_and_source_path / token_line read it.
  line-reads  (evidence, not an obligation) the places where token_line / add_line_and_source_path are called.
"""
from __future__ import annotations

import ast

from checks.astutil import Package, walk_own

M = "myst_parser.mdit_to_docutils.base"
REGIONS = {
    f"{M}:DocutilsRenderer._render_tokens": "node_tree = SyntaxTreeNode(tokens)",  # prefix contract: before this statement
    f"{M}:DocutilsRenderer.nested_render_text": None,  # whole function under contract
}


def _map_stores(fnode):
    for n in walk_own(fnode):
        tgts = []
        if isinstance(n, ast.Assign):
            tgts = n.targets
        elif isinstance(n, (ast.AugAssign, ast.AnnAssign)):
            tgts = [n.target]
        elif isinstance(n, ast.Delete):
            tgts = n.targets
        elif isinstance(n, ast.Call) and isinstance(n.func, ast.Name) and n.func.id == "setattr" and len(n.args) >= 2:
            a = n.args[1]
            if isinstance(a, ast.Constant) and a.value == "map":
                yield n, f"setattr(..., {ast.unparse(a)}, ...)"
            continue
        for t in tgts:
            for e in ([t] if not isinstance(t, (ast.Tuple, ast.List)) else t.elts):
                if isinstance(e, ast.Attribute) and e.attr == "map":
                    yield n, ast.unparse(e)
                elif isinstance(e, ast.Subscript) and isinstance(e.value, ast.Attribute) and e.value.attr == "map":
                    yield n, ast.unparse(e)


def run(repo, pid, tier):
    pkg = Package(repo)
    obligations, functions, undecided = [], [], []
    n_sites = 0
    for f in pkg.functions():
        for node, what in _map_stores(f.node):
            n_sites += 1
            ok, why = False, "outside the regions under contract"
            if f.target in REGIONS:
                cut = REGIONS[f.target]
                if cut is None:
                    ok, why = True, "inside nested_render_text (under contract)"
                else:
                    body = f.node.body
                    idx = [i for i, b in enumerate(body) if ast.unparse(b).startswith(cut)]
                    if len(idx) == 1 and node.lineno < body[idx[0]].lineno:
                        ok, why = True, "inside the first loop of _render_tokens (under contract)"
                    else:
                        why = f"after `{cut}` (outside the prefix contract)"
            oid = f"{f.target}:map-frame[{what} @{ast.unparse(node)[:60]}]"
            obligations.append({"oid": oid, "status": "unsat" if ok else "sat", "kind": "map-frame",
                                "label": f"store to {what}: {why}", "backend": "flow/lines", "paths": 1, "time": 0.0,
                                "backends": {"flow": 1}, "detail": f"line {node.lineno}: {ast.unparse(node)[:120]} - {why}",
                                "line": node.lineno})
    for t in REGIONS:
        if pkg.func(t) is None:
            undecided.append((f"{t}:map-frame", "function under contract not found"))
    if n_sites == 0:
        undecided.append(("map-frame:vacuity", "no store to `.map` found at all (the shift loops are gone?)"))
    reads = []
    for f in pkg.functions():
        for n in walk_own(f.node):
            if isinstance(n, ast.Call):
                name = n.func.attr if isinstance(n.func, ast.Attribute) else getattr(n.func, "id", "")
                if name in ("token_line", "add_line_and_source_path", "add_line_and_source_path_r"):
                    reads.append(f"{f.target}:{n.lineno}")
    functions.append({"function": "package scan (map stores)", "map_store_sites": n_sites, "line_read_sites": len(reads)})
    return {"obligations": obligations, "functions": functions, "undecided": undecided,
            "assumptions": ["map-frame is syntactic: a store through an alias of the attribute name (e.g. vars(token)['map'] = ..., "
                            "token.__dict__.update, setattr with a computed name - the package has such calls only on configuration dataclasses) is not seen; markdown-it-py itself does not change a token's map after parsing"]}
