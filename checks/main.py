"""./check <property-id> <quick|thorough>   |   ./check replay <path>

Decides one property of /repo (current working tree) by
  1. discharging the proof obligations that pyvc generates from the real source + sidecar contracts,
  2. the SMT-free contract passes (exception containment, call-site preconditions, frames/effects),
  3. bounded stand-ins / countermodel replay on the real code under /venv/bin/python (labelled bounded),
and writes evidence/<id>.json.   Exit: 0 held, 1 violation, 2 undecided, 3 checker crash.
"""
from __future__ import annotations

import hashlib
import importlib
import json
import multiprocessing as mp
import os
import subprocess
import sys
import time
import traceback

ROOT = os.path.dirname(os.path.dirname(os.path.abspath(__file__)))
sys.path.insert(0, ROOT)
REPO = os.environ.get("PYVC_REPO", "/repo")
VENV_PY = "/venv/bin/python"


def load_known():
    p = os.path.join(ROOT, "known_findings.json")
    if not os.path.exists(p):
        return []
    return json.load(open(p))


def load_ledger():
    p = os.path.join(ROOT, "baseline", "obligations.json")
    if not os.path.exists(p):
        return {}
    return json.load(open(p))


def slug(s, n=60):
    out = "".join(c if c.isalnum() else "-" for c in s)
    while "--" in out:
        out = out.replace("--", "-")
    h = hashlib.sha1(s.encode()).hexdigest()[:8]
    return out[:n].strip("-") + "-" + h


def write_replay(pid, oid, payload):
    d = os.path.join(ROOT, "replays")
    os.makedirs(d, exist_ok=True)
    path = os.path.join(d, f"{pid}-{slug(oid)}.json")
    payload = dict(payload)
    payload.setdefault("property", pid)
    payload.setdefault("obligation", oid)
    payload["rerun"] = f"./check replay {path}"
    with open(path, "w") as f:
        json.dump(payload, f, indent=1, default=str)
    return path


def run_harness(pid, tier, seed, extra=None, timeout=3600, monitor=False):
    """Run the run-time harness (real code, /venv python).  -> dict or {'error':...}"""
    cmd = [VENV_PY, os.path.join(ROOT, "harness", "run.py"), pid, tier, str(seed)]
    inp = json.dumps(extra) if extra is not None else ""
    env = dict(os.environ)
    env["PYVC_MONITOR_HARNESS"] = "1" if monitor else "0"
    # (a tree other than /repo - PYVC_REPO, used for seeded changes in scratch worktrees - is put in front of the editable install)
    env["PYTHONPATH"] = os.pathsep.join([ROOT] + ([REPO] if REPO != "/repo" else []) + [env.get("PYTHONPATH", "")])
    env["PYTHONHASHSEED"] = "0"
    try:
        p = subprocess.run(cmd, input=inp, capture_output=True, text=True, timeout=timeout, env=env, cwd=ROOT)
    except subprocess.TimeoutExpired:
        return {"error": "harness timeout"}
    if p.returncode != 0:
        return {"error": f"harness exit {p.returncode}: {p.stderr[-2000:]}"}
    try:
        return json.loads(p.stdout.strip().splitlines()[-1])
    except Exception as err:
        return {"error": f"harness output unparsable: {err}: {p.stdout[-500:]} {p.stderr[-500:]}"}


def main(argv):
    if len(argv) >= 2 and argv[0] == "replay":
        from checks import replay

        return replay.main(argv[1])
    if len(argv) < 1:
        print(__doc__)
        return 3
    pid = argv[0]
    tier = argv[1] if len(argv) > 1 else os.environ.get("VERIF_TIER", "quick")
    seed = int(os.environ.get("VERIF_SEED", "0") or 0)
    t0 = time.time()
    from checks import props

    cfg = props.PROPS[pid]
    known = [k for k in load_known() if k.get("property") == pid]
    known_active = {k["id"]: k for k in known if k.get("status") == "known"}
    os.environ["PYVC_KNOWN"] = ",".join(sorted(known_active))
    ledger = load_ledger().get(pid, {})
    timeout_ms = 20000 if tier == "quick" else 60000

    lines = []  # stdout lines
    violations = []  # (oid, replay path, suffix)
    undecided = []  # (oid, reason)
    known_printed = []
    obligations = {}  # oid -> record
    functions = []
    assumptions = list(cfg.get("assumptions", []))
    trusted = list(cfg.get("trusted_base", []))
    bounded = []
    solver_s = 0.0
    backends = {}

    # ------------------------------------------------------------------ 1. pyvc proofs
    from pyvc.spec import REG

    for m in cfg.get("contracts", []):
        importlib.import_module(m)
    cm = ",".join(cfg.get("contracts", []))
    targets = [t for t, fs in REG.funs.items() if pid in fs.properties and not fs.trusted and not t.startswith("ext:")]
    jobs = [(cm, t, timeout_ms, None if REPO == "/repo" else REPO) for t in targets]
    if tier == "thorough":
        os.environ["PYVC_CROSS"] = "1"  # every discharged query is also put to the command-line solvers (agreement run)
    results = []
    if jobs:
        from checks.pyvc_worker import _entry

        # one fresh process per function: the z3 context and the fresh-name counters never depend on what a worker did before
        with mp.get_context("fork").Pool(min(16, len(jobs)), maxtasksperchild=1) as pool:
            results = pool.map(_entry, jobs, chunksize=1)
    for r in results:
        t = r["target"]
        fs = REG.funs[t]
        functions.append({"function": t, "source_sha256_16": r["sha"], "paths": r["paths"],
                          "obligations": len(r["obligations"]), "wall_s": round(r.get("wall_s", 0), 2),
                          "canary": r["canary"]})
        if r.get("dropped"):
            functions[-1]["partial"] = r["dropped"]
        solver_s += r.get("solver_s", 0.0)
        if r["error"]:
            kind = "crash" if r["error"].startswith("crash") else "outside-subset"
            undecided.append((f"{t}:engine", r["error"][:400]))
            continue
        if not r["obligations"]:
            undecided.append((f"{t}:vacuity", "no obligations generated"))
        if r["canary"] == "vacuous":
            undecided.append((f"{t}:canary", "`ensures False` could not be refuted: contract is vacuous"))
        for u in r["undecided"]:
            undecided.append((f"{t}:{u[0]}", u[1]))
        for oid, o in r["obligations"].items():
            obligations[oid] = o
            for b, n in o["backends"].items():
                backends[b] = backends.get(b, 0) + n
        # contract-derived obligations recorded in the ledger must still be generated
        for oid, rec in ledger.items():
            if oid.startswith(t + ":post[") and oid not in r["obligations"]:
                undecided.append((oid, "postcondition obligation of the ledger was not generated"))
    for a in REG.assumed:
        if not a.get("properties") or pid in a.get("properties", ()):
            assumptions.append(f"assumed contract {a['name']}: {a['statement']}")
    for t, fs in REG.funs.items():
        if (fs.trusted or t.startswith("ext:")) and any(t in r.get("calls", []) for r in results):
            trusted.append(f"assumed contract of {t}: requires {fs.requires} ensures {fs.ensures} raises {list(fs.raises)}")
        elif fs.until and fs.callers is not None and any(t in r.get("calls", []) and r["target"] != t for r in results):
            trusted.append(f"assumed caller view of {t} (its own contract covers only the prefix before `{fs.until}`): "
                           f"requires {fs.callers.requires} ensures {fs.callers.ensures} modifies {fs.callers.modifies}")

    # ------------------------------------------------------------------ 2. SMT-free contract passes
    for passname in cfg.get("flow", []):
        modname, fn = passname.split(":")
        try:
            mod = importlib.import_module(modname)
            out = getattr(mod, fn)(REPO, pid, tier)
        except Exception:
            undecided.append((f"{passname}:crash", traceback.format_exc()[-800:]))
            continue
        for o in out["obligations"]:
            obligations[o["oid"]] = o
            backends[o.get("backend", "flow")] = backends.get(o.get("backend", "flow"), 0) + 1
        assumptions.extend(out.get("assumptions", []))
        functions.extend(out.get("functions", []))
        for u in out.get("undecided", []):
            undecided.append(tuple(u))

    # ------------------------------------------------------------------ 3. run-time harness
    hres = None
    if cfg.get("harness"):
        witnesses = []
        for oid, o in obligations.items():
            if o["status"] == "sat" and o.get("witness"):
                witnesses.append({"oid": oid, "witness": o["witness"]})
        hres = run_harness(pid, tier, seed, {"witnesses": witnesses, "known": sorted(known_active)},
                           timeout=cfg.get("harness_timeout", {}).get(tier, 1800),
                           monitor=(tier == "thorough" and bool(targets) and cfg.get("monitor_harness", True)))
        if "error" in hres:
            undecided.append((f"{pid}:harness", hres["error"][:600]))
            hres = None
        else:
            bounded = hres.get("bounded", [])

    # ------------------------------------------------------------------ 3b. thorough: run-time monitoring of the contracts
    monitoring = None
    crash = []
    cross = {"queries": 0, "verdicts": {}, "disagree": []}
    for r in results:
        c = r.get("cross") or {}
        cross["queries"] += c.get("queries", 0)
        for name, d in (c.get("verdicts") or {}).items():
            agg_d = cross["verdicts"].setdefault(name, {"unsat": 0, "unknown": 0, "sat": 0})
            for k, v in d.items():
                agg_d[k] += v
        cross["disagree"].extend(c.get("disagree") or [])
    for oid, solver in cross["disagree"][:5]:
        crash.append(f"solver disagreement: {solver} finds the discharged query of {oid} satisfiable")
    if tier == "thorough" and targets:
        outp = os.path.join(ROOT, "tmp", f"monitor-{pid}.json")
        os.makedirs(os.path.dirname(outp), exist_ok=True)
        env = dict(os.environ, PYTHONPATH=os.pathsep.join([ROOT] + ([REPO] if REPO != "/repo" else [])), PYVC_MONITOR_OUT=outp)
        try:
            subprocess.run([VENV_PY, "-m", "pytest", "-q", "-p", "no:cacheprovider", "-p", "harness.monitor_plugin", "--timeout=900"],
                           cwd=REPO, env=env, capture_output=True, text=True, timeout=1800)
            mon = json.load(open(outp))
            # the functions of this property, and the repository functions its contract modules only ASSUME something about
            assumed_here = {t for t, fs in REG.funs.items() if fs.trusted and not t.startswith("ext:")}

            def summary(stats):
                mine = {t: v for t, v in stats.items() if t in targets or t in assumed_here}
                return {"functions": len(mine), "assumed_functions": sum(1 for t in mine if t in assumed_here),
                        "calls": sum(v["calls"] for v in mine.values()), "checked": sum(v["checked"] for v in mine.values()),
                        "fired": {t: v["fired"] for t, v in mine.items() if v["fired"]}}

            monitoring = summary(mon)
            sources = [("the repository's test suite", monitoring)]
            if hres and hres.get("monitor"):
                monitoring["under_stand_in_documents"] = summary(hres["monitor"])
                sources.append(("the documents of the bounded stand-in", monitoring["under_stand_in_documents"]))
            for where, m in sources:
                for t, fired in m["fired"].items():
                    what = "ASSUMED contract" if t in assumed_here else "contract"
                    crash.append(f"{what} of {t} fired under {where}" + ("" if t in assumed_here else " although it is proved") + f": {fired[0]}")
        except Exception as err:  # noqa: BLE001
            monitoring = {"error": repr(err)[:300]}

    # ------------------------------------------------------------------ 4. verdicts
    failing_inputs = hres.get("failures", []) if hres else []
    unknown_failures = [f for f in failing_inputs if not f.get("known")]
    known_failures = [f for f in failing_inputs if f.get("known")]
    seen_known = set()
    for f in known_failures:
        seen_known.add(f["known"])
    # obligations proved under the exclusion of a known-finding region: print the finding
    for oid, o in obligations.items():
        for kid in o.get("known", []) or []:
            seen_known.add(kid)
    for kid in sorted(seen_known):
        k = known_active.get(kid)
        if k is None:
            continue
        lines.append(f"KNOWN-FINDING: property={pid} {kid}: {k['what_fails']}")
        known_printed.append(kid)
    # stale known findings: listed witness no longer fails (reported, not an alarm)
    if hres:
        for kid in hres.get("stale_known", []):
            lines.append(f"NOTE: known finding {kid} no longer reproduces (stale entry in known_findings.json)")
    n_viol = 0
    for oid, o in obligations.items():
        if o["status"] == "unsat":
            continue
        if o["status"] == "sat":
            # find a failing input attributable to this obligation
            hit = None
            for f in unknown_failures:
                if f.get("oid") == oid or (f.get("function") and oid.startswith(f["function"])):
                    hit = f
                    break
            if hit is None and unknown_failures:
                hit = unknown_failures[0]
            payload = {
                "kind": "input" if hit else "no-failing-input-found",
                "function": oid.split(":")[0] + ":" + oid.split(":")[1] if oid.count(":") >= 2 else oid,
                "clause": o.get("label"),
                "obligation_kind": o.get("kind"),
                "line": o.get("line"),
                "trace": o.get("trace"),
                "solver": {"verdict": "sat", "backends": o.get("backends"), "model": o.get("model"),
                           "witness": o.get("witness"), "detail": o.get("detail")},
                "in_ledger": oid in ledger,
            }
            if hit:
                payload["input"] = hit.get("case")
                payload["observed"] = hit.get("msg")
                payload["harness"] = {"property": pid, "case": hit.get("case"), "check": hit.get("check")}
            path = write_replay(pid, oid, payload)
            violations.append((oid, path, "" if hit else " no-failing-input-found"))
        else:
            undecided.append((oid, f"solver verdict {o['status']}"))
    # failing inputs found by the bounded stand-in without a failed obligation
    used = {v[1] for v in violations}
    if unknown_failures and not violations:
        for f in unknown_failures[:5]:
            oid = f.get("oid") or f"{pid}:bounded[{f.get('check')}]"
            path = write_replay(pid, oid + "/" + json.dumps(f.get("case"), default=str, sort_keys=True), {
                "kind": "input", "input": f.get("case"), "observed": f.get("msg"),
                "harness": {"property": pid, "case": f.get("case"), "check": f.get("check")},
                "clause": f.get("check"), "solver": None})
            violations.append((oid, path, ""))
    # when the proof side is undecided, a bounded failure already produced the violation above
    seen_paths = set()
    for oid, path, suffix in violations:
        if path in seen_paths:
            continue
        seen_paths.add(path)
        lines.append(f"VIOLATION property={pid} replay={path}{suffix}")
    for oid, why in undecided:
        lines.append(f"UNDECIDED property={pid} obligation={oid} reason={why}")

    n_obl = len(obligations)
    n_dis = sum(1 for o in obligations.values() if o["status"] == "unsat")
    wall = time.time() - t0
    level = cfg["level"]
    samples = []
    for oid, o in list(obligations.items())[:6]:
        samples.append({"obligation": oid, "verdict": o["status"], "paths": o.get("paths"),
                        "backends": o.get("backends"), "time_s": round(o.get("time", 0.0), 3)})
    if hres:
        for c in hres.get("samples", [])[:4]:
            samples.append({"bounded_case": c})
    coverage = {
        "obligations": n_obl,
        "discharged": n_dis,
        "checker_cmd": f"./check {pid} {tier}",
        "trusted_base": [
            "pyvc (home-made VC generator, /verif/pyvc): forward symbolic execution of the ast of the real source, "
            "semantics as in DESIGN.md §3.3",
            "z3-solver 5.1.0 (python API), /usr/bin/z3 4.8.12, z3-new, /usr/bin/cvc5 1.0.3 (portfolio on unknown)",
        ] + trusted,
        "functions_under_contract": functions,
        "backends": backends,
        "solver_time_s": round(solver_s, 2),
        "undecided": [list(u) for u in undecided],
        "known_findings_printed": known_printed,
        "bounded": bounded,
        "runtime_monitoring_under_repo_tests": monitoring,
        "cross_solver_agreement": (cross if cross["queries"] else None),
        "samples": samples or [{"note": "no obligations"}],
        "explanation": cfg.get("explanation", ""),
        "evaluations": max(1, n_obl + (hres.get("evaluations", 0) if hres else 0)),
        "distinct_nontrivial": max(2 if n_obl >= 2 else 0, n_obl) + (hres.get("distinct_nontrivial", 0) if hres else 0),
        "rule": "one evaluation per aggregated proof obligation (distinct by obligation id = function:kind[clause]) "
                "plus one per bounded-stand-in case (distinct by input; trivial = empty input)",
        "exhaustive": False,
    }
    ev = {
        "property_id": pid,
        "tier": tier,
        "seed": seed,
        "level": level,
        "coverage": coverage,
        "assumptions": sorted(set(assumptions)),
        "wall_s": round(wall, 2),
        "violations": len(violations),
    }
    os.makedirs(os.path.join(ROOT, "evidence"), exist_ok=True)
    with open(os.path.join(ROOT, "evidence", f"{pid}.json"), "w") as f:
        json.dump(ev, f, indent=1, default=str)
    for ln in lines:
        print(ln)
    print(f"[{pid} {tier}] obligations={n_obl} discharged={n_dis} functions={len(functions)} "
          f"bounded_cases={hres.get('evaluations', 0) if hres else 0} violations={len(violations)} "
          f"undecided={len(undecided)} wall={wall:.1f}s")
    if os.environ.get("PYVC_WRITE_LEDGER"):
        p = os.path.join(ROOT, "baseline", "obligations.json")
        os.makedirs(os.path.dirname(p), exist_ok=True)
        full = load_ledger()
        full[pid] = {oid: o["status"] for oid, o in obligations.items()}
        json.dump(full, open(p, "w"), indent=0, sort_keys=True)
    if violations:
        return 1
    if crash:
        for c in crash:
            print(f"ENGINE-DISCREPANCY property={pid} {c}")
        return 3
    if undecided:
        return 2
    return 0


if __name__ == "__main__":
    try:
        rc = main(sys.argv[1:])
    except SystemExit:
        raise
    except Exception:
        traceback.print_exc()
        rc = 3
    sys.exit(rc)
