"""Per-property configuration of the checks (which contracts, passes and bounded stand-ins decide it)."""

ENC = [
    "encoding: Python int = mathematical Int; str/bytes = Seq(Int) of code points/bytes; objects = references "
    "into one array per field; left-to-right evaluation; no MemoryError/RecursionError/signals",
    "encoding: generator functions are consumed eagerly (result = sequence of yielded values, or the first exception)",
    "termination is proved per loop from the `decreases` clauses; recursion of the Python interpreter itself is not modelled",
]

PROPS = {
    "C07": dict(
        level="other",
        contracts=["contracts.options"],
        harness=True,
        explanation=(
            "Second sentence of C07 (on any text: pairs or TokenizeError with a position inside the text, nothing "
            "else, always terminates) is PROVED for all strings, no bound: every function of parsers/options.py is "
            "under contract (sentinel class invariant, per-loop invariants and variants, absence of IndexError/"
            "KeyError/ValueError/OverflowError, exceptional postconditions on error positions) and every obligation "
            "is discharged by z3/cvc5.  Local YAML rules proved as postconditions: line-break normalisation and "
            "advance (_scan_line_break), block-scalar header (_scan_block_scalar_indicators).  First sentence "
            "(agreement with a conforming YAML loader on the supported subset) is equivalence with a second "
            "implementation and is only BOUNDED: exhaustive short strings + generated option blocks against "
            "PyYAML's event stream; listed under coverage.bounded and never counted in obligations/discharged."
        ),
        assumptions=ENC + [
            "bounded stand-in oracle: PyYAML 6.0.3 yaml.parse event stream; supported subset = single implicit "
            "block mapping at column 0 of untagged/unanchored scalars, values not starting at column 0 on a later line",
        ],
        trusted_base=["PyYAML 6.0.3 (oracle of the bounded stand-in only)"],
    ),
    "C19": dict(
        level="other",
        contracts=["contracts.inventory"],
        harness=True,
        explanation=(
            "PROVED (all patterns, no bound): _create_regex builds exactly the regex text Rx(pattern) that the statement "
            "prescribes ('\\*' -> escaped star, '*' -> '.*', any other character -> re.escape of itself; a lone or trailing "
            "backslash is an ordinary character) by the loop invariant Rx(pat) = regex ++ Rx(pending ++ rest), compiled with "
            "DOTALL; it allocates but writes nothing (so the lru_cache in front of it is the identity); "
            "match_with_wildcard(name, None) is True and otherwise is fullmatch of that regex; filter_sphinx_inventories "
            "(nested dicts as read-only mapping objects, three nested loop invariants) yields ONLY entries that exist in the "
            "data under the object type spelled `domain:otype` with the FIRST colon as separator, whose four coordinates are "
            "each accepted by match_with_wildcard, with project / version / location copied from the entry and no base URL "
            "(soundness of the result; that NO matching entry is missing and the order are bounded only); filter_inventories "
            "(MyST's own representation, TypedDicts read by literal key) likewise yields only entries that exist under "
            "inventory / domain / type / name with all four filters accepting, project data from that inventory and "
            "location / text from that entry - the same statement for both representations.  What the regex engine "
            "matches (re.escape / '.*' / fullmatch semantics) is an ASSUMED contract of the stdlib and is cross-checked "
            "only by the BOUNDED stand-in: match_with_wildcard against the statement's matching relation for all short "
            "(pattern, name) pairs, and filter_inventories / filter_sphinx_inventories against the nested-loop "
            "specification on generated inventories (order, exactness, native vs Sphinx representation)."
        ),
        assumptions=ENC + [
            "functools.lru_cache is the identity on a function that is pure up to allocation (proved: modifies = fresh only)",
        ],
        trusted_base=["CPython `re` (semantics of the generated regex: assumed, bounded cross-check only)"],
    ),
    "C14": dict(
        level="other",
        contracts=["contracts.warnings"],
        flow=["checks.flow_c14:run"],
        harness=True,
        explanation=(
            "PROVED for all strings and all suppress lists: _is_suppressed_warning(type, subtype, S) is true iff some "
            "entry of S is `type`, `type.subtype` or `type.*` (the three documented spellings and nothing else), under "
            "the precondition that `type` contains no dot - loop invariant 'no earlier entry matches', discharged by "
            "z3/cvc5; create_warning on BOTH front ends (relative to the assumed reporter.warning / Sphinx logger): a warning whose "
            "tag, bare type or `type.*` is listed yields NO node - None is returned and nothing is attached; any other "
            "warning yields exactly one new system_message whose text is the message followed by `[type.subtype]`, attached "
            "last to `append_to` when one is given, and no other node's children change; DocutilsRenderer.create_warning, the "
            "renderers' entry point, is proved to be a pass-through to it with its own document (same contract).  PROVED by constant propagation at every call site of the warning API in myst_parser/ (one "
            "obligation per site): the (type, subtype) pair is ('myst', member of MystWarnings) or the documented "
            "('ref','footnote'); wtype is dot-free (discharges the precondition above); the result of create_warning is "
            "discarded, returned by a wrapper or used as `[x] if x else []` (a suppressed warning cannot skip building "
            "anything else); per catalogue member the number of typed sites does not fall below, and per function the "
            "number of untyped reporter/logger sites does not rise above, the committed ledger.  BOUNDED: the "
            "document-level relation 'suppressing a tag removes exactly the tagged warnings from log and doctree and "
            "changes nothing else' on the docutils front end for a fixed document set (two genuine defects there are "
            "listed in known_findings.json).  Not decided: removal from the log under Sphinx is Sphinx's own filter."
        ),
        assumptions=ENC,
        trusted_base=["docutils 0.21.2 reporter (bounded stand-in only)"],
    ),
    "C10": dict(
        level="other",
        contracts=["contracts.slug"],
        harness=True,
        explanation=(
            "PROVED for all title/slug sets: compute_unique_slug returns Unique(base, slugs) - the base slug if it is "
            "free, else base-k for the LEAST k >= 1 with base-k free, and a result never already in use (loop "
            "invariant slug = base-(i-1), all earlier candidates taken; decimal formatting modelled as an injective "
            "function) - raising only what a configured slug function raises; with no custom function the base is "
            "default_slugify(title), proved to be the composition CleanSub(Replace(Lower(title))) of the documented "
            "rule (the three library calls themselves are uninterpreted/assumed).  Termination of the uniqueness loop "
            "is argued (pigeonhole), listed as an assumption.  BOUNDED: anchors assigned during a docutils render for "
            "all short title sequences and random ones vs the rule + uniqueness oracle, vs the myst-anchors CLI, "
            "'#anchor' resolution to the own heading, anchor depth 0-7, custom and raising slug functions."
        ),
        assumptions=ENC,
        trusted_base=["markdown-it-py 3.0.0 token model (to_tokens of a heading = 3 tokens)", "mdit-py-plugins 0.6.1 anchors plugin (oracle of the bounded CLI comparison)"],
    ),
    "C05": dict(
        level="other",
        contracts=["contracts.sections", "contracts.lines", "contracts.heading"],
        harness=True,
        explanation=(
            "PROVED for every state of the open-level map and every level >= 1 (hence, by induction over the heading "
            "sequence, for every sequence of levels, skipped ones included; no bound): update_section_level_state attaches "
            "the new section as the LAST child of old_map[P] with P the greatest open level below `level` (the closest "
            "preceding still-open heading of lower level, or the document at level 0), keeps what that parent already had, "
            "leaves exactly the levels below `level` open plus `level` -> section and nothing deeper, and emits exactly one "
            "'header' warning iff P+1 != level and none otherwise; the map invariant (level 0 always open, no negative "
            "level) is preserved; max() never sees an empty sequence.  Relative to the assumed docutils node model "
            "(append) and the abstracted warning API.  BOUNDED: whole-document nesting, warning counts and order against "
            "a reference model for all level sequences up to a length.  render_heading (under contract, relative to G' and "
            "the assumed generate_heading_target): where the current node is the document, a section or the temporary root "
            "of a match_titles parse it opens a section - a NEW section node becomes the current node and the open section "
            "of its level, attached (by update_section_level_state, whose call-site preconditions - parentless, not an open "
            "section, well-formed map, level >= 1 - are discharged here) to a node that was open, with its title as first "
            "child at the heading's line; everywhere else (block quotes, list items, directive bodies) it is a rubric below "
            "the current node and the current node and the open-level map are EXACTLY what they were."
        ),
        assumptions=ENC,
        trusted_base=["docutils node model (contracts/assumed_docutils.py)"],
    ),
    "C16": dict(
        level="other",
        contracts=["contracts.parse_html"],
        harness=True,
        explanation=(
            "PROVED (pyvc, for all states and all string arguments, no bound), relative to the assumed event contract of "
            "html.parser.HTMLParser: the tree builder keeps the global consistency invariant WF - for every element, each "
            "child is an allocated element whose parent is that element - through Element.insert, Tree.nest_tag / nest_xtag / "
            "nest_vtag / nest_terminal and every handle_* method; Element.insert / __setitem__ set the parent and refuse an "
            "element that belongs elsewhere (AssertionError, the documented error); the open-element stack is never empty "
            "and rooted at the root (T_inv), so no handler can raise (handle_endtag: for non-empty tag names and the default "
            "root name); Tree.enclose cuts the stack just before the LAST open element with that name, or leaves it alone; "
            "every terminal element renders to the source form of its event (Data, Declaration, Comment, Pi, Char, Entity).  "
            "Element.__init__, MutableSequence.append (= insert at the end), collections.deque (as a list) and the terminal "
            "class constructors are assumed contracts.  NOT under contract: walk / find / strip / deepcopy / reset_children, "
            "Tag/Root.render, XTag.render with overrides and Attribute.__str__ (generators, comprehensions over a dict subclass; VoidTag.render and, for the call without overrides, XTag.render ARE under contract: `<name>` / `<name/>` with ` ` + str(attrs) exactly when bool(attrs), where bool(attrs) / str(attrs) are ghost views of the opaque Attribute), hence BOUNDED: "
            "totality and tree consistency on all short strings and markup soup, exact round trip, strip/copy purity and "
            "find() vs an independent filter on grammar-generated well-formed HTML."
        ),
        assumptions=ENC + ["CPython 3.12.1 html.parser event stream"],
        trusted_base=["html.parser.HTMLParser (events), abc.MutableSequence.append, collections.deque"],
    ),
    "C18": dict(
        level="other",
        contracts=["contracts.invreader"],
        harness=True,
        explanation=(
            "PROVED for all byte streams and ALL read schedules (no bound): the whole InventoryFileReader is under contract "
            "over the abstract view View = buffer ++ unread bytes of the stream - read_buffer keeps the view and makes "
            "progress; readline returns the decoded view up to its first newline and leaves the rest (recursion terminates: "
            "variant len(rest) + [not eof]); readlines yields only non-empty lines and terminates; read_compressed_chunks "
            "feeds every byte of the view to the decompressor exactly once, in order (the yielded chunks concatenate to "
            "Inflate(view)); read_compressed_lines yields exactly Lines(Inflate(view)), the newline-terminated lines of the "
            "decompressed data.  No contract mentions how read() split the data, so independence from stream chunking is a "
            "consequence - relative to the ASSUMED contracts of IO.read (a prefix of the unread bytes, empty iff none remain) "
            "and of zlib's streaming decompressor.  _load_v1/_load_v2 (regex per line, nested dict building) are not under "
            "contract.  BOUNDED: load() against sphinx.util.inventory.InventoryFile (8.2.3) on the same generated bytes "
            "(v1 and v2, names with spaces and non-ASCII, '$' locations, py:module duplicates, malformed lines) and "
            "independence of the result from the read schedule (all single split points for small files, random and "
            "byte-wise schedules otherwise)."
        ),
        assumptions=["zlib streaming decompression = one-shot decompression (stdlib)"],
        trusted_base=["Sphinx 8.2.3 inventory loader (oracle)"],
        technique="contract-based deductive verification (ast -> VCs -> z3/cvc5) of InventoryFileReader; bounded differential stand-in against Sphinx's loader for the per-entry rules",
    ),
    "C01": dict(
        level="other",
        contracts=["contracts.options", "contracts.parse_html", "contracts.warnings"],
        flow=["checks.flow_exc:run"],
        harness=True,
        harness_timeout={"quick": 1800, "thorough": 5400},
        # (the contracts are monitored under the repository's suite in the thorough tier, but not while THIS stand-in runs: with every
        #  tokenizer function wrapped its 20 000 documents took over half an hour and 25 GB - measured, not understood)
        monitor_harness=False,
        explanation=(
            "Totality of the whole pipeline is NOT decidable by contracts on MyST alone (markdown-it, docutils transforms, "
            "Sphinx, Jinja and pygments are external).  What is decided: (1) PROVED (pyvc, all strings): the directive-option "
            "tokenizer raises nothing but TokenizeError and terminates (all of parsers/options.py, shared with C07), and no "
            "handler of the HTML-to-AST parser can raise for any string argument (parse_html handlers, shared with C16), and the warning functions every report goes through "
            "(_is_suppressed_warning, create_warning, DocutilsRenderer.create_warning - shared with C14) raise nothing for any suppress list; "
            "(2) PROVED modularly on the AST (one obligation per function, real exception hierarchy introspected): every "
            "mechanism the property names contains what its callees may raise - read_topmatter, merge_file_level, "
            "render_front_matter, _parse_directive_options, parse_directive_arguments/text, run_directive, html_to_nodes, "
            "render_substitution, generate_heading_target, get_inventory_matches, MockIncludeDirective.run, Parser.parse, "
            "MystParser.parse - relative to stated raise-sets of library calls (yaml.safe_load: YAMLError|ValueError; file "
            "access: OSError|UnicodeError|ValueError|LookupError; option converters: ValueError|TypeError; Jinja: Exception; "
            "directive.run(): DirectiveError|MockingError); calls in neither table are assumed not to raise and counted.  "
            "(3) BOUNDED: generated documents, token soup, random valid configurations and include faults through "
            "publish_doctree (docutils front end) and the vocabulary through a Sphinx build - no exception may escape; one-factor grids "
            "(every configuration field and front-matter key x YAML values of every type, every attribute key x value on every construct "
            "that takes attributes, every registered docutils directive x argument x body shape, pairs of odd footnote / target labels, HTML "
            "elements x attribute forms) through both front ends (sampled in the quick tier)."
        ),
        assumptions=ENC,
        trusted_base=["assumed raise-sets of PyYAML, docutils, Jinja2, pathlib (DESIGN §6)"],
    ),
    "C15": dict(
        level="other",
        contracts=[],
        flow=["checks.flow_frame:run"],
        harness=True,
        explanation=(
            "PROVED on the AST of the whole package (one obligation per site, against the committed ledger of sites and "
            "their lemmas): (no-alias) no owned container field that is mutated in place (_level_to_section, "
            "_heading_slugs, _inventories, enable_extensions, sub_references, md_env, option_spec) is aliased outside the "
            "listed read-only / by-design sites; (shared-write) every write through a shared holder (configuration, "
            "docutils settings, class-level option specs and translator hooks, docutils' role table) is one of the "
            "listed idempotent or restored-in-finally sites, and the restoring statement is still inside its `finally`; "
            "(param-frame) merge_file_level copies the global config and never stores into it nor hands it to a mutating "
            "callee; (ambient-read) no uuid/random/time/environ read except the recorded uuid4 label (known finding).  "
            "Equality of -j1 and -jN Sphinx builds over all worker schedules is NOT decidable by contracts (process "
            "scheduling, Sphinx's environment merge); the frame argument is the contribution and one project is compared "
            "as a BOUNDED stand-in, together with random parse histories on the docutils front end vs fresh-process "
            "output and reuse of the configuration object."
        ),
        assumptions=ENC[:1],
        trusted_base=["syntactic classification of stores by attribute-chain names (DESIGN §7.3)"],
    ),
    "C20": dict(
        level="other",
        contracts=["contracts.include"],
        flow=["checks.flow_frame:run"],
        harness=True,
        explanation=(
            "PROVED (pyvc, prefix contract of MockIncludeDirective.run): execution passes the guard only when "
            "settings.file_insertion_enabled holds, otherwise the directive raises its documented DirectiveError before the "
            "first use of the file system.  PROVED on the AST: (file-read) every call of a file/URL reading API in the package is dominated, in its "
            "function, by the unconditional `if not ...file_insertion_enabled: raise` refusal at function entry, or is a "
            "listed configuration-driven read (fetch_inventory, the inventory CLI); (raw-removal) in Parser.parse, under "
            "`not raw_enabled`, every node of document.traverse(nodes.raw) is replaced by the direct result of "
            "document.reporter.warning(...) - a system_message, never None.  That the traversal reaches every raw node and "
            "the refusals of docutils' own directives (raw, csv-table, include inside eval-rst) are docutils behaviour "
            "(assumed).  BOUNDED: every construct able to carry raw markup or a file path, with sentinels, under "
            "raw_enabled x file_insertion_enabled through the docutils publisher (doctree and written HTML)."
        ),
        assumptions=ENC[:1],
        trusted_base=["docutils traverse/findall returns all descendants of the class; docutils directives honour the shared settings"],
    ),
    "C08": dict(
        level="other",
        contracts=["contracts.directives", "contracts.rundirective"],
        harness=True,
        explanation=(
            "PROVED (all argument texts and declarations): parse_directive_arguments returns between `required` and "
            "`required+optional` arguments or raises MarkupError; with no surplus the words themselves, with surplus only "
            "when final_argument_whitespace is declared, folded into the last argument (str.split(None, k) modelled by its "
            "item count); parse_directive_text (str.splitlines uninterpreted, _parse_directive_options by an assumed contract that says "
            "nothing about its content): a body starting on the first line is that line at offset 0 followed by the other "
            "lines; otherwise, without an option spec, the body IS the content's lines from body_offset on (0 or 1: at most one "
            "leading blank line is dropped, and it is counted); with an option spec len(body) + body_offset equals the "
            "number of content lines (WHICH lines survive is _parse_directive_options' business - its known findings "
            "C08-trailing-blank-offset / C08-closing-delimiter-text live there); a directive without arguments gets none; run_directive (prefix up to the directive's run) passes the parsed arguments, "
            "body and body_offset on to the directive unchanged (statement contracts), with the fence line as the position option problems are reported at.  BOUNDED for the rest (what "
            "_parse_directive_options does with the option block): parse_directive_text against a line-level reference model taken from the statement "
            "(body = the content lines after the option block minus one optional leading blank line; offset = index of the "
            "first body line) for every content of up to 3/4 lines over an option/blank/text/delimiter vocabulary x 5 "
            "directive classes x first line; interchangeability of the two option styles, conversion by the directive's "
            "option spec, one warning for all unknown keys and one per invalid value, block-over-default priority, and "
            "argument-count enforcement on generated cases."
        ),
        assumptions=[],
        trusted_base=["docutils 0.21.2 directive classes and option converters (the 'programs')"],
        technique="contract-based deductive verification of parse_directive_arguments and parse_directive_text; bounded run-time stand-in (exhaustive small contents x directive classes) for the partition/option clauses",
    ),
    "C13": dict(
        level="other",
        contracts=[],
        flow=["checks.flow_frame:run"],
        harness=True,
        explanation=(
            "PROVED on the AST (param-frame obligation): merge_file_level copies the global configuration, never stores "
            "into it and never hands it to validate_field/setattr - 'the global configuration is never modified by parsing a "
            "document'.  The accept/normalise relation of the validators operates on dynamically typed values (Any) and is "
            "not yet under contract; it is BOUNDED: every option of a representative set x values of every YAML/JSON shape "
            "against the documented type and canonical form, front matter vs global (dict-valued options merging, invalid "
            "value ignored with exactly one warning, result still a valid configuration), and docutils setting strings vs "
            "python values."
        ),
        assumptions=[],
        trusted_base=["PyYAML (docutils string settings), docutils OptionParser"],
    ),
    "C17": dict(
        level="other",
        contracts=["contracts.html"],
        harness=True,
        explanation=(
            "PROVED (pyvc, every text, line and configuration): default_html returns exactly one raw node, format html, "
            "whose text is its argument, at the given source and line; every return of html_to_nodes before the convertibility "
            "test (no HTML extension enabled; the HTML AST could not be built - any exception; the AST is empty) is "
            "pass-through: the last node is that raw node with exactly the source text (after the GFM filter iff gfm_only), "
            "at most one node - the parse warning - precedes it, and with no extension enabled there is exactly one node; "
            "conversion is only attempted with an extension enabled; the GFM filter is applied before anything else reads the "
            "text.  ASSUMED: RE_FLOW.subn with the module's callback is an uninterpreted function GfmFilter (which tags the "
            "regular expression matches is NOT modelled), docutils' raw constructor, tokenize_html / Element.strip return an "
            "element or raise.  NOT under contract: the convertibility test itself and the img / admonition conversions "
            "(generator expressions over a MutableSequence subclass, directive text building).  BOUNDED: every html_block / "
            "html_inline token that is not a convertible form reaches the doctree as a "
            "raw html node with exactly the token text under all four HTML-extension subsets; <img> and "
            "<div class=admonition> (title paragraph, <p> flattening, entities, inner Markdown) give the same doctree as "
            "the equivalent image / admonition directive; in GFM mode no raw node still opens or closes a tag of the "
            "disallowed list, for every tag in 11 spellings (including '<tag/attr>' and upper case)."
        ),
        assumptions=["markdown-it-py html_block / html_inline tokenisation",
                     "statements of html_to_nodes from `if not all(` on are outside the prefix contract"],
        trusted_base=["re (RE_FLOW as an uninterpreted function)", "docutils.nodes.raw", "parse_html.tokenize_html / Element.strip (C16)"],
        technique="contract-based deductive verification (prefix contract) of the pass-through part of html_to_nodes and of default_html; "
                  "bounded run-time stand-in (generated HTML snippets, directive-spelling equivalence) for the conversions and the tag filter's regular expression",
    ),
    "C04": dict(
        level="other",
        contracts=["contracts.lines", "contracts.directives", "contracts.render2", "contracts.rundirective"],
        flow=["checks.flow_lines:run"],
        harness=True,
        explanation=(
            "PROVED (pyvc, all token lists / offsets, relative to the assumed contract of markdown-it's parse: fresh, pairwise "
            "distinct tokens whose map starts at the 0-based line of the text it was given): token_line returns map[0] (or "
            "the default / ValueError without a map); add_line_and_source_path sets node.line to exactly that and never "
            "raises; the first loop of _render_tokens turns every mapped token's [start, end) into [start+1, end+1) once "
            "(1-based docutils lines), leaves unmapped tokens alone and gives inline children their parent's map; "
            "nested_render_text hands to _render_tokens exactly the tokens parsed from `text` (+ final newline; minus a "
            "leading front-matter token) with every mapped token starting `lineno` lines below where the parser saw it - "
            "so node.line = parser line + lineno + 1 for text found at 0-based offset lineno - and restores the heading "
            "offset; the renderers of code blocks (indented and fenced, strict modes), images, block breaks, amsmath and labelled math "
            "attach a node whose line is the token's 1-based first line (a token without a map gives no line); parse_directive_text's body_offset counts exactly the content lines in front of the body (see C08).  FLOW: no other store to a `.map` attribute exists in the package (frame of the above).  The directive "
            "path is pinned by statement contracts: render_directive hands run_directive the token's text and its 1-based fence line; run_directive "
            "(prefix up to the point where the directive runs) splits the text with that line as position, and builds the directive with "
            "lineno = that line, content = exactly the parsed body, content_offset = the parsed body_offset, and a MockState / "
            "MockStateMachine positioned at that line (MockState.__init__ stores them: proved); render_colon_fence sends `:::{name}` down the same path and renders a plain "
            "`:::` container's content as nested text starting on the line after the fence.  NOT under "
            "contract: what _parse_directive_options reports as content, the include directive's start line, substitutions, hence BOUNDED: generated documents whose generator knows the first line of "
            "every construct (paragraph, heading, list item, code block, raw HTML, table) nested up to depth 3 in block "
            "quotes, lists, backtick and colon directives with no / ':'-style / '---'-style option blocks and optional blank "
            "line before the body; warning lines of roles planted at known lines; included files (line relative to the "
            "file, source path = the file, host lines unaffected); substitution."
        ),
        assumptions=["markdown-it-py token.map is the 0-based line range of the token in the text it was given",
                     "the part of _render_tokens after its first loop (tree building, dispatch) is outside the prefix contract; "
                     "callers see it through an assumed frame `*` (may change anything)"],
        trusted_base=["markdown-it-py parse / parseInline (contracts/lines.py: ParseResult)", "docutils node model (line, source)"],
        technique="pyvc deductive proof of the line arithmetic (token_line, add_line_and_source_path, _render_tokens prefix, "
                  "nested_render_text) + AST frame pass for Token.map + bounded run-time stand-in for the caller offsets",
    ),
    "C03": dict(
        level="other",
        contracts=["contracts.sections", "contracts.render", "contracts.heading"],
        harness=True,
        explanation=(
            "PROVED (pyvc, relative to the docutils node model): update_section_level_state requires the new section to be "
            "parentless and not one of the open sections (single parent / occurs once at that call site) and attaches it to "
            "a value of the open-level map - by the map invariant a document or a section - so sections occur only directly "
            "under the document or another section, for every heading sequence - and render_heading, its only caller, is "
            "proved to call it with a fresh parentless section only when the current node is the document, a section or "
            "a temporary root, and to put the title first; the render methods under the generic "
            "render contract (see C02) attach every node they create exactly once, with its parent set, below the current "
            "node (single parent, no node shared).  The other clauses of C03 (title first, "
            "transitions, unique ids, refid existence, table shape, footnote labels) are not yet under contract and are "
            "BOUNDED: an independent well-formedness checker over the doctree after the standard transforms for a footnote/"
            "target/reference/table/transition vocabulary x configurations, a 101-column table and generated nested documents."
        ),
        assumptions=ENC,
        trusted_base=["docutils node model (contracts/assumed_docutils.py)", "docutils transforms (ids, footnote numbering)"],
    ),
    "C02": dict(
        level="other",
        contracts=["contracts.render", "contracts.render2"],
        harness=True,
        explanation=(
            "PROVED (pyvc, relative to the docutils node model and to the assumed induction hypothesis G' for the dynamic "
            "dispatch in render_children): the generic render contract G for render_paragraph, render_bullet_list, "
            "render_list_item, render_em, render_strong, render_span, render_blockquote (without attribution), render_s (containers) and render_inline, render_text, render_softbreak, "
            "render_hardbreak, render_hr, render_code_inline, render_myst_line_comment, render_math_inline / _single / "
            "_inline_double / _block, render_myst_block_break, render_amsmath, render_math_block_label, render_image, render_code_block (leaves), "
            "render_ordered_list (container) and render_fence (in the strict CommonMark / GFM modes every fence is one literal block with "
            "the content verbatim up to its final newline, at the line of the opening fence; in MyST mode the directive paths are seen through G'): the current node is the same node afterwards; what it already had is kept "
            "in order; a container attaches exactly ONE new node of its kind there (parent set, line = the token's line) "
            "and renders the token's children while THAT node is the current node; a leaf attaches exactly its leaf nodes, "
            "text, inline-code and math tokens with their content verbatim.  Not under G (assumed through G'): links other than anchors, "
            "tables, directives, roles, definition and field lists, raw HTML, substitutions, the Sphinx overrides (headings, targets and footnotes have contracts of their own: C03/C05, C09, C11).  "
            "BOUNDED: the doctree of "
            "generated documents against the markdown-it token tree of the same text and mode - leaf sequence (text, inline "
            "code, code blocks, raw HTML, images, thematic breaks, hard breaks) identical in order and content, every leaf "
            "under the same container path (paragraph, lists and items, block quote, emphasis/strong, link, table/row/cell, "
            "heading), container counts one-to-one, link destinations, ordered-list start and delimiter, cell alignment and "
            "code language carried over - in MyST and strict CommonMark mode; and the same view of the Sphinx back end's "
            "doctree for a project of those documents (GFM mode needs linkify-it-py, which is not installed)."
        ),
        assumptions=["markdown-it-py's token tree is the parse of the Markdown (oracle)",
                     "G' (render_children appends below the current node only and restores it) is the induction hypothesis of G: "
                     "proved for the twenty-six methods above given G' for their sub-trees, assumed for every other render method"],
        trusted_base=["docutils node model and constructors (contracts/assumed_docutils.py, contracts/render.py)",
                      "DocutilsRenderer.copy_attributes (assumed: touches attributes and may append warning nodes to the new node)"],
        technique="contract-based deductive verification of the generic render contract on twenty-six render_* methods; "
                  "bounded run-time stand-in (token-tree vs doctree comparison on generated documents) for the whole pipeline",
    ),
    "C06": dict(
        level="other",
        contracts=["contracts.lines", "contracts.rundirective"],
        harness=True,
        explanation=(
            "PROVED (pyvc, relative to the docutils node model and the assumed induction hypothesis G' for the dynamic "
            "dispatch inside _render_tokens): MockState.nested_parse - what a docutils directive calls for its body - "
            "renders the block's lines joined by newlines through the SAME renderer (nested_render_text) with `node` as the "
            "current node, at source offset state line + input_offset, with a temporary root only when titles were asked "
            "for; afterwards the current node and match_titles are what they were, `node` keeps what it had, and every "
            "other node that existed keeps its children, parent and kind (everything the body produced is below `node`); "
            "nested_render_text itself carries G' through (parses the text, drops a leading front-matter token, shifts the "
            "lines, renders, restores heading offset / open-section map / temporary root).  The way into a directive is under contract too (contracts/rundirective.py): "
            "render_directive / render_colon_fence / run_directive hand the directive its text, the line of its fence and a MockState at that line, and attach "
            "the nodes it returns below the current node (G' carried through, relative to the assumed view that a directive's run() obeys G' and returns new nodes).  NOT under contract: "
            "MockIncludeDirective.run, render_substitution; the ownership "
            "half (shared md_env, restored renderer state) is in C15's frame pass.  BOUNDED: nodes produced inside a note "
            "directive body at depth 1-4, backtick and colon fences, equal the "
            "nodes of the same generated Markdown at top level; include and block substitution equal the text in place; "
            "reference definitions, footnotes and targets defined inside an include / directive body stay usable from later "
            "top-level text and later directive bodies."
        ),
        assumptions=["docutils directives call state.nested_parse(content, content_offset, node) for their body",
                     "G' for the part of _render_tokens after its first loop (see C02)"],
        trusted_base=["markdown-it-py parse (ParseResult)", "docutils node model"],
        technique="contract-based deductive verification of MockState.nested_parse and nested_render_text (generic render contract carried through "
                  "nested rendering); bounded run-time stand-in (nested vs top-level rendering of generated Markdown) for the rest",
    ),
    "C09": dict(
        level="other",
        contracts=["contracts.links", "contracts.anchors"],
        harness=True,
        explanation=(
            "PROVED (pyvc, every token and configuration, relative to the docutils node model and G'): render_link sends a "
            "destination that starts with '#' - in MyST mode, without an `external` class - to render_link_anchor and "
            "nothing else there (the other renderers are reached only otherwise; `project:#x` is forwarded by "
            "render_link_project itself); render_link_anchor attaches exactly ONE reference node, marked id_link, at the "
            "link's own line below the current node (no link is dropped or duplicated at this stage), renders the link text "
            "inside it unless the link is an autolink, records the destination with the percent-encoding undone, and puts the "
            "current node back; render_myst_target (a `(name)=` block target) attaches its target node (last; a duplicate name makes docutils put a message in front of it) at its own "
            "line, and the normalised text is a registered name afterwards (the node keeps it in `names`, or in `dupnames` after a clash).  ResolveAnchorIds.apply: the resolution LOOP is under a suffix contract "
            "(contracts/anchors.py; the two tables the first half of the function builds - explicit names and heading slugs - are ghost parameters, so the rule "
            "is proved for any tables): the loop invariant says, for EVERY reference processed so far (and first, more cheaply, for the one just processed): explicit target (verbatim name, else docutils' normalised "
            "spelling) before heading slug before - docutils front end - exactly ONE 'target not found' warning about that reference at its own line with "
            "the normalised link text as refid; the '#' marker is consumed, given link text is kept in front, a reference that is not a '#'-link is not touched, "
            "and references not reached yet are left alone (the references are the pairwise distinct nodes findall yields: assumed).  NOT under contract: "
            "the first half of ResolveAnchorIds.apply (building the tables from docutils' name / id registries, isinstance over node class unions), the Sphinx "
            "branch (pending_xref), and the target-registering renderers.  "
            "BOUNDED: documents "
            "over 8 kinds of target providers ('(name)=' before a heading / paragraph / captioned figure, attribute ids - also "
            "written with upper case -, a directive :name:, a heading slug) with empty-text and explicit-text links, "
            "explicit-over-slug priority in both orders, and missing targets: one reference node per link, refid of the node "
            "that carries the target, implicit text = target title or '#name', exactly one 'target not found' warning per "
            "unresolvable link at the link's own line."
        ),
        assumptions=["docutils name/id registries (note_explicit_target, ids)",
                     "the other link renderers are seen through G' only (assumed)"],
        trusted_base=["docutils node model", "markdown-it-py token attributes (attrGet)", "re (REGEX_SCHEME as an opaque matcher)"],
        technique="contract-based deductive verification of the link dispatch (render_link), render_link_anchor and render_myst_target; bounded run-time "
                  "stand-in (generated target/link documents) for the resolution transform",
    ),
    "C11": dict(
        level="other",
        contracts=["contracts.footnotes", "contracts.fntransforms"],
        harness=True,
        explanation=(
            "PROVED (pyvc, relative to the docutils node / registry model and G'): render_footnote_ref attaches exactly one "
            "footnote_reference node at the reference's line, records it in the reference registry, and - for a non-numeric "
            "label - in the auto-numbered registry, at the end (so auto-numbered references are registered in order of "
            "reference), a numeric label shows its own number, no definition registry and no warning is touched; "
            "render_footnote_reference (a DEFINITION) with a label that is already registered emits exactly one "
            "'footnote' warning, attaches nothing and leaves every registry as it was (other footnotes undisturbed); "
            "otherwise it attaches exactly ONE footnote node, renders the text inside it "
            "and registers the node once - directly after what was registered before - in the manual registry for a "
            "numeric label, in the auto-numbered one otherwise; earlier registry entries keep their place.  UnreferencedFootnotesDetector.apply "
            "(three loop invariants over recursive specification functions of the registries) raises its 'not referenced' warning for exactly, "
            "and in this order, every manually numbered definition that still has its name and has no back-reference, every symbol footnote "
            "without back-reference and every such auto-numbered definition - one each, none for any other footnote - and leaves the registries alone "
            "(relative to the view that create_warning records one warning about the node it is given; its own contract is C14's).  NOT under "
            "contract: SortFootnotes / CollectFootnotes (list.sort with a closure key, "
            "node moves - outside the engine's subset) and docutils' "
            "own Footnotes transform (numbering).  BOUNDED: "
            "all reference sequences up to length 3/4 over three labels and random reference/definition sequences "
            "(numeric and named labels, duplicates, unreferenced, with and without sorting / transition / heading / trailing "
            "content) against a reference model: numbering, reference -> definition refid and shown number, back-references, "
            "pairwise distinct labels, collection at the end in ascending order, exactly one transition when configured, "
            "definitions stay in place when sorting is off, one warning per duplicate / unreferenced definition, no text lost."
        ),
        assumptions=["docutils footnote registries and note_* methods (contracts/footnotes.py)", "G' for the text of a footnote (see C02)"],
        trusted_base=["docutils node model", "docutils.transforms.references.Footnotes (numbering)"],
        technique="contract-based deductive verification of the two footnote renderers against a registry model; bounded run-time stand-in "
                  "(reference/definition sequences vs a numbering model) for the transforms",
    ),
    "C12": dict(
        level="exploration",
        contracts=[],
        harness=True,
        explanation=(
            "The decisive clause - the resolved URI is correct relative to the referencing page at any directory depth - is "
            "computed by Sphinx (relfn2path, path2doc, get_relative_uri, make_refnode); no contract on MyST code can decide "
            "it (DESIGN §11).  What is offered is BOUNDED: generated Sphinx projects with documents at depth 0-3 (including a "
            "page that has a same-named sibling directory) and links in every spelling (relative, project-absolute, with "
            "heading anchors, extension-less, to non-document files, unresolvable): href in the written HTML vs the expected "
            "relative URI, link text (explicit or the target's title), download links, exactly one myst.xref_missing warning "
            "naming an unresolvable destination with the text still rendered."
        ),
        assumptions=["Sphinx 8.2.3 URI computation and HTML writer"],
        trusted_base=[],
        technique="bounded run-time stand-in (generated Sphinx projects) - contract-based verification cannot decide the URI clause",
    ),
}
