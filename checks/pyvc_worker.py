"""Run the pyvc engine on one function of /repo (in a worker process) and return plain data."""
from __future__ import annotations

import collections
import importlib
import os
import time
import traceback

import z3


def _conc(model, sv, engine=None, st_heap=None, depth=0):
    """Concretise a symbolic value under a model (best effort) -> python value or None."""
    from pyvc import sym
    from pyvc.sym import TBool, TBytes, TInt, TList, TNone, TOpt, TRef, TStr, TTuple

    t = sv.t
    try:
        if isinstance(t, TNone):
            return None
        if isinstance(t, TInt):
            v = model.eval(sv.z, model_completion=True)
            return v.as_long() if z3.is_int_value(v) else None
        if isinstance(t, TBool):
            return z3.is_true(model.eval(sv.z, model_completion=True))
        if isinstance(t, (TStr, TBytes)):
            n = model.eval(z3.Length(sv.z), model_completion=True)
            if not z3.is_int_value(n) or n.as_long() > 4096:
                return None
            cps = []
            for i in range(n.as_long()):
                c = model.eval(sv.z[i], model_completion=True)
                if not z3.is_int_value(c):
                    return None
                cps.append(c.as_long())
            if isinstance(t, TBytes):
                return bytes(c % 256 for c in cps)
            return "".join(chr(c) if 0 <= c <= 0x10FFFF else "?" for c in cps)
        if isinstance(t, TOpt):
            if z3.is_true(model.eval(sym.opt_is_none(sv), model_completion=True)):
                return None
            return _conc(model, sym.opt_val(sv), engine, st_heap, depth)
        if isinstance(t, TTuple):
            return [_conc(model, sym.tup_get(sv, i), engine, st_heap, depth) for i in range(len(t.elems))]
        if isinstance(t, TList) and t.elem is not None and depth < 3:
            n = model.eval(z3.Length(sv.z), model_completion=True)
            if not z3.is_int_value(n) or n.as_long() > 64:
                return None
            out = []
            for i in range(n.as_long()):
                out.append(_conc(model, sym.SV(t.elem, sv.z[i]), engine, st_heap, depth + 1))
            return out
        if isinstance(t, TRef) and engine is not None and st_heap is not None and depth < 2:
            out = {"__class__": t.cls}
            mod, ci = engine.class_info(t.cls)
            names = set()
            if mod is not None:
                for c in mod.mro(t.cls):
                    for f in mod.classes[c].fields:
                        names.add(f[0])
            for key, decl in engine.reg.fields.items():
                if key.split(":")[1] == t.cls or (mod and key.split(":")[1] in mod.mro(t.cls)):
                    names.update(decl)
            for fname in sorted(names):
                fd = engine.field_decl(t.cls, fname)
                if fd is None:
                    continue
                try:
                    fv = st_heap.load(sv.z, fd[0], fd[1])
                    out[fname] = _conc(model, fv, engine, st_heap, depth + 1)
                except Exception:
                    out[fname] = None
            return out
    except Exception:
        return None
    return None


def verify_target(cm: str, target: str, timeout_ms: int = 10000, repo: str | None = None, want_canary=True):
    """-> dict(target, sha, obligations: {oid: {...}}, undecided: [...], paths, covers, error)"""
    from pyvc import loader, smt, sym
    from pyvc.spec import REG
    from pyvc.state import EngineError
    from pyvc.verify import Engine

    t0 = time.time()
    res = {
        "target": target,
        "obligations": {},
        "undecided": [],
        "paths": 0,
        "error": None,
        "sha": None,
        "solver_s": 0.0,
        "canary": None,
        "loops": 0,
        "assumed_used": [],
        "calls": [],
    }
    try:
        for m in cm.split(","):
            importlib.import_module(m)
        fs = REG.funs[target]
        mod = loader.load(fs.module, repo)
        res["sha"] = mod.source_sha(fs.qualname)
        sym.reset_fresh()
        e = Engine(repo=repo)
        try:
            obs = e.verify(target)
        except EngineError as err:
            res["error"] = f"outside-subset: {err}"
            res["wall_s"] = time.time() - t0
            return res
        agg = collections.OrderedDict()
        cross = {"queries": 0, "verdicts": {}, "disagree": []}
        for ob in obs:
            if ob.status is None:
                ob.status, ob.backend, ob.time, ob.model = smt.check(ob.pc, ob.goal, timeout_ms, want_model=True)
                if os.environ.get("PYVC_CROSS") == "1" and ob.status == "unsat":
                    # cross-solver agreement (thorough tier): no other solver may find the discharged query satisfiable
                    try:
                        verdicts = smt.run_cli_all(smt.to_smt2(list(ob.pc) + [z3.Not(ob.goal)]), 5)
                    except Exception:  # noqa: BLE001
                        verdicts = {}
                    cross["queries"] += 1
                    for name, v in verdicts.items():
                        d = cross["verdicts"].setdefault(name, {"unsat": 0, "unknown": 0, "sat": 0})
                        d[v] += 1
                        if v == "sat":
                            cross["disagree"].append([ob.oid, name])
            res["solver_s"] += ob.time or 0.0
            a = agg.setdefault(
                ob.oid,
                {"status": "unsat", "paths": 0, "backends": {}, "time": 0.0, "kind": ob.kind, "label": ob.label,
                 "line": ob.line, "witness": None, "trace": None},
            )
            a["paths"] += 1
            a["time"] += ob.time or 0.0
            if ob.backend:
                a["backends"][ob.backend] = a["backends"].get(ob.backend, 0) + 1
            if ob.status == "sat":
                if a["status"] != "sat":
                    a["status"] = "sat"
                    a["trace"] = ob.trace[-10:]
                    a["line"] = ob.line
                    if ob.model is not None:
                        w = {}
                        for name, sv in e.param_syms.items():
                            w[name] = _conc(ob.model, sv, e, e.entry_state)
                        a["witness"] = w
                        a["model"] = str(ob.model)[:3000]
            elif ob.status != "unsat" and a["status"] == "unsat":
                a["status"] = "unknown"
                a["trace"] = ob.trace[-10:]
                a["line"] = ob.line
        res["obligations"] = agg
        res["cross"] = cross
        res["undecided"] = [list(u) for u in e.undecided]
        res["paths"] = e.paths
        res["dropped"] = e.dropped
        res["covers"] = sorted(e.covers)
        res["assumed_used"] = sorted(e.assumed_used)
        res["calls"] = sorted(e.calls_seen)
        # canary: `ensures False` must be refuted on at least one normally returning path
        if want_canary:
            if not e.canaries and "return" not in e.covers:
                res["canary"] = "no-normal-return"
            else:
                res["canary"] = "vacuous"
                for pc in e.canaries[:8]:
                    s = z3.Solver()
                    s.set("timeout", 3000)
                    s.add(*pc)
                    if s.check() != z3.unsat:
                        res["canary"] = "refuted"
                        break
    except Exception:
        res["error"] = "crash: " + traceback.format_exc()[-1500:]
    res["wall_s"] = time.time() - t0
    return res


def _entry(args):
    return verify_target(*args)
