"""./check replay <file>: re-run a recorded violation against the real code of /repo."""
import json
import os
import subprocess
import sys

ROOT = os.path.dirname(os.path.dirname(os.path.abspath(__file__)))


def main(path):
    d = json.load(open(path))
    print(f"property   : {d.get('property')}")
    print(f"obligation : {d.get('obligation')}")
    print(f"clause     : {d.get('clause')}")
    if d.get("kind") != "input":
        print("kind       : no-failing-input-found (the solver refuted the obligation; no concrete input reproduces it)")
        sol = d.get("solver") or {}
        print(f"solver     : verdict={sol.get('verdict')} backends={sol.get('backends')}")
        print(f"witness    : {json.dumps(sol.get('witness'), default=str)[:1500]}")
        print(f"detail     : {str(sol.get('detail'))[:1500]}")
        return 1
    h = d.get("harness") or {}
    env = dict(os.environ)
    env["PYTHONPATH"] = ROOT + os.pathsep + env.get("PYTHONPATH", "")
    p = subprocess.run(["/venv/bin/python", os.path.join(ROOT, "harness", "replay_case.py")],
                       input=json.dumps(h), capture_output=True, text=True, env=env, cwd=ROOT)
    sys.stdout.write(p.stdout)
    sys.stderr.write(p.stderr[-2000:])
    return p.returncode
