"""C09: ResolveAnchorIds.apply - the resolution loop (a SUFFIX contract: from `for refnode in findall(...)` to the end).

The first half of the function builds two tables - `explicit` (docutils' explicit target names -> (id, implicit title)) and `slugs`
(heading slugs -> (line, id, title)); it reads docutils' registries and is not under contract.  The loop that USES the tables is:
the tables are ghost parameters of this contract (any two tables), and the statement proved is the resolution rule of C09 for every
'#name' reference of the document, in terms of those tables:

  * an explicit target named like the link (verbatim, else in docutils' normalised spelling) wins: refid = its id;
  * else a heading whose slug is the link text: refid = that heading's id;
  * else (docutils front end) exactly ONE 'target not found' warning, about this reference, at the reference's own line, and
    refid = the normalised link text;
  * a reference that is not a '#'-link is not touched at all; no reference is dropped or visited twice (the references are the
    distinct nodes `findall` yields); link text that was given is kept, an empty one is filled from the target's title.
"""
from pyvc.spec import assumed, contract, fields, spec, implies, forall, exists  # noqa: F401
import contracts.assumed_docutils  # noqa: F401


@spec
def LinkText(e):
    """the text after '#' of a '#'-link (its refuri without the first character)"""
    return (e.refuri if e.refuri is not None else "")[1:]


@spec
def DistinctEl(L):
    """pairwise distinct nodes"""
    return forall(0, len(L), lambda i: forall(0, len(L), lambda j: implies(i != j, L[i] != L[j])))


T = "myst_parser.mdit_to_docutils.transforms"
W = "myst_parser.warnings_"

fields("docutils.nodes:Element", id_link="bool", refuri="str | None", refid="str | None",
       g_nwarn="int", g_wline="int | None", g_order="int")        # ghost: how many warnings were raised about this node, and the line of the last one
fields("docutils.nodes:Document", settings="Settings")
fields("docutils.frontend:Settings", g_has_env="bool")
fields(f"{T}:ResolveAnchorIds", document="Document")
fields("myst_parser._compat:FindAll", _opaque="int")

contract(
    "myst_parser._compat:findall",
    types={"node": "Document"},
    requires=[], ensures=["allocated(result)"], returns="FindAll", raises={}, modifies=[], pure=True, trusted=True,
)
contract(
    "ext:FindAll.__call__",
    types={"__params__": ["self", "condition"], "self": "FindAll", "condition": "object"},
    requires=[],
    # (pairwise distinct nodes, stated through a ghost label: the i-th node yielded carries the label i)
    ensures=["forall(0, len(result), lambda i: allocated(result[i]) and result[i].kind == 'reference' and result[i].g_order == i)"],
    returns="list[Element]", modifies=[], pure=True, trusted=True,
)
assumed("docutils findall", "findall(document)(nodes.reference) yields every reference node of the tree once (pairwise distinct nodes); nodes the "
        "loop adds meanwhile are not references", "docutils.nodes")
contract(
    "ext:Element.get",
    types={"__params__": ["self", "key"], "self": "Element", "key": "str"},
    requires=["key == 'id_link'"], ensures=["result == self.id_link"], returns="bool", modifies=[], pure=True, trusted=True,
)
contract(
    "ext:Element.get[id_link]",
    types={"__params__": ["self", "key"], "self": "Element", "key": "str"},
    requires=[], ensures=["result == self.id_link"], returns="bool", modifies=[], pure=True, trusted=True,
)
contract(
    "ext:Element.__getitem__[refuri]",
    types={"__params__": ["self", "key"], "self": "Element", "key": "str"},
    requires=["self.refuri is not None"], ensures=["result == self.refuri"], returns="str", modifies=[], pure=True, trusted=True,
)
contract(
    "ext:Element.__delitem__[refuri]",
    types={"__params__": ["self", "key"], "self": "Element", "key": "str"},
    requires=["self.refuri is not None"], ensures=["self.refuri is None"], returns="None", modifies=["self.refuri"], trusted=True,
)
contract(
    "ext:Element.__setitem__[refid]",
    types={"__params__": ["self", "key", "value"], "self": "Element", "key": "str", "value": "str"},
    requires=[], ensures=["self.refid == value"], returns="None", modifies=["self.refid"], trusted=True,
)
assumed("reference attributes", "node['refuri'] / node['refid'] / node.get('id_link') are attributes of the node (del removes one)", "docutils.nodes")
contract(
    "ext:docutils.nodes.inline",
    types={"__params__": ["rawsource", "text", "classes"], "rawsource": "str", "text": "str", "classes": "list[str]"},
    requires=[], ensures=["fresh(result)", "result.kind == 'inline'", "result.text == text", "result.parent is None", "len(result.children) == 0"],
    returns="Element", modifies=["fresh1"], trusted=True,
)
contract(
    "ext:Element.__iadd__",
    types={"__params__": ["self", "item"], "self": "Element", "item": "Element"},
    requires=["item != self"],
    ensures=["self.children == old(self.children) + [item]", "item.parent == self"],
    returns="Element", modifies=["self.children", "item.parent"], trusted=True,
)


@spec(abstract=True, sig=(["str"], "str"))
def NormalizeLink(s):
    from markdown_it.common.normalize_url import normalizeLink
    return normalizeLink(s)


@spec(abstract=True, sig=(["str"], "str"))
def FullyNormalizeName(s):
    from docutils import nodes
    return nodes.fully_normalize_name(s)


contract("ext:markdown_it.common.normalize_url.normalizeLink", types={"__params__": ["url"], "url": "str"},
         requires=[], ensures=["result == NormalizeLink(url)"], returns="str", modifies=[], pure=True, trusted=True)
contract("ext:docutils.nodes.fully_normalize_name", types={"__params__": ["name"], "name": "str"},
         requires=[], ensures=["result == FullyNormalizeName(name)"], returns="str", modifies=[], pure=True, trusted=True)
# the warning function, as this loop needs it: ONE warning about `append_to` at `line` (ghost counters on the node); it may attach
# its message to that node (not when suppressed) and touches nothing else
contract(
    f"{W}:create_warning",
    requires=["append_to is not None"],
    ensures=["append_to.g_nwarn == old(append_to.g_nwarn) + 1", "append_to.g_wline == line",
             "append_to.children[: len(old(append_to.children))] == old(append_to.children)"],
    types={"document": "Document", "message": "str", "subtype": "str", "wtype": "str | None", "node": "Element | None", "line": "int | None",
           "append_to": "Element | None"},
    returns="Element | None", raises={}, modifies=["append_to.g_nwarn", "append_to.g_wline", "append_to.children", "Element.parent", "fresh"], trusted=True,
)
assumed("create_warning (view for the anchor resolver)", "one warning about the node it is attached to, at the given line (ghost counters); its own "
        "contract - one system message unless suppressed - is C14's", "myst_parser")

R = "at_return(_seq_refnode)" if False else "_seq_refnode"
# per reference j of the sequence S: the link text and the explicit name it selects
TJ = "old(LinkText(S[j]))"
EJ = f"({TJ} if {TJ} in explicit else FullyNormalizeName({TJ}))"


def _post_all(S, hi):
    """The resolution rule for every reference S[0:hi] (quantified over j)."""
    tj = TJ.replace("S[j]", f"{S}[j]")
    ej = EJ.replace("S[j]", f"{S}[j]")
    link = f"old({S}[j].id_link)"
    return [
        f"forall(0, {hi}, lambda j: implies(not {link}, {S}[j].refid == old({S}[j].refid) and {S}[j].refuri == old({S}[j].refuri)))",
        f"forall(0, {hi}, lambda j: implies({link} and {ej} in explicit, {S}[j].refid == explicit[{ej}][0]))",
        f"forall(0, {hi}, lambda j: implies({link} and {ej} not in explicit and {tj} in slugs, {S}[j].refid == slugs[{tj}][1]))",
        f"forall(0, {hi}, lambda j: implies({link} and {ej} not in explicit and {tj} not in slugs, {S}[j].refid == NormalizeLink({tj})"
        f" and {S}[j].g_nwarn == old({S}[j].g_nwarn) + 1 and {S}[j].g_wline == {S}[j].line))",
        f"forall(0, {hi}, lambda j: implies({link} and ({ej} in explicit or {tj} in slugs), {S}[j].g_nwarn == old({S}[j].g_nwarn)))",
        f"forall(0, {hi}, lambda j: implies({link}, {S}[j].refuri is None))",
        # link text that was given is kept in front; a reference that is not a '#'-link keeps exactly its children
        f"forall(0, {hi}, lambda j: {S}[j].children[: len(old({S}[j].children))] == old({S}[j].children))",
        f"forall(0, {hi}, lambda j: implies(not {link}, {S}[j].children == old({S}[j].children) and {S}[j].g_nwarn == old({S}[j].g_nwarn)))",
    ]


def _post_last(S, k):
    """The resolution rule for the reference S[k] (the one the iteration that just ended has processed)."""
    tj = TJ.replace("S[j]", f"{S}[{k}]")
    ej = EJ.replace("S[j]", f"{S}[{k}]")
    e = f"{S}[{k}]"
    link = f"old({e}.id_link)"
    guard = f"{k} >= 0"
    return [
        f"implies({guard} and not {link}, {e}.refid == old({e}.refid) and {e}.refuri == old({e}.refuri)"
        f" and {e}.children == old({e}.children) and {e}.g_nwarn == old({e}.g_nwarn))",
        # explicit target first
        f"implies({guard} and {link} and {ej} in explicit, {e}.refid == explicit[{ej}][0] and {e}.g_nwarn == old({e}.g_nwarn))",
        # then the heading slug
        f"implies({guard} and {link} and {ej} not in explicit and {tj} in slugs, {e}.refid == slugs[{tj}][1] and {e}.g_nwarn == old({e}.g_nwarn))",
        # else exactly one warning about this reference at its own line, and the normalised text as refid
        f"implies({guard} and {link} and {ej} not in explicit and {tj} not in slugs,"
        f" {e}.refid == NormalizeLink({tj}) and {e}.g_nwarn == old({e}.g_nwarn) + 1 and {e}.g_wline == {e}.line)",
        # the '#'-link marker is consumed; text that was given is kept (in front), nothing is removed
        f"implies({guard} and {link}, {e}.refuri is None and {e}.children[: len(old({e}.children))] == old({e}.children))",
    ]


contract(
    f"{T}:ResolveAnchorIds.apply",
    since="for refnode in findall(",
    ghost={"explicit": "dict[str, tuple[str, str | None]]", "slugs": "dict[str, tuple[int | None, str, str]]"},
    # (docutils front end; every '#'-link still carries its refuri - render_link_anchor sets both, contracts/links.py)
    requires=["not self.document.settings.g_has_env",
              "forall_obj('Element', lambda e: implies(e.id_link, e.refuri is not None))"],
    ensures=[],
    loops={"for refnode in findall(": dict(
        # (the rule for the reference the iteration just processed - cheap, proved first - and then the same rule for EVERY reference
        #  processed so far: later iterations write only to their own reference and to new nodes)
        invariant=_post_last("_seq_refnode", "(_i_refnode - 1)") + _post_all("_seq_refnode", "_i_refnode") + [
            # the references not reached yet are as they were
            "forall(_i_refnode, len(_seq_refnode), lambda j: _seq_refnode[j].refid == old(_seq_refnode[j].refid))",
            "forall(_i_refnode, len(_seq_refnode), lambda j: _seq_refnode[j].refuri == old(_seq_refnode[j].refuri))",
            "forall(_i_refnode, len(_seq_refnode), lambda j: _seq_refnode[j].children == old(_seq_refnode[j].children))",
            "forall(_i_refnode, len(_seq_refnode), lambda j: _seq_refnode[j].g_nwarn == old(_seq_refnode[j].g_nwarn))",
            "forall(0, len(_seq_refnode), lambda j: _seq_refnode[j].g_order == j)",
            "forall(0, len(_seq_refnode), lambda j: _seq_refnode[j].id_link == old(_seq_refnode[j].id_link) and _seq_refnode[j].line == old(_seq_refnode[j].line))",
        ],
    )},
    types={"kwargs": "dict[str, int]", "target": "str", "ref_id": "str", "implicit_title": "str | None", "sect_id": "str"},
    raises={},
    modifies=["Element.refuri", "Element.refid", "Element.children", "Element.parent", "Element.g_nwarn", "Element.g_wline", "fresh"],
    properties=["C09"],
)
