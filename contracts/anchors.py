"""C09: ResolveAnchorIds.apply - the resolution loop (a SUFFIX contract: from `for refnode in findall(...)` to the end).

The first half of the function builds two tables - `explicit` (docutils' explicit target names -> (id, implicit title)) and `slugs`
(heading slugs -> (line, id, title)); it reads docutils' registries and is not under contract.  The loop that USES the tables is:
the tables are ghost parameters of this contract (any two tables), and the statement proved is the resolution rule of C09 for every
'#name' reference of the document, in terms of those tables:

  * an explicit target named like the link (verbatim, else in docutils' normalised spelling) wins: refid = its id;
  * else a heading whose slug is the link text: refid = that heading's id;
  * else (docutils front end) exactly ONE 'target not found' warning, about this reference, at the reference's own line, and
    refid = the normalised link text;
  * a reference that is not a '#'-link is not touched at all; no reference is dropped or visited twice (the references are the
    distinct nodes `findall` yields); link text that was given is kept, an empty one is filled from the target's title.
"""
from pyvc.spec import assumed, contract, fields, spec, implies, forall, exists  # noqa: F401
import contracts.assumed_docutils  # noqa: F401
from contracts.lines import Distinct  # noqa: F401  (pairwise distinct objects of a list)

T = "myst_parser.mdit_to_docutils.transforms"
W = "myst_parser.warnings_"

fields("docutils.nodes:Element", id_link="bool", refuri="str | None", refid="str | None",
       g_nwarn="int", g_wline="int | None")        # ghost: how many warnings were raised about this node, and the line of the last one
fields("docutils.nodes:Document", settings="Settings")
fields("docutils.frontend:Settings", g_has_env="bool")
fields(f"{T}:ResolveAnchorIds", document="Document")
fields("myst_parser._compat:FindAll", _opaque="int")

contract(
    "ext:myst_parser._compat.findall",
    types={"__params__": ["node"], "node": "Document"},
    requires=[], ensures=[], returns="FindAll", modifies=["fresh"], trusted=True,
)
contract(
    "ext:FindAll.__call__",
    types={"__params__": ["self", "condition"], "self": "FindAll", "condition": "object"},
    requires=[],
    ensures=["Distinct(result)", "forall(0, len(result), lambda i: allocated(result[i]) and result[i].kind == 'reference')"],
    returns="list[Element]", modifies=[], pure=True, trusted=True,
)
assumed("docutils findall", "findall(document)(nodes.reference) yields every reference node of the tree once (pairwise distinct nodes); nodes the "
        "loop adds meanwhile are not references", "docutils.nodes")
contract(
    "ext:Element.get[id_link]",
    types={"__params__": ["self", "key"], "self": "Element", "key": "str"},
    requires=[], ensures=["result == self.id_link"], returns="bool", modifies=[], pure=True, trusted=True,
)
contract(
    "ext:Element.__getitem__[refuri]",
    types={"__params__": ["self", "key"], "self": "Element", "key": "str"},
    requires=["self.refuri is not None"], ensures=["result == self.refuri"], returns="str", modifies=[], pure=True, trusted=True,
)
contract(
    "ext:Element.__delitem__[refuri]",
    types={"__params__": ["self", "key"], "self": "Element", "key": "str"},
    requires=["self.refuri is not None"], ensures=["self.refuri is None"], returns="None", modifies=["self.refuri"], trusted=True,
)
contract(
    "ext:Element.__setitem__[refid]",
    types={"__params__": ["self", "key", "value"], "self": "Element", "key": "str", "value": "str"},
    requires=[], ensures=["self.refid == value"], returns="None", modifies=["self.refid"], trusted=True,
)
assumed("reference attributes", "node['refuri'] / node['refid'] / node.get('id_link') are attributes of the node (del removes one)", "docutils.nodes")
contract(
    "ext:docutils.nodes.inline",
    types={"__params__": ["rawsource", "text", "classes"], "rawsource": "str", "text": "str", "classes": "list[str]"},
    requires=[], ensures=["fresh(result)", "result.kind == 'inline'", "result.text == text", "result.parent is None", "len(result.children) == 0"],
    returns="Element", modifies=["fresh1"], trusted=True,
)
contract(
    "ext:Element.__iadd__",
    types={"__params__": ["self", "item"], "self": "Element", "item": "Element"},
    requires=["item != self"],
    ensures=["self.children == old(self.children) + [item]", "item.parent == self"],
    returns="Element", modifies=["self.children", "item.parent"], trusted=True,
)


@spec(abstract=True, sig=(["str"], "str"))
def NormalizeLink(s):
    from markdown_it.common.normalize_url import normalizeLink
    return normalizeLink(s)


@spec(abstract=True, sig=(["str"], "str"))
def FullyNormalizeName(s):
    from docutils import nodes
    return nodes.fully_normalize_name(s)


contract("ext:markdown_it.common.normalize_url.normalizeLink", types={"__params__": ["url"], "url": "str"},
         requires=[], ensures=["result == NormalizeLink(url)"], returns="str", modifies=[], pure=True, trusted=True)
contract("ext:docutils.nodes.fully_normalize_name", types={"__params__": ["name"], "name": "str"},
         requires=[], ensures=["result == FullyNormalizeName(name)"], returns="str", modifies=[], pure=True, trusted=True)
# the warning function, as this loop needs it: ONE warning about `append_to` at `line` (ghost counters on the node); it may attach
# its message to that node (not when suppressed) and touches nothing else
contract(
    f"{W}:create_warning",
    requires=["append_to is not None"],
    ensures=["append_to.g_nwarn == old(append_to.g_nwarn) + 1", "append_to.g_wline == line",
             "append_to.children[: len(old(append_to.children))] == old(append_to.children)",
             "forall_obj('Element', lambda e: implies(old(allocated(e)) and e != append_to, e.children == old(e.children) and e.g_nwarn == old(e.g_nwarn)))"],
    types={"document": "Document", "message": "str", "subtype": "str", "wtype": "str | None", "node": "Element | None", "line": "int | None",
           "append_to": "Element | None"},
    returns="Element | None", raises={}, modifies=["Element.g_nwarn", "Element.g_wline", "Element.children", "Element.parent", "fresh"], trusted=True,
)
assumed("create_warning (view for the anchor resolver)", "one warning about the node it is attached to, at the given line (ghost counters); its own "
        "contract - one system message unless suppressed - is C14's", "myst_parser")

R = "at_return(_seq_refnode)" if False else "_seq_refnode"
# per reference j of the sequence S: the link text and the explicit name it selects
TJ = "old(S[j].refuri)[1:]"
EJ = f"({TJ} if {TJ} in explicit else FullyNormalizeName({TJ}))"


def _post(j_bound_lo, j_bound_hi, S):
    """The resolution rule for the references S[lo:hi] (clauses over j)."""
    tj = TJ.replace("S[", f"{S}[")
    ej = EJ.replace("S[", f"{S}[")
    link = f"old({S}[j].id_link)"
    return [
        f"forall({j_bound_lo}, {j_bound_hi}, lambda j: implies(not {link}, {S}[j].refid == old({S}[j].refid) and {S}[j].refuri == old({S}[j].refuri)"
        f" and {S}[j].children == old({S}[j].children) and {S}[j].g_nwarn == old({S}[j].g_nwarn)))",
        # explicit target first
        f"forall({j_bound_lo}, {j_bound_hi}, lambda j: implies({link} and {ej} in explicit, {S}[j].refid == explicit[{ej}][0]"
        f" and {S}[j].g_nwarn == old({S}[j].g_nwarn)))",
        # then the heading slug
        f"forall({j_bound_lo}, {j_bound_hi}, lambda j: implies({link} and {ej} not in explicit and {tj} in slugs, {S}[j].refid == slugs[{tj}][1]"
        f" and {S}[j].g_nwarn == old({S}[j].g_nwarn)))",
        # else exactly one warning about this reference at its own line, and the normalised text as refid
        f"forall({j_bound_lo}, {j_bound_hi}, lambda j: implies({link} and {ej} not in explicit and {tj} not in slugs,"
        f" {S}[j].refid == NormalizeLink({tj}) and {S}[j].g_nwarn == old({S}[j].g_nwarn) + 1 and {S}[j].g_wline == {S}[j].line))",
        # the '#'-link marker is consumed; text that was given is kept (in front), nothing is removed
        f"forall({j_bound_lo}, {j_bound_hi}, lambda j: implies({link}, {S}[j].refuri is None"
        f" and {S}[j].children[: len(old({S}[j].children))] == old({S}[j].children)))",
    ]


contract(
    f"{T}:ResolveAnchorIds.apply",
    since="for refnode in findall(",
    ghost={"explicit": "dict[str, tuple[str, str | None]]", "slugs": "dict[str, tuple[int | None, str, str]]"},
    # (docutils front end; every '#'-link still carries its refuri - render_link_anchor sets both, contracts/links.py)
    requires=["not self.document.settings.g_has_env"],
    ensures=[],
    loops={"for refnode in findall(": dict(
        invariant=_post("0", "_i_refnode", "_seq_refnode") + [
            # the references not reached yet are as they were
            "forall(_i_refnode, len(_seq_refnode), lambda j: _seq_refnode[j].refid == old(_seq_refnode[j].refid)"
            " and _seq_refnode[j].refuri == old(_seq_refnode[j].refuri) and _seq_refnode[j].id_link == old(_seq_refnode[j].id_link)"
            " and _seq_refnode[j].children == old(_seq_refnode[j].children) and _seq_refnode[j].g_nwarn == old(_seq_refnode[j].g_nwarn))",
            "forall(0, len(_seq_refnode), lambda j: _seq_refnode[j].id_link == old(_seq_refnode[j].id_link) and _seq_refnode[j].line == old(_seq_refnode[j].line))",
            "forall(0, len(_seq_refnode), lambda j: implies(old(_seq_refnode[j].id_link), old(_seq_refnode[j].refuri) is not None))",
        ],
    )},
    types={"kwargs": "dict[str, int]", "target": "str", "ref_id": "str", "implicit_title": "str | None", "sect_id": "str"},
    raises={},
    modifies=["Element.refuri", "Element.refid", "Element.children", "Element.parent", "Element.g_nwarn", "Element.g_wline", "fresh"],
    properties=["C09"],
)
