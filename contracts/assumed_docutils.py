"""Assumed abstract model of docutils nodes (DESIGN Appendix B): an element has a parent, an ordered list
of children, a line and a class kind.  Only the operations the contracts use are given contracts."""
from pyvc.spec import assumed, contract, fields, spec, implies, forall, exists  # noqa: F401

fields("docutils.nodes:Element", parent="Element | None", children="list[Element]", line="int | None", kind="str")
fields("docutils.nodes:Document", log="list[str]", children="list[Element]")


@spec
def is_structural(n):
    """document or section: the only legal parents of a section / transition."""
    return n.kind == "document" or n.kind == "section"


contract(
    "ext:Element.append",
    types={"__params__": ["self", "item"], "self": "Element", "item": "Element"},
    # well-formedness (g3): a node is attached at most once - docutils itself does not check this
    requires=["item.parent is None", "item != self"],
    ensures=["self.children == old(self.children) + [item]", "item.parent == self"],
    modifies=["self.children", "item.parent"],
    trusted=True,
)
assumed("Element.append", "p.append(x): children(p)' = children(p) ++ [x], parent(x)' = p, nothing else changes", "docutils.nodes")
