"""Assumed abstract model of docutils nodes (DESIGN Appendix B): an element has a parent, an ordered list
of children, a line and a class kind.  Only the operations the contracts use are given contracts."""
from pyvc.spec import assumed, contract, fields, spec, implies, forall, exists  # noqa: F401

fields("docutils.nodes:Element", parent="Element | None", children="list[Element]", line="int | None", kind="str",
       source="str | None", text="str", format="str")
fields("docutils.nodes:Document", log="list[str]", children="list[Element]")


@spec
def is_structural(n):
    """document or section: the only legal parents of a section / transition."""
    return n.kind == "document" or n.kind == "section"


contract(
    "ext:Element.append",
    types={"__params__": ["self", "item"], "self": "Element", "item": "Element"},
    # well-formedness (g3): a node is attached at most once - docutils itself does not check this
    requires=["item.parent is None", "item != self"],
    ensures=["self.children == old(self.children) + [item]", "item.parent == self"],
    modifies=["self.children", "item.parent"],
    trusted=True,
)
assumed("Element.append", "p.append(x): children(p)' = children(p) ++ [x], parent(x)' = p, nothing else changes", "docutils.nodes")


# ---------------------------------------------------------------------------------------------------------------
# G': the induction hypothesis of the generic render contract (contracts/render.py), used as the ASSUMED contract of the
# two places where rendering dispatches dynamically over token types (DocutilsRenderer.render_children, and the part of
# _render_tokens after its first loop).  It holds only where headings cannot open sections: render_heading re-roots the
# current node and attaches the new section to an OPEN section when the current node is the document, a section, or the
# temporary root of a match_titles parse (found by run-time monitoring: an unconditional G' fired on
# nested_render_text('# The title ...') at document level).  So: IF the current node is none of those, output is appended
# below the current node only, and the current node is put back.
fields("markdown_it:MdEnv", temp_root_node="Element | None")
fields("myst_parser.mdit_to_docutils.base:DocutilsRenderer", md_env="MdEnv", current_node="Element")
GP_COND = ("(self.current_node.kind != 'document' and self.current_node.kind != 'section'"
           " and self.current_node != self.md_env.get('temp_root_node', None))")
_GP = [
    "self.current_node == old(self.current_node)",
    "len(self.current_node.children) >= len(old(self.current_node.children))",
    "self.current_node.children[: len(old(self.current_node.children))] == old(self.current_node.children)",
    # nodes that existed before and are not the current node keep their children and parent
    "forall_obj('Element', lambda e: implies(old(allocated(e)) and e != self.current_node, e.children == old(e.children)))",
    "forall_obj('Element', lambda e: implies(old(allocated(e)), e.parent == old(e.parent) and e.kind == old(e.kind) and e.line == old(e.line)))",
]
GP_ENS = [f"implies(old({GP_COND}), {c})" for c in _GP]
GP_MOD = ["Element.children", "Element.parent", "Element.line", "Element.source", "Element.kind", "Element.text", "Element.format",
          "Document.log", "DocutilsRenderer.current_node", "fresh"]
GP_TEXT = ("where headings cannot open sections (the current node is not the document, a section or the temporary root of a "
           "match_titles parse) rendering appends below the current node only and puts the current node back (induction hypothesis "
           "of the generic render contract; proved for the methods under G given G' for their sub-trees, assumed for every other "
           "render method)")
# what every method under G needs to know about the temporary root: it is a node that already exists
GP_REQ = ["implies(self.md_env.get('temp_root_node', None) is not None, allocated(self.md_env.get('temp_root_node', None)))"]
