"""Assumed (unchecked) contracts of the stdlib `re` module, shared by several contract files."""
import re

from pyvc.spec import assumed, contract, ext_const, fields, spec

fields("re:Pattern", pattern="str", flags="int")
fields("re:Match", string="str")
ext_const("re.DOTALL", 16)
ext_const("re.MULTILINE", 8)


@spec(abstract=True, sig=(["str"], "str"))
def Esc(c):
    """re.escape(c): a regex text that matches exactly the string c."""
    return re.escape(c)


@spec(abstract=True, sig=(["str", "int", "str"], "bool"))
def FullMatches(rx, flags, s):
    """Does the regex text `rx`, compiled with `flags`, match the whole of `s`?"""
    return re.compile(rx, flags).fullmatch(s) is not None


contract(
    "ext:re.escape",
    types={"__params__": ["pattern"], "pattern": "str"},
    returns="str",
    ensures=["result == Esc(pattern)"],
    pure=True,
    trusted=True,
)
contract(
    "ext:re.compile",
    types={"__params__": ["pattern", "flags"], "pattern": "str", "flags": "int", "__default__flags": "0"},
    returns="Pattern",
    # (re.compile of a str pattern always adds re.UNICODE = 32 to the flags it reports)
    requires=["flags == 0 or flags == 16"],
    ensures=["result.pattern == pattern", "result.flags == flags + 32", "fresh(result)"],
    modifies=["fresh"],
    trusted=True,
)
contract(
    "ext:Pattern.fullmatch",
    types={"__params__": ["self", "string"], "self": "Pattern", "string": "str"},
    returns="Match | None",
    ensures=["(result is not None) == FullMatches(self.pattern, self.flags, string)"],
    pure=True,
    trusted=True,
)
assumed("re.escape", "re.escape(c) returns a regex text Esc(c) (uninterpreted; meaning: matches exactly c)", "stdlib")
assumed("re.compile", "re.compile(p, flags) never raises for the regex texts built here and keeps p and flags", "stdlib")
assumed("Pattern.fullmatch", "truthiness of fullmatch = FullMatches(pattern, flags, s) (uninterpreted; semantics of the regex engine are not modelled; checked by the bounded stand-in)", "stdlib")
