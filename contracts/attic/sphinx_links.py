"""C12: how the Sphinx renderer classifies a link destination that is not a URL (SphinxRenderer.render_link_unknown)."""
from pyvc.spec import assumed, contract, fields, spec, implies, forall, exists  # noqa: F401
from contracts.assumed_docutils import GP_COND, GP_ENS, GP_MOD, GP_REQ, GP_TEXT  # noqa: F401
from contracts.links import NormLinkText  # noqa: F401  (+ the token / node model of the link renderers)
from contracts.render import KEEP, REQ, RMOD  # noqa: F401

S = "myst_parser.mdit_to_docutils.sphinx_"
fields("sphinx.environment:BuildEnv", srcdir="str", docname="str")
fields("pathlib:Path", g_str="str")
fields("docutils.nodes:Element", refdomain="str | None", reftarget="str", reftargetid="str | None")
# SphinxRenderer is a subclass of DocutilsRenderer defined in another module: it has the fields of the base class
from pyvc.spec import REG as _REG  # noqa: E402

fields(f"{S}:SphinxRenderer", **_REG.fields["myst_parser.mdit_to_docutils.base:DocutilsRenderer"])
fields(f"{S}:SphinxRenderer", g_wrap="Element", g_wrap_dest="str")


@spec(abstract=True, sig=(["str"], "str"))
def RelDocs(s):
    """SphinxRenderer._handle_relative_docs (the relative-docs option of an enclosing include); identity without it."""
    return s


@spec(abstract=True, sig=(["str", "str"], "str"))
def AbsPath(dest, docname):
    """env.relfn2path(dest, docname)[1]: the file-system path a destination written in that document denotes."""
    return dest


@spec(abstract=True, sig=(["str"], "bool"))
def IsFile(p):
    return False


@spec(abstract=True, sig=(["str"], "str"))
def DocOf(p):
    """env.path2doc(p) or '' : the docname of a source file ('' = not a document)."""
    return ""


contract(
    f"{S}:SphinxRenderer.sphinx_env", requires=[], ensures=[], returns="BuildEnv", modifies=[], pure=True, trusted=True,
)
contract(
    f"{S}:SphinxRenderer._handle_relative_docs",
    requires=[], ensures=["result == RelDocs(destination)"], returns="str", modifies=[], pure=True, trusted=True,
)
contract(
    "ext:BuildEnv.relfn2path",
    types={"__params__": ["self", "filename", "docname"], "self": "BuildEnv", "filename": "str", "docname": "str"},
    requires=[], ensures=["result[1] == AbsPath(filename, docname)"], returns="tuple[str, str]", modifies=[], pure=True, trusted=True,
)
contract(
    "ext:BuildEnv.path2doc",
    types={"__params__": ["self", "filename"], "self": "BuildEnv", "filename": "str"},
    requires=[], ensures=["implies(result is None, DocOf(filename) == '')", "implies(result is not None, result == DocOf(filename))"],
    returns="str | None", modifies=[], pure=True, trusted=True,
)
contract(
    "ext:pathlib.Path",
    types={"__params__": ["p"], "p": "str"},
    requires=[], ensures=["result.g_str == p"], returns="Path", modifies=["fresh1"], trusted=True,
)
contract(
    "ext:Path.is_file", types={"__params__": ["self"], "self": "Path"},
    requires=[], ensures=["result == IsFile(self.g_str)"], returns="bool", modifies=[], pure=True, trusted=True,
)
contract(
    "ext:Path.__str__", types={"__params__": ["self"], "self": "Path"},
    requires=[], ensures=["result == self.g_str"], returns="str", modifies=[], pure=True, trusted=True,
)
for _k in ("pending_xref", "download_reference"):
    contract(
        f"ext:sphinx.addnodes.{_k}",
        types={"__params__": ["refdomain", "reftarget", "reftargetid"], "refdomain": "str | None", "reftarget": "str", "reftargetid": "str | None",
               "__default__reftargetid": "None", "__ignore_starargs__": True},
        requires=[],
        ensures=[f"result.kind == {_k!r}", "result.refdomain == refdomain", "result.reftarget == reftarget", "result.reftargetid == reftargetid",
                 "len(result.children) == 0", "result.parent is None"],
        returns="Element", modifies=["fresh1"], trusted=True,
    )
assumed("Sphinx environment / addnodes", "env.relfn2path, env.path2doc, Path.is_file are read as uninterpreted functions (AbsPath, DocOf, IsFile); "
        "addnodes.pending_xref / download_reference are new nodes carrying refdomain / reftarget / reftargetid (refdoc, reftype, refexplicit not modelled)",
        "sphinx")
contract(
    f"{S}:SphinxRenderer._process_wrap_node",
    requires=[], ensures=GP_ENS + ["self.g_wrap == wrap_node", "self.g_wrap_dest == path_dest",
                                   "wrap_node.kind == old(wrap_node.kind) and wrap_node.refdomain == old(wrap_node.refdomain)"
                                   " and wrap_node.reftarget == old(wrap_node.reftarget) and wrap_node.reftargetid == old(wrap_node.reftargetid)"],
    types={"wrap_node": "Element", "token": "SyntaxTreeNode", "classes": "list[str]"},
    raises={"Exception": []}, modifies=GP_MOD + ["self.g_wrap", "self.g_wrap_dest", "self.g_rc_node"], trusted=True,
)
assumed("SphinxRenderer._process_wrap_node", "attaches the wrap node below the current node and renders the link text inside it (" + GP_TEXT + ")", "myst_parser")

DEST = "RelDocs(NormLinkText(token.attrs['href'] if 'href' in token.attrs else ''))"
contract(
    f"{S}:SphinxRenderer.render_link_unknown",
    requires=REQ + [GP_COND],
    ensures=[
        # the node that is attached carries the classification of the destination D (percent-encoding undone, made relative to
        # an including document), P = D up to its first '#':
        #   P names an existing file that is a source document -> a `doc` cross-reference to that document, with the text
        #                                                          after the '#' as the target id in it (None without '#')
        #   P names an existing file that is no document      -> a download reference to P
        #   anything else (or no source directory)            -> a cross-reference to D as a whole (labels, later resolution)
        f"implies(self.g_wrap.kind == 'pending_xref' and self.g_wrap.refdomain == 'doc',"
        f" len(self.sphinx_env.srcdir) > 0 and IsFile(AbsPath(self.g_wrap_dest, self.sphinx_env.docname))"
        f" and self.g_wrap.reftarget == DocOf(AbsPath(self.g_wrap_dest, self.sphinx_env.docname)) and self.g_wrap.reftarget != '')",
        f"implies(self.g_wrap.kind == 'download_reference',"
        f" len(self.sphinx_env.srcdir) > 0 and IsFile(AbsPath(self.g_wrap_dest, self.sphinx_env.docname))"
        f" and DocOf(AbsPath(self.g_wrap_dest, self.sphinx_env.docname)) == '' and self.g_wrap.reftarget == self.g_wrap_dest)",
        f"implies(self.g_wrap.kind == 'pending_xref' and self.g_wrap.refdomain is None,"
        f" self.g_wrap.reftarget == {DEST}"
        f" and not (len(self.sphinx_env.srcdir) > 0 and IsFile(AbsPath(self.g_wrap_dest, self.sphinx_env.docname))))",
        "self.g_wrap.kind == 'pending_xref' or self.g_wrap.kind == 'download_reference'",
        "implies(self.g_wrap.kind == 'pending_xref', self.g_wrap.refdomain is None or self.g_wrap.refdomain == 'doc')",
        # P is D up to its first '#'
        f"{DEST}.startswith(self.g_wrap_dest) and '#' not in self.g_wrap_dest",
        f"implies('#' not in {DEST}, self.g_wrap_dest == {DEST} and implies(self.g_wrap.refdomain == 'doc', self.g_wrap.reftargetid is None))",
    ],
    types={"token": "SyntaxTreeNode", "kwargs": "dict[str, str]"},
    raises={"Exception": []},
    modifies=RMOD + ["self.g_wrap", "self.g_wrap_dest", "Element.refdomain", "Element.reftarget", "Element.reftargetid", "Element.id_link", "Element.refuri"],
    properties=["C12"],
)
