"""NOT REGISTERED. render_table_row under a row/entry/paragraph contract: every obligation discharges except the preservation of the
quantified row invariant on the path where the cell has a `style` attribute (alignment) - `unknown` after 60 s, also with the
membership test forked per literal (627 s for the function). Kept for the record; to be appended to contracts/render2.py.
"""
from contracts.render2 import *  # noqa: F401,F403

# --- table rows (C03: a row has exactly one entry per cell token, each holding one paragraph) ------------------------------------
for _k in ("row", "entry", "table", "tgroup", "thead", "tbody", "colspec"):
    contract(
        f"ext:docutils.nodes.{_k}",
        types={"__params__": []},
        requires=[], ensures=[f"result.kind == {_k!r}", "len(result.children) == 0", "result.parent is None", "result.line is None"],
        returns="Element", modifies=["fresh1"], trusted=True,
    )
ROW = NEW
contract(
    f"{M}:DocutilsRenderer.render_table_row",
    requires=REQ,
    ensures=KEEP + [
        "len(self.current_node.children) == len(old(self.current_node.children)) + 1",
        f"{ROW}.kind == 'row' and {ROW}.parent == self.current_node and fresh({ROW})",
        # exactly one entry per cell token, in order, each starting with the cell's paragraph
        f"len({ROW}.children) == len(token.children)",
        f"forall(0, len({ROW}.children), lambda k: {ROW}.children[k].kind == 'entry' and {ROW}.children[k].parent == {ROW}"
        f" and len({ROW}.children[k].children) >= 1 and {ROW}.children[k].children[0].kind == 'paragraph')",
    ],
    loops={"for child in token.children or []": dict(invariant=[
        "self.current_node == row and row.kind == 'row' and fresh(row) and row.parent == old(self.current_node)",
        "old(self.current_node).children == old(self.current_node.children) + [row]",
        "len(row.children) == _i_child and len(_seq_child) == len(token.children)",
        "forall(0, len(row.children), lambda k: row.children[k].kind == 'entry' and row.children[k].parent == row)",
        "forall(0, len(row.children), lambda k: len(row.children[k].children) >= 1 and row.children[k].children[0].kind == 'paragraph')",
    ])},
    types={"token": "SyntaxTreeNode", "row": "Element", "entry": "Element", "para": "Element", "style": "str | None"},
    raises={"Exception": []},
    modifies=RMOD,
    properties=["C03", "C02"],
)
