"""Contracts for myst_parser/parsers/directives.py (C08)."""
from pyvc.spec import assumed, contract, ext_exception, fields, spec, implies, forall, exists  # noqa: F401

M = "myst_parser.parsers.directives"

ext_exception("MarkupError", "Exception")
# a docutils directive class as far as argument parsing reads it
fields("docutils.parsers.rst:DirectiveClass", required_arguments="int", optional_arguments="int", final_argument_whitespace="bool")

contract(
    f"{M}:parse_directive_arguments",
    # the only call site is the else-branch of `not (required or optional)`; docutils declares non-negative counts
    requires=["directive_cls.required_arguments >= 0", "directive_cls.optional_arguments >= 0",
              "directive_cls.required_arguments + directive_cls.optional_arguments >= 1"],
    # argument counts are enforced against the directive's declaration
    ensures=[
        "directive_cls.required_arguments <= len(result)",
        "len(result) <= directive_cls.required_arguments + directive_cls.optional_arguments",
        # nothing is dropped: with no surplus the words themselves, with surplus the tail folded into the last argument
        "implies(len(arg_text.split()) <= directive_cls.required_arguments + directive_cls.optional_arguments,"
        " len(result) == len(arg_text.split()))",
        "implies(len(arg_text.split()) > directive_cls.required_arguments + directive_cls.optional_arguments,"
        " directive_cls.final_argument_whitespace"
        " and len(result) == directive_cls.required_arguments + directive_cls.optional_arguments)",
    ],
    raises={"MarkupError": []},
    modifies=[],
    types={"directive_cls": "DirectiveClass"},
    properties=["C08"],
)
assumed("str.split", "s.split(None, k) for k >= 0 has min(len(s.split()), k+1) items; k < 0 means no limit (CPython)", "stdlib")
