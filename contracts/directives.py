"""Contracts for myst_parser/parsers/directives.py (C08)."""
from pyvc.spec import assumed, contract, ext_exception, fields, spec, implies, forall, exists  # noqa: F401

M = "myst_parser.parsers.directives"

ext_exception("MarkupError", "Exception")
# a docutils directive class as far as argument parsing reads it
fields("docutils.parsers.rst:DirectiveClass", required_arguments="int", optional_arguments="int", final_argument_whitespace="bool")

contract(
    f"{M}:parse_directive_arguments",
    # the only call site is the else-branch of `not (required or optional)`; docutils declares non-negative counts
    requires=["directive_cls.required_arguments >= 0", "directive_cls.optional_arguments >= 0",
              "directive_cls.required_arguments + directive_cls.optional_arguments >= 1"],
    # argument counts are enforced against the directive's declaration
    ensures=[
        "directive_cls.required_arguments <= len(result)",
        "len(result) <= directive_cls.required_arguments + directive_cls.optional_arguments",
        # nothing is dropped: with no surplus the words themselves, with surplus the tail folded into the last argument
        "implies(len(arg_text.split()) <= directive_cls.required_arguments + directive_cls.optional_arguments,"
        " len(result) == len(arg_text.split()))",
        "implies(len(arg_text.split()) > directive_cls.required_arguments + directive_cls.optional_arguments,"
        " directive_cls.final_argument_whitespace"
        " and len(result) == directive_cls.required_arguments + directive_cls.optional_arguments)",
    ],
    raises={"MarkupError": []},
    modifies=[],
    types={"directive_cls": "DirectiveClass"},
    properties=["C08"],
)
assumed("str.split", "s.split(None, k) for k >= 0 has min(len(s.split()), k+1) items; k < 0 means no limit (CPython)", "stdlib")


# ---------------------------------------------------------------------------------------------------------------
# parse_directive_text: the line bookkeeping (C08: nothing lost, nothing leaked; C04: body_offset is what callers add to the
# directive's line).  str.splitlines is left uninterpreted, so the statements hold for any notion of line boundary.
fields("docutils.parsers.rst:DirectiveClass", option_spec="list[str] | None", has_content="bool")
fields(f"{M}:_DirectiveOptions", content="str", options="dict[str, str]", warnings="list[ParseWarnings]", has_options="bool")
fields(f"{M}:DirectiveParsingResult", arguments="list[str]", options="dict[str, str]", body="list[str]", body_offset="int",
       warnings="list[ParseWarnings]")


fields(f"{M}:ParseWarnings", msg="str", lineno="int | None", type="str")
# `additional_options` is only handed on to _parse_directive_options: an opaque object here
fields("typing:OptionsMapping", opaque_id="int")


@spec(abstract=True, sig=(["str"], "list[str]"))
def SplitLines(s):
    return s.splitlines()


# _parse_directive_options: the SPLIT of the content into option block and body is under contract (the prefix of the function up to
# `has_options_block = ...`); what the rest does with the option block (YAML / tokenizer / converters) is not, and callers see the
# whole function through the assumed view below.
@spec
def IsOpt(s):
    return s.lstrip().startswith(":")


# index of the first line at or after i that is not an option line (`:key: value`, possibly indented)
@spec(recursive=True, sig=(["list[str]", "int"], "int"), fuel=2)
def Lead(L, i):
    if i >= len(L):
        return i
    if not IsOpt(L[i]):
        return i
    return Lead(L, i + 1)


fields("re:Match", _opaque="int")
contract(
    "ext:re.search",
    types={"__params__": ["pattern", "string", "flags"], "pattern": "str", "string": "str", "flags": "int", "__default__flags": "0"},
    requires=[], ensures=[], returns="Match | None", modifies=["fresh"], trusted=True,
)
for _m in ("start", "end"):
    contract(
        f"ext:Match.{_m}",
        types={"__params__": ["self"], "self": "Match"},
        requires=[], ensures=["result >= 0"], returns="int", modifies=[], pure=True, trusted=True,
    )
contract(
    "ext:textwrap.dedent",
    types={"__params__": ["text"], "text": "str"}, requires=[], ensures=[], returns="str", modifies=[], pure=True, trusted=True,
)
contract(
    f"{M}:_parse_directive_options",
    until="has_options_block = options_block is not None",
    callers=dict(
        requires=[],
        ensures=["fresh(result)"],
        raises={"MarkupError": []},
        modifies=["fresh"],
        returns="_DirectiveOptions",
    ),
    requires=[],
    ensures=[],
    # (`content` is the text that came in; at_return(x) is the local x where the prefix ends)
    cut_ensures=[
        # content that opens with neither style is all body
        "implies(not content.startswith('---') and not IsOpt(content), at_return(content) == content and at_return(options_block) is None)",
        # `:key: value` style: the option block is exactly the leading run of option lines - no body line is taken, no option line
        # is left - and the body is the remaining lines joined again
        "implies(not content.startswith('---') and IsOpt(content),"
        " at_return(content) == '\\n'.join(SplitLines(content)[Lead(SplitLines(content), 0):]) and at_return(options_block) is not None)",
        # `---` style: an option block is always recognised
        "implies(content.startswith('---'), at_return(options_block) is not None)",
    ],
    loops={"while content_lines": dict(
        invariant=[
            "len(yaml_lines) <= len(SplitLines(content))",
            "content_lines == SplitLines(content)[len(yaml_lines):]",
            "Lead(SplitLines(content), 0) == Lead(SplitLines(content), len(yaml_lines))",
            "options_block is None",
        ],
        decreases="len(content_lines)",
    )},
    raises={},
    modifies=["fresh"],
    types={"directive_class": "DirectiveClass", "additional_options": "OptionsMapping | None", "options_block": "str | None",
           "content_lines": "list[str]", "yaml_lines": "list[str]", "match": "Match | None"},
    properties=["C08"],
)
assumed("_parse_directive_options (callers' view)", "returns a new _DirectiveOptions (content, options, warnings, has_options) or raises MarkupError; "
        "nothing is assumed about how its `content` relates to the input (the split itself is proved on the prefix; the known findings C08-* "
        "are about what join / splitlines do to trailing blank lines)", "myst_parser")

contract(
    f"{M}:parse_directive_text",
    requires=["directive_class.required_arguments >= 0", "directive_class.optional_arguments >= 0"],
    ensures=[
        # A. the body starts on the first line only for a directive that takes no arguments and a non-blank first line;
        #    then the first line IS the first body line, at offset 0, followed by the remaining lines unchanged
        "implies(directive_class.required_arguments + directive_class.optional_arguments == 0 and len(first_line.strip()) > 0,"
        " result.body_offset == 0 and len(result.body) >= 1 and result.body[0] == first_line and len(result.arguments) == 0)",
        # B. otherwise no line is lost or counted twice: offset + body lines = all lines of the content ...
        "implies(not (directive_class.required_arguments + directive_class.optional_arguments == 0 and len(first_line.strip()) > 0)"
        " and not (directive_class.option_spec is not None and len(directive_class.option_spec) > 0),"
        " result.body == SplitLines(content)[result.body_offset:] and 0 <= result.body_offset <= 1"
        " and result.body_offset <= len(SplitLines(content)))",
        # ... and at most ONE blank line is dropped in front of the body, and it is counted
        "implies(not (directive_class.required_arguments + directive_class.optional_arguments == 0 and len(first_line.strip()) > 0)"
        " and directive_class.option_spec is not None and len(directive_class.option_spec) > 0,"
        " result.body_offset + len(result.body) == len(SplitLines(content)))",
        # C. a directive without arguments gets none
        "implies(directive_class.required_arguments + directive_class.optional_arguments == 0, len(result.arguments) == 0)",
        # D. the body never starts with a blank line that was first in the option-less content ... (one is stripped)
        "implies(not (directive_class.option_spec is not None and len(directive_class.option_spec) > 0)"
        " and len(first_line.strip()) == 0 and len(SplitLines(content)) > 0 and len(SplitLines(content)[0].strip()) == 0,"
        " result.body_offset == 1)",
    ],
    raises={"MarkupError": []},
    modifies=["fresh"],
    types={"directive_class": "DirectiveClass", "additional_options": "OptionsMapping | None"},
    properties=["C08", "C04"],
)
