"""C11, after parsing: UnreferencedFootnotesDetector.apply - WHICH footnote definitions get the "not referenced" warning.

The warning function is seen through an assumed view that records, in a ghost list of the document, the node each warning is about
(its own contract - exactly one system message unless suppressed - is C14's, contracts/warnings.py).  The statement proved here: the
warnings raised are, in this order, one for every manually numbered definition that has a name and no back-reference, one for every
symbol footnote without back-reference, one for every auto-numbered definition that has a name and no back-reference - and none
for any other footnote (a definition whose name docutils moved to `dupnames` was already reported by docutils).
"""
from pyvc.spec import assumed, contract, fields, spec, implies, forall, exists  # noqa: F401
import contracts.assumed_docutils  # noqa: F401

T = "myst_parser.mdit_to_docutils.transforms"
W = "myst_parser.warnings_"

fields("docutils.nodes:Document", footnotes="list[Element]", symbol_footnotes="list[Element]", autofootnotes="list[Element]",
       g_warned="list[Element]")   # ghost: the nodes of the warnings raised so far, in order
fields("docutils.nodes:Element", names="list[str]", dupnames="list[str]", backrefs="list[str]")
fields(f"{T}:UnreferencedFootnotesDetector", document="Document")
for _k in ("names", "dupnames", "backrefs"):
    contract(
        f"ext:Element.__getitem__[{_k}]",
        types={"__params__": ["self", "key"], "self": "Element", "key": "str"},
        requires=[], ensures=[f"result == self.{_k}"], returns="list[str]", modifies=[], pure=True, trusted=True,
    )
assumed("docutils node attributes names / dupnames / backrefs", "node['names'], node['dupnames'], node['backrefs'] are lists of strings", "docutils.nodes")
contract(
    f"{W}:create_warning",
    requires=[],
    ensures=["document.g_warned == old(document.g_warned) + [node]"],
    types={"document": "Document", "message": "str", "subtype": "str", "wtype": "str | None", "node": "Element", "line": "int | None",
           "append_to": "Element | None"},
    returns="Element | None", raises={}, modifies=["document.g_warned", "Element.children", "Element.parent", "fresh"], trusted=True,
)
assumed("create_warning (view for the footnote transform)", "one warning about `node` (ghost record); it may attach a message node somewhere but "
        "changes no registry and no names / backrefs (its own contract is C14's)", "myst_parser")


# the definitions of L, from index i on, that must be reported: no back-reference and (for numbered / auto ones) still named
@spec(recursive=True, sig=(["list[Element]", "int"], "list[Element]"), fuel=2)
def Unref(L, i):
    if i >= len(L):
        return []
    if len(L[i].backrefs) == 0 and len(L[i].names) > 0:
        return [L[i]] + Unref(L, i + 1)
    return Unref(L, i + 1)


@spec(recursive=True, sig=(["list[Element]", "int"], "list[Element]"), fuel=2)
def UnrefSym(L, i):
    if i >= len(L):
        return []
    if len(L[i].backrefs) == 0:
        return [L[i]] + UnrefSym(L, i + 1)
    return UnrefSym(L, i + 1)


D = "self.document"
FRAME = (f"{D}.footnotes == old({D}.footnotes) and {D}.symbol_footnotes == old({D}.symbol_footnotes)"
         f" and {D}.autofootnotes == old({D}.autofootnotes)")
contract(
    f"{T}:UnreferencedFootnotesDetector.apply",
    requires=[],
    ensures=[
        f"{D}.g_warned == old({D}.g_warned) + Unref({D}.footnotes, 0) + UnrefSym({D}.symbol_footnotes, 0) + Unref({D}.autofootnotes, 0)",
        # the registries themselves are left alone
        f"{D}.footnotes == old({D}.footnotes) and {D}.symbol_footnotes == old({D}.symbol_footnotes) and {D}.autofootnotes == old({D}.autofootnotes)",
    ],
    loops={
        f"for node in {D}.footnotes": dict(invariant=[
            FRAME,
            f"{D}.g_warned + Unref({D}.footnotes, _i_node) == old({D}.g_warned) + Unref({D}.footnotes, 0)"]),
        f"for node in {D}.symbol_footnotes": dict(invariant=[
            FRAME,
            f"{D}.g_warned + UnrefSym({D}.symbol_footnotes, _i_node)"
            f" == old({D}.g_warned) + Unref({D}.footnotes, 0) + UnrefSym({D}.symbol_footnotes, 0)"]),
        f"for node in {D}.autofootnotes": dict(invariant=[
            FRAME,
            f"{D}.g_warned + Unref({D}.autofootnotes, _i_node)"
            f" == old({D}.g_warned) + Unref({D}.footnotes, 0) + UnrefSym({D}.symbol_footnotes, 0) + Unref({D}.autofootnotes, 0)"]),
    },
    types={"kwargs": "dict[str, int]"},
    raises={},
    modifies=["Document.g_warned", "Element.children", "Element.parent", "fresh"],
    properties=["C11"],
)
