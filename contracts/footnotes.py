"""Contracts for the footnote renderers (C11): what a reference and a definition add to the tree and to docutils' registries."""
from pyvc.spec import assumed, contract, fields, spec, implies, forall, exists  # noqa: F401
from contracts.assumed_docutils import GP_ENS, GP_MOD, GP_TEXT  # noqa: F401
import contracts.sections  # noqa: F401  (create_warning as a log record)
import contracts.registry  # noqa: F401  (names / nameids / note_explicit_target)
from contracts.render import KEEP, NEW, REQ, RMOD, M  # noqa: F401

# docutils' footnote registries, as lists in registration order (note_* append); nameids by key presence
fields("docutils.nodes:Document", footnotes="list[Element]", autofootnotes="list[Element]", footnote_refs="list[Element]",
       autofootnote_refs="list[Element]")
fields("docutils.nodes:Element", auto="bool", refname="str | None")
fields("markdown_it.tree:SyntaxTreeNode", meta="dict[str, str]")

for _k, _params in (("footnote", []), ("label", ["rawsource", "text"]), ("footnote_reference", ["rawsource"])):
    contract(
        f"ext:docutils.nodes.{_k}",
        types={"__params__": _params, "rawsource": "str", "text": "str"},
        requires=[],
        ensures=[f"result.kind == {_k!r}", "len(result.children) == 0", "result.parent is None", "result.line is None",
                 "len(result.names) == 0", "not result.auto", "result.refname is None"] + (["result.text == text"] if "text" in _params else []),
        returns="Element", modifies=["fresh1"], trusted=True,
    )
contract(
    "ext:Element.__iadd__",
    types={"__params__": ["self", "item"], "self": "Element", "item": "Element"},
    requires=["item.parent is None", "item != self"],
    ensures=["self.children == old(self.children) + [item]", "item.parent == self"],
    returns="Element", modifies=["self.children", "item.parent"], trusted=True,
)
assumed("Element.__iadd__", "node += child is node.append(child)", "docutils.nodes")
contract(
    "ext:Element.__setitem__",
    types={"__params__": ["self", "key", "value"], "self": "Element", "key": "str"},
    requires=["key == 'auto' or key == 'refname'"],
    ensures=["implies(key == 'auto', self.auto and self.refname == old(self.refname))",
             "implies(key == 'refname', self.refname is not None and self.auto == old(self.auto))"],
    returns="None", modifies=["self.auto", "self.refname"], trusted=True,
)
assumed("footnote node attributes", "node['names'] is the node's name list; node['auto'] = 1 marks it auto-numbered; node['refname'] = label names "
        "what a reference refers to (the label text itself is not modelled for references)", "docutils.nodes")
for _m, _f in (("note_footnote", "footnotes"), ("note_autofootnote", "autofootnotes"), ("note_footnote_ref", "footnote_refs"),
               ("note_autofootnote_ref", "autofootnote_refs")):
    contract(
        f"ext:Document.{_m}",
        types={"__params__": ["self", "node"], "self": "Document", "node": "Element"},
        requires=[], ensures=[f"self.{_f} == old(self.{_f}) + [node]"], returns="None", modifies=[f"self.{_f}"], trusted=True,
    )
assumed("docutils footnote registries", "note_footnote / note_autofootnote / note_footnote_ref / note_autofootnote_ref append the node to the "
        "corresponding registry; note_explicit_target registers the node's names in nameids", "docutils.nodes")

# G' for this module: rendering the children (the text of a footnote) may itself register references, footnotes and targets -
# the registries only grow at the end
REG_GROW = [f"self.document.{r}[: len(old(self.document.{r}))] == old(self.document.{r})"
            for r in ("footnotes", "autofootnotes", "footnote_refs", "autofootnote_refs")] + [
    "self.document.nameids[: len(old(self.document.nameids))] == old(self.document.nameids)"]
contract(
    f"{M}:DocutilsRenderer.render_children",
    requires=[],
    ensures=GP_ENS + ["self.g_rc_node == old(self.current_node)"] + REG_GROW,
    types={"token": "SyntaxTreeNode"},
    raises={"Exception": []},
    modifies=GP_MOD + ["self.g_rc_node", "Element.names", "Element.auto", "Element.refname", "Document.footnotes", "Document.autofootnotes",
                       "Document.footnote_refs", "Document.autofootnote_refs", "Document.nameids"],
    trusted=True,
)
FMOD = RMOD + ["Element.names", "Element.auto", "Element.refname", "Document.footnotes", "Document.autofootnotes",
               "Document.footnote_refs", "Document.autofootnote_refs", "Document.nameids"]
DOC = "self.document"
UNCHANGED_DEFS = f"{DOC}.footnotes == old({DOC}.footnotes) and {DOC}.autofootnotes == old({DOC}.autofootnotes)"
UNCHANGED_REFS = f"{DOC}.footnote_refs == old({DOC}.footnote_refs) and {DOC}.autofootnote_refs == old({DOC}.autofootnote_refs)"
LABEL = "token.meta['label']"

contract(
    f"{M}:DocutilsRenderer.render_footnote_reference",   # (despite the name: a footnote DEFINITION `[^a]: ...`)
    requires=REQ + ["'label' in token.meta"],
    ensures=KEEP + [
        # a label that is already registered: exactly one warning, no node, the registries untouched (other footnotes undisturbed)
        f"implies(old({LABEL} in {DOC}.nameids), {DOC}.log == old({DOC}.log) + ['footnote'] and {UNCHANGED_DEFS} and {UNCHANGED_REFS})",
        # otherwise: exactly ONE footnote node attached below the current node, named by the label, its content rendered inside it
        f"implies(not old({LABEL} in {DOC}.nameids),"
        f" len(self.current_node.children) == len(old(self.current_node.children)) + 1"
        f" and {NEW}.kind == 'footnote' and {NEW}.parent == self.current_node and fresh({NEW}) and self.g_rc_node == {NEW})",
        # ... registered exactly once, directly after what was registered before (its content may register more after it):
        # numeric labels keep their number (manual), every other label is auto-numbered
        f"implies(not old({LABEL} in {DOC}.nameids) and {LABEL}.isdigit(),"
        f" {DOC}.footnotes[: len(old({DOC}.footnotes)) + 1] == old({DOC}.footnotes) + [{NEW}]"
        f" and {DOC}.autofootnotes[: len(old({DOC}.autofootnotes))] == old({DOC}.autofootnotes))",
        f"implies(not old({LABEL} in {DOC}.nameids) and not {LABEL}.isdigit(),"
        f" {DOC}.autofootnotes[: len(old({DOC}.autofootnotes)) + 1] == old({DOC}.autofootnotes) + [{NEW}]"
        f" and {DOC}.footnotes[: len(old({DOC}.footnotes))] == old({DOC}.footnotes))",
        # earlier references stay where they were
        f"{DOC}.footnote_refs[: len(old({DOC}.footnote_refs))] == old({DOC}.footnote_refs)",
        f"{DOC}.autofootnote_refs[: len(old({DOC}.autofootnote_refs))] == old({DOC}.autofootnote_refs)",
    ],
    types={"token": "SyntaxTreeNode"},
    raises={"Exception": []},
    modifies=FMOD,
    properties=["C11"],
)
contract(
    f"{M}:DocutilsRenderer.render_footnote_ref",         # a footnote REFERENCE `[^a]`
    requires=REQ + ["'label' in token.meta"],
    ensures=KEEP + [
        "len(self.current_node.children) == len(old(self.current_node.children)) + 1",
        f"{NEW}.kind == 'footnote_reference' and {NEW}.parent == self.current_node and fresh({NEW}) and {NEW}.refname is not None",
        f"implies(token.map is not None and len(token.map) > 0, {NEW}.line == token.map[0])",
        # every reference is recorded; an auto-numbered one (non-numeric label) also in the auto registry, in reference order
        f"{DOC}.footnote_refs == old({DOC}.footnote_refs) + [{NEW}]",
        f"implies({LABEL}.isdigit(), {DOC}.autofootnote_refs == old({DOC}.autofootnote_refs) and not {NEW}.auto"
        f" and len({NEW}.children) == 1 and {NEW}.children[0].kind == 'Text' and {NEW}.children[0].text == {LABEL})",
        f"implies(not {LABEL}.isdigit(), {DOC}.autofootnote_refs == old({DOC}.autofootnote_refs) + [{NEW}] and {NEW}.auto)",
        UNCHANGED_DEFS, f"{DOC}.log == old({DOC}.log)",
    ],
    types={"token": "SyntaxTreeNode"},
    raises={},
    modifies=FMOD,
    properties=["C11"],
)
