"""Contract for DocutilsRenderer.render_heading (C05, C03): where a heading becomes a section, where it becomes a rubric."""
from pyvc.spec import assumed, contract, fields, spec, implies, forall, exists  # noqa: F401
from contracts.assumed_docutils import GP_COND, GP_ENS, GP_MOD, GP_REQ, GP_TEXT  # noqa: F401
import contracts.sections  # noqa: F401  (update_section_level_state is proved there; create_warning as a log record)
from contracts.sections import LS_inv  # noqa: F401
from contracts.render import M, RMOD  # noqa: F401

fields("markdown_it.tree:SyntaxTreeNode", tag="str")
fields(f"{M}:DocutilsRenderer", _heading_offset="int")
contract(
    f"{M}:DocutilsRenderer.blocks_mathjax_processing",   # (a property over Sphinx / MyST settings: some boolean)
    requires=[], ensures=[], returns="bool", modifies=[], pure=True, trusted=True,
)

for _k, _params in (("rubric", ["rawsource", "text", "level"]), ("section", []), ("title", ["rawsource"])):
    contract(
        f"ext:docutils.nodes.{_k}",
        types={"__params__": _params, "rawsource": "str", "text": "str", "level": "int"},
        requires=[],
        ensures=[f"result.kind == {_k!r}", "len(result.children) == 0", "result.parent is None", "result.line is None"],
        returns="Element", modifies=["fresh1"], trusted=True,
    )
contract(
    "ext:MdEnv.__getitem__[temp_root_node]",
    types={"__params__": ["self", "key"], "self": "MdEnv", "key": "str"},
    requires=["self.temp_root_node is not None"], ensures=["result == self.temp_root_node"], returns="Element | None",
    modifies=[], pure=True, trusted=True,
)
# generate_heading_target: registers names / the slug (C10's functions); may append a warning node to the current node, and
# docutils' note_implicit_target may append a message to `node` (the section / rubric) when the name clashes
contract(
    f"{M}:DocutilsRenderer.generate_heading_target",
    requires=[],
    ensures=["self.current_node == old(self.current_node)",
             "self.current_node.children[: len(old(self.current_node.children))] == old(self.current_node.children)",
             "node.children[: len(old(node.children))] == old(node.children)",
             "forall_obj('Element', lambda e: implies(old(allocated(e)) and e != self.current_node and e != node, e.children == old(e.children)))",
             "forall_obj('Element', lambda e: implies(old(allocated(e)), e.parent == old(e.parent) and e.kind == old(e.kind) and e.line == old(e.line)))"],
    types={"token": "SyntaxTreeNode", "node": "Element", "title_node": "Element"},
    raises={}, modifies=["Element.children", "Element.parent", "Element.kind", "Element.line", "Element.source", "Document.log", "fresh"], trusted=True,
)
assumed("DocutilsRenderer.generate_heading_target", "registers the implicit target and the slug (compute_unique_slug / default_slugify are under "
        "contract, C10); it may append a warning node to the current node and docutils may append a message to `node` on a name "
        "clash; it changes no other node", "myst_parser")

SECTION_CTX = ("(self.current_node.kind == 'document' or self.current_node.kind == 'section'"
               " or self.current_node == self.md_env.get('temp_root_node', None))")
NEWR = "self.current_node.children[len(old(self.current_node.children))]"
contract(
    f"{M}:DocutilsRenderer.render_heading",
    requires=GP_REQ + [
        "LS_inv(self)",
        "self._heading_offset >= 0",
        # a markdown-it heading token: tag h1 .. h6
        "len(token.tag) == 2 and token.tag[1] in '123456'",
        # every open section is a node that exists (so the section created here is none of them)
        "forall(None, None, lambda k: implies(k in self._level_to_section, allocated(self._level_to_section[k])))",
        "self.current_node.kind != 'Text'",
    ],
    ensures=[
        # 1. Outside the document / a section / the temporary root a heading is a RUBRIC below the current node and leaves the
        #    section structure alone: the current node and the open-level map are what they were
        f"implies(not old({SECTION_CTX}), self.current_node == old(self.current_node)"
        f" and len(self.current_node.children) >= len(old(self.current_node.children)) + 1"
        f" and self.current_node.children[: len(old(self.current_node.children))] == old(self.current_node.children)"
        f" and {NEWR}.kind == 'rubric' and {NEWR}.parent == self.current_node and fresh({NEWR}))",
        f"implies(not old({SECTION_CTX}), forall(None, None, lambda k: (k in self._level_to_section) == (k in old(self._level_to_section))))",
        f"implies(not old({SECTION_CTX}), forall(None, None, lambda k: implies(k in self._level_to_section,"
        f" self._level_to_section[k] == old(self._level_to_section)[k])))",
        f"implies(not old({SECTION_CTX}) and token.map is not None and len(token.map) > 0, {NEWR}.line == token.map[0])",
        # 2. Otherwise it opens a SECTION: a new section node becomes the current node and the open section of its level; it is
        #    attached to an open section / the document (its parent is one of the nodes that were open), and its first child is
        #    its title, at the heading's line
        f"implies(old({SECTION_CTX}), self.current_node.kind == 'section' and fresh(self.current_node)"
        f" and len(self.current_node.children) >= 1 and self.current_node.children[0].kind == 'title'"
        f" and self.current_node.children[0].parent == self.current_node)",
        f"implies(old({SECTION_CTX}), (int(token.tag[1]) + old(self._heading_offset)) in self._level_to_section"
        f" and self._level_to_section[int(token.tag[1]) + old(self._heading_offset)] == self.current_node)",
        f"implies(old({SECTION_CTX}), self.current_node.parent is not None"
        f" and exists(None, None, lambda k: k in old(self._level_to_section) and old(self._level_to_section)[k] == self.current_node.parent))",
        f"implies(old({SECTION_CTX}) and token.map is not None and len(token.map) > 0,"
        f" self.current_node.line == token.map[0] and self.current_node.children[0].line == token.map[0])",
        # the open-level map stays well-formed either way
        "LS_inv(self)",
    ],
    types={"token": "SyntaxTreeNode"},
    raises={"Exception": []},
    modifies=RMOD + ["self._level_to_section", "self.document.log"],
    properties=["C05", "C03"],
)
