"""Contracts for myst_parser/mdit_to_docutils/html_to_nodes.py (C17): the pass-through part of html_to_nodes."""
from pyvc.spec import assumed, contract, ext_exception, fields, spec, implies, forall, exists  # noqa: F401
import contracts.parse_html  # noqa: F401  (the HTML AST: Element / Root)

M = "myst_parser.mdit_to_docutils.html_to_nodes"
B = "myst_parser.mdit_to_docutils.base"
P = "myst_parser.parsers.parse_html"

# docutils nodes as far as this function produces them (a separate pseudo-class: `Element` is the HTML AST here)
fields("docutils.nodes:Node", kind="str", text="str", format="str", source="str | None", line="int | None")
fields("docutils.nodes:DocRoot", attr_source="str")
fields("myst_parser.config.main:MdParserConfig", gfm_only="bool", enable_extensions="set[str]")
fields(f"{B}:DocutilsRenderer", md_config="MdParserConfig", document="DocRoot")

contract(
    "ext:DocRoot.__getitem__",
    types={"__params__": ["self", "key"], "self": "DocRoot", "key": "str"},
    requires=["key == 'source'"], ensures=["result == self.attr_source"], returns="str", modifies=[], pure=True, trusted=True,
)
contract(
    "ext:docutils.nodes.raw",
    types={"__params__": ["rawsource", "text", "format"], "rawsource": "str", "text": "str", "format": "str"},
    requires=[],
    ensures=["result.kind == 'raw'", "result.text == text", "result.format == format", "result.source is None", "result.line is None"],
    returns="Node", modifies=["fresh1"], trusted=True,
)
assumed("docutils.nodes.raw", "nodes.raw(rawsource, text, format=f) is a new raw node whose text is `text` and whose format is f", "docutils.nodes")


@spec(abstract=True, sig=(["str"], "str"))
def GfmFilter(s):
    """RE_FLOW.subn(lambda m: m.group(0).replace('<', '&lt;'), s)[0] - what the regex matches is not modelled."""
    import re
    return re.sub(r"<(\/?)(iframe|noembed|noframes|plaintext|script|style|title|textarea|xmp)(?=[\t\n\f\r />])",
                  lambda m: m.group(0).replace("<", "&lt;"), s, flags=re.IGNORECASE)


contract(
    f"ext:{M}.RE_FLOW.subn",
    types={"__params__": ["repl", "string"], "string": "str"},
    requires=[], ensures=["result[0] == GfmFilter(string)"], returns="tuple[str, int]", modifies=[], pure=True, trusted=True,
)
contract(
    f"ext:{M}.RE_FLOW.sub",
    types={"__params__": ["repl", "string"], "string": "str"},
    requires=[], ensures=["result == GfmFilter(string)"], returns="str", modifies=[], pure=True, trusted=True,
)
assumed("RE_FLOW.subn", "the substitution with the module's callback is the abstract function GfmFilter of the text; WHICH tags it "
        "neutralises (the regular expression itself) is decided only by the bounded check", "re")

contract(
    f"{B}:DocutilsRenderer.create_warning",
    requires=[], ensures=["implies(result is not None, result.kind == 'system_message')"],
    types={"message": "str", "subtype": "str", "line": "int | None", "append_to": "None", "wtype": "str | None"},
    returns="Node | None", raises={}, modifies=["fresh"], trusted=True,
)
assumed("DocutilsRenderer.create_warning", "returns a new system_message node or None (suppressed); its own contract is C14's", "myst_parser")
contract(
    f"{P}:tokenize_html",
    requires=[], ensures=[], returns="Root", raises={"Exception": []}, modifies=["fresh"], trusted=True,
)
contract(
    f"{P}:Element.strip",
    requires=[], ensures=[], returns="Element", raises={"Exception": []}, modifies=["fresh", "Element._children", "Element._parent"], trusted=True,
)
assumed("tokenize_html / Element.strip", "return an HTML AST element or raise (what the tree looks like is C16's contracts); "
        "html_to_nodes catches every exception of this step", "myst_parser")

RAW = "result[len(result) - 1]"
contract(
    f"{M}:default_html",
    requires=[],
    ensures=["len(result) == 1", "result[0].kind == 'raw' and result[0].format == 'html'", "result[0].text == text",
             "result[0].source == source and result[0].line == line_number"],
    raises={}, modifies=["fresh"], returns="list[Node]",
    properties=["C17"],
)
contract(
    f"{M}:html_to_nodes",
    # everything up to the test "is every top-level element an <img> / <div class=admonition>?": all the returns in this
    # prefix are pass-through returns
    until="if not all(",
    requires=[],
    ensures=[
        # pass-through: the LAST node is a raw HTML node with exactly the source text (after the GFM tag filter in GFM mode),
        # at the token's line, and at most one node - the parse warning - precedes it
        f"len(result) >= 1 and {RAW}.kind == 'raw' and {RAW}.format == 'html'",
        f"{RAW}.text == (GfmFilter(text) if renderer.md_config.gfm_only else text)",
        f"{RAW}.line == line_number and {RAW}.source == renderer.document.attr_source",
        "len(result) <= 2 and implies(len(result) == 2, result[0].kind == 'system_message')",
        # with neither extension enabled nothing else can happen: no parsing, no warning
        "implies(not ('html_image' in renderer.md_config.enable_extensions or 'html_admonition' in renderer.md_config.enable_extensions),"
        " len(result) == 1)",
    ],
    cut_ensures=[
        # conversion is only ever attempted with an extension enabled ...
        "'html_image' in renderer.md_config.enable_extensions or 'html_admonition' in renderer.md_config.enable_extensions",
        # ... and on a tree that has at least one top-level element (an empty tree is not "every element convertible")
        "len(at_return(root)._children) >= 1",
    ],
    raises={},
    modifies=["fresh", "Element._children", "Element._parent"],
    returns="list[Node]",
    properties=["C17"],
)
