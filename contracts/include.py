"""C20: the include directive refuses before it touches the file system."""
from pyvc.spec import assumed, contract, ext_exception, fields, spec, implies, forall, exists  # noqa: F401

MK = "myst_parser.mocking"
ext_exception("DirectiveError", "Exception")
fields("docutils.frontend:Values", file_insertion_enabled="bool")
fields("docutils.nodes:DocSettingsHolder", settings="Values")
fields(f"{MK}:MockIncludeDirective", document="DocSettingsHolder", name="str")

contract(
    f"{MK}:MockIncludeDirective.run",
    # the statements up to the first use of the file system (Path(...).absolute()): the refusal
    until="source_dir = Path(",
    requires=[],
    ensures=[],
    cut_ensures=[
        # execution gets past the guard only when file insertion is enabled ...
        "self.document.settings.file_insertion_enabled",
    ],
    # ... otherwise the directive fails with its documented error, having read nothing (no call precedes the guard)
    raises={"DirectiveError": ["not self.document.settings.file_insertion_enabled"]},
    modifies=["fresh"],
    properties=["C20"],
)
assumed("docutils settings", "document.settings.file_insertion_enabled is the docutils security setting (a bool)", "docutils.frontend")
