"""Contracts for myst_parser/inventory.py (C19 wildcard filtering, C18 inventory loading)."""
from pyvc.spec import contract, fields, history, spec, implies, forall, exists  # noqa: F401
from contracts.assumed_re import Esc, FullMatches  # noqa: F401

M = "myst_parser.inventory"


# The regex text that the statement of C19 prescribes for a pattern:
#   '\*' -> a literal star, '*' -> any run of characters, every other character -> only itself
# (right-recursive; a backslash that is not followed by '*' is an ordinary character)
@spec(recursive=True, sig=(["str"], "str"), fuel=2)
def Rx(p):
    if len(p) == 0:
        return ""
    if p[0] == "\\" and len(p) >= 2 and p[1] == "*":
        return Esc("*") + Rx(p[2:])
    if p[0] == "*":
        return ".*" + Rx(p[1:])
    return Esc(p[0]) + Rx(p[1:])


contract(
    f"{M}:_create_regex",
    requires=[],
    ensures=[
        "result.pattern == Rx(pat)",
        "result.flags == 48",  # re.DOTALL | re.UNICODE: '*' = any run of characters, line breaks included
    ],
    modifies=["fresh"],  # pure up to allocation: the lru_cache in front of it is then the identity
    returns="Pattern",
    loops={
        "for char in pat": dict(
            # Rx(pat) == regex ++ Rx(pending ++ rest) with pending = "\\" iff backslash_last
            invariant=[
                "implies(backslash_last, Rx(pat) == regex + Rx('\\\\' + pat[_i_char:]))",
                "implies(not backslash_last, Rx(pat) == regex + Rx(pat[_i_char:]))",
            ],
        )
    },
    properties=["C19"],
)

contract(
    f"{M}:match_with_wildcard",
    requires=[],
    ensures=["result == (pattern is None or FullMatches(Rx(pattern), 48, name))"],
    modifies=["fresh"],
    properties=["C19"],
)
