"""Contracts for myst_parser/inventory.py (C19 wildcard filtering, C18 inventory loading)."""
from pyvc.spec import contract, fields, history, spec, implies, forall, exists  # noqa: F401
from contracts.assumed_re import Esc, FullMatches  # noqa: F401

M = "myst_parser.inventory"


# The regex text that the statement of C19 prescribes for a pattern:
#   '\*' -> a literal star, '*' -> any run of characters, every other character -> only itself
# (right-recursive; a backslash that is not followed by '*' is an ordinary character)
@spec(recursive=True, sig=(["str"], "str"), fuel=2)
def Rx(p):
    if len(p) == 0:
        return ""
    if p[0] == "\\" and len(p) >= 2 and p[1] == "*":
        return Esc("*") + Rx(p[2:])
    if p[0] == "*":
        return ".*" + Rx(p[1:])
    return Esc(p[0]) + Rx(p[1:])


contract(
    f"{M}:_create_regex",
    requires=[],
    ensures=[
        "result.pattern == Rx(pat)",
        "result.flags == 48",  # re.DOTALL | re.UNICODE: '*' = any run of characters, line breaks included
    ],
    modifies=["fresh"],  # pure up to allocation: the lru_cache in front of it is then the identity
    returns="Pattern",
    loops={
        "for char in pat": dict(
            # Rx(pat) == regex ++ Rx(pending ++ rest) with pending = "\\" iff backslash_last
            invariant=[
                "implies(backslash_last, Rx(pat) == regex + Rx('\\\\' + pat[_i_char:]))",
                "implies(not backslash_last, Rx(pat) == regex + Rx(pat[_i_char:]))",
            ],
        )
    },
    properties=["C19"],
)

contract(
    f"{M}:match_with_wildcard",
    requires=[],
    ensures=["result == (pattern is None or FullMatches(Rx(pattern), 48, name))"],
    modifies=["fresh"],
    properties=["C19"],
)


# ---------------------------------------------------------------------------------------------------------------
# filter_sphinx_inventories (C19): what is yielded.  W(name, pattern) is match_with_wildcard's postcondition.
@spec
def W(name, pattern):
    return pattern is None or FullMatches(Rx(pattern), 48, name)


@spec
def Selected(m, inventories, invs, domains, otypes, targets):
    """m reports an entry that exists, under the object type spelled `domain:otype` with the FIRST colon as the separator,
    and all four filters accept it."""
    return (W(m.inv, invs) and W(m.domain, domains) and W(m.otype, otypes) and W(m.name, targets)
            and m.inv in inventories
            and ":" not in m.domain
            and (m.domain + ":" + m.otype) in inventories[m.inv]
            and m.name in inventories[m.inv][m.domain + ":" + m.otype]
            and m.project == inventories[m.inv][m.domain + ":" + m.otype][m.name][0]
            and m.version == inventories[m.inv][m.domain + ":" + m.otype][m.name][1]
            and m.loc == inventories[m.inv][m.domain + ":" + m.otype][m.name][2]
            and m.base_url is None)


SEL = "forall(0, len({ys}), lambda j: Selected({ys}[j], inventories, invs, domains, otypes, targets))"
contract(
    f"{M}:filter_sphinx_inventories",
    requires=[],
    ensures=[SEL.format(ys="result")],
    raises={},
    modifies=["fresh"],
    types={"inventories": "dict[str, dict[str, dict[str, tuple[str, str, str, str]]]]"},
    returns="list[InvMatch]",
    opaque=["Rx"],  # the regex text of a pattern is whatever match_with_wildcard's contract says; its recursion is not needed here
    loops={
        "for (inv_name, inv_data) in inventories.items()": dict(invariant=[SEL.format(ys="_yielded")]),
        "for (domain_obj_name, data) in inv_data.items()": dict(invariant=[
            SEL.format(ys="_yielded"), "inv_name in inventories", "W(inv_name, invs)",
        ]),
        "for target in data": dict(invariant=[
            SEL.format(ys="_yielded"), "inv_name in inventories", "W(inv_name, invs)",
            "W(domain_name, domains) and W(obj_type, otypes)", "':' not in domain_name",
            "domain_obj_name == domain_name + ':' + obj_type", "domain_obj_name in inventories[inv_name]",
        ]),
    },
    properties=["C19"],
)


# ---------------------------------------------------------------------------------------------------------------
# filter_inventories (C19): the same statement for MyST's own inventory representation (TypedDicts read by literal key)
fields(f"{M}:InventoryType", g_name="str", g_version="str", g_base_url="str | None",
       g_objects="dict[str, dict[str, dict[str, InventoryItemType]]]")
fields(f"{M}:InventoryItemType", g_loc="str", g_text="str | None")
for _cls, _key, _ret in (("InventoryType", "objects", "dict[str, dict[str, dict[str, InventoryItemType]]]"), ("InventoryType", "name", "str"),
                         ("InventoryType", "version", "str"), ("InventoryType", "base_url", "str | None"),
                         ("InventoryItemType", "loc", "str"), ("InventoryItemType", "text", "str | None")):
    contract(
        f"ext:{_cls}.__getitem__[{_key}]",
        types={"__params__": ["self", "key"], "self": _cls, "key": "str"},
        requires=[], ensures=[f"result == self.g_{_key}"], returns=_ret, modifies=[], pure=True, trusted=True,
    )
from pyvc.spec import assumed  # noqa: E402

assumed("InventoryType / InventoryItemType", "TypedDicts read by literal key: inv['objects'], inv['name'], inv['version'], inv['base_url'], "
        "item['loc'], item['text'] are the fields of the record", "myst_parser")


@spec
def SelectedN(m, inventories, invs, domains, otypes, targets):
    """m reports an entry that exists under inventories[inv]['objects'][domain][otype][name], all four filters accept it, and
    the project data come from that inventory, the location and text from that entry."""
    return (W(m.inv, invs) and W(m.domain, domains) and W(m.otype, otypes) and W(m.name, targets)
            and m.inv in inventories
            and m.domain in inventories[m.inv].g_objects
            and m.otype in inventories[m.inv].g_objects[m.domain]
            and m.name in inventories[m.inv].g_objects[m.domain][m.otype]
            and m.project == inventories[m.inv].g_name and m.version == inventories[m.inv].g_version
            and m.base_url == inventories[m.inv].g_base_url
            and m.loc == inventories[m.inv].g_objects[m.domain][m.otype][m.name].g_loc
            and m.text == inventories[m.inv].g_objects[m.domain][m.otype][m.name].g_text)


SELN = "forall(0, len({ys}), lambda j: SelectedN({ys}[j], inventories, invs, domains, otypes, targets))"
contract(
    f"{M}:filter_inventories",
    requires=[],
    ensures=[SELN.format(ys="result")],
    raises={},
    modifies=["fresh"],
    types={"inventories": "dict[str, InventoryType]"},
    returns="list[InvMatch]",
    opaque=["Rx"],
    loops={
        "for (inv_name, inv_data) in inventories.items()": dict(invariant=[SELN.format(ys="_yielded")]),
        "for (domain_name, dom_data) in inv_data['objects'].items()": dict(invariant=[
            SELN.format(ys="_yielded"), "inv_name in inventories", "inventories[inv_name] == inv_data", "W(inv_name, invs)",
        ]),
        "for (obj_type, obj_data) in dom_data.items()": dict(invariant=[
            SELN.format(ys="_yielded"), "inv_name in inventories", "inventories[inv_name] == inv_data", "W(inv_name, invs)",
            "W(domain_name, domains)", "domain_name in inv_data.g_objects",
        ]),
        "for (target, item_data) in obj_data.items()": dict(invariant=[
            SELN.format(ys="_yielded"), "inv_name in inventories", "inventories[inv_name] == inv_data", "W(inv_name, invs)",
            "W(domain_name, domains)", "domain_name in inv_data.g_objects",
            "W(obj_type, otypes)", "obj_type in inv_data.g_objects[domain_name]",
        ]),
    },
    properties=["C19"],
)
