"""Contracts for InventoryFileReader (C18): chunk independence as a consequence of contracts over the abstract
view  View = buffer ++ (unread bytes of the stream), never over how `read` split it."""
from pyvc.spec import assumed, contract, fields, history, spec, implies, forall, exists  # noqa: F401

M = "myst_parser.inventory"

# the stream: an opaque object with a ghost field `rest` = the bytes not yet handed out by read()
fields("io:IOStream", rest="bytes")
fields(f"{M}:InventoryFileReader", stream="IOStream", buffer="bytes", eof="bool")

contract(
    "ext:IOStream.read",
    types={"__params__": ["self", "n"], "self": "IOStream", "n": "int"},
    returns="bytes",
    requires=["n > 0"],
    # read(n) hands out a prefix of the unread bytes, at most n of them, and nothing only when none remain
    ensures=[
        "old(self.rest) == result + self.rest",
        "len(result) <= n",
        "(len(result) == 0) == (len(old(self.rest)) == 0)",
    ],
    modifies=["self.rest"],
    trusted=True,
)
assumed("IO.read", "read(n) returns a prefix of the unread bytes of length <= n, empty iff none remain (any chunking allowed)", "io")


@spec
def View(r):
    """Everything the reader has not yet handed out: its buffer followed by the unread bytes of the stream."""
    return r.buffer + r.stream.rest


@spec
def R_inv(r):
    return implies(r.eof, len(r.stream.rest) == 0)


@spec
def E_inv(r):
    """Between calls of the line/chunk readers: once end of file is known the buffer has been handed out.
    (read_buffer alone does not keep this - it is re-established by readline, its only caller before the chunk reader.)"""
    return implies(r.eof, len(r.buffer) == 0)


RMOD = ["self.buffer", "self.eof", "self.stream.rest"]

contract(
    f"{M}:InventoryFileReader.__init__",
    ensures=["self.buffer == b''", "not self.eof", "self.stream == stream", "R_inv(self)"],
    modifies=["self.stream", "self.buffer", "self.eof"],
    types={"stream": "IOStream"},
    properties=["C18"],
)

contract(
    f"{M}:InventoryFileReader.read_buffer",
    requires=["R_inv(self)"],
    ensures=[
        "R_inv(self)",
        "View(self) == old(View(self))",  # nothing is lost or duplicated
        "self.stream == old(self.stream)",
        # progress: the stream got shorter, or end of file is now known
        "self.eof or len(self.stream.rest) < len(old(self.stream.rest))",
        "implies(old(self.eof), self.eof)",
        # end of file becomes known only by a read that returned nothing
        "implies(self.eof and not old(self.eof), self.buffer == old(self.buffer))",
    ],
    modifies=RMOD,
    properties=["C18"],
)

contract(
    f"{M}:InventoryFileReader.readline",
    requires=["R_inv(self)"],
    decreases="len(self.stream.rest) + (0 if self.eof else 1)",
    ensures=[
        "R_inv(self)",
        "self.stream == old(self.stream)",
        # with V the view at entry: up to the first newline, or everything when there is none
        "implies(old(View(self)).find(b'\\n') >= 0,"
        " result == old(View(self))[: old(View(self)).find(b'\\n')].decode()"
        " and View(self) == old(View(self))[old(View(self)).find(b'\\n') + 1 :])",
        "implies(old(View(self)).find(b'\\n') < 0,"
        " result == old(View(self)).decode() and len(View(self)) == 0 and self.eof)",
        "implies(old(self.eof), self.eof)",
        "implies(old(E_inv(self)), E_inv(self))",
    ],
    raises={"UnicodeDecodeError": []},
    modifies=RMOD,
    properties=["C18"],
)

contract(
    f"{M}:InventoryFileReader.readlines",
    requires=["R_inv(self)", "E_inv(self)"],
    # every yielded line is non-empty; the reader ends at end of file with everything consumed
    ensures=["R_inv(self)", "self.eof", "self.stream == old(self.stream)",
             "forall(0, len(result), lambda i: len(result[i]) > 0)"],
    raises={"UnicodeDecodeError": []},
    modifies=RMOD,
    returns="list[str]",
    loops={
        "while not self.eof": dict(
            invariant=["R_inv(self)", "E_inv(self)", "self.stream == old(self.stream)",
                       "forall(0, len(_yielded), lambda i: len(_yielded[i]) > 0)"],
            # a call of readline shortens the view, or reaches end of file
            decreases=("len(self.buffer) + len(self.stream.rest)", "0 if self.eof else 1"),
        )
    },
    properties=["C18"],
)

# zlib: a streaming decompressor with ghost state `fed` (all input so far) and `out` (all output so far);
# Inflate is the (uninterpreted) one-shot decompression; the assumed contract is the streaming identity
fields("zlib:Decompress", fed="bytes", out="bytes", flushed="bool")


@spec(abstract=True, sig=(["bytes"], "bytes"))
def Inflate(data):
    import zlib

    return zlib.decompress(data)


contract(
    "ext:zlib.decompressobj",
    types={"__params__": []},
    returns="Decompress",
    ensures=["fresh(result)", "result.fed == b''", "result.out == b''", "not result.flushed"],
    modifies=["fresh"],
    trusted=True,
)
contract(
    "ext:Decompress.decompress",
    types={"__params__": ["self", "data"], "self": "Decompress", "data": "bytes"},
    returns="bytes",
    requires=["not self.flushed"],
    ensures=["self.fed == old(self.fed) + data", "self.out == old(self.out) + result", "not self.flushed"],
    raises={"error": []},  # zlib.error on corrupt data
    modifies=["self.fed", "self.out"],
    trusted=True,
)
contract(
    "ext:Decompress.flush",
    types={"__params__": ["self"], "self": "Decompress"},
    returns="bytes",
    ensures=["self.fed == old(self.fed)", "self.out == old(self.out) + result", "self.out == Inflate(self.fed)", "self.flushed"],
    raises={"error": []},
    modifies=["self.out", "self.flushed"],
    trusted=True,
)
assumed("zlib.decompressobj", "streaming decompression: the concatenation of all decompress() outputs and flush() equals "
        "zlib.decompress of the concatenation of all inputs", "stdlib zlib")

contract(
    f"{M}:InventoryFileReader.read_compressed_chunks",
    requires=["R_inv(self)", "E_inv(self)"],
    # every byte of the view is fed to the decompressor exactly once, in order: the concatenation of the yielded
    # chunks is the decompression of the whole remaining input - however read() chunked it
    ensures=["b''.join(result) == Inflate(old(View(self)))", "self.eof", "len(View(self)) == 0"],
    raises={"error": []},
    modifies=RMOD + ["fresh"],
    returns="list[bytes]",
    loops={
        "while not self.eof": dict(
            invariant=["R_inv(self)", "E_inv(self)", "self.stream == old(self.stream)", "not decompressor.flushed",
                       "decompressor.fed + View(self) == old(View(self))",
                       "b''.join(_yielded) == decompressor.out",
                       "implies(not self.eof, True)"],
            decreases=("len(self.stream.rest)", "0 if self.eof else 1"),
        )
    },
    properties=["C18"],
)


# The '\n'-terminated lines of a byte string, in order (what the reader is specified to yield); right-recursive.
@spec(recursive=True, sig=(["bytes"], "list[str]"), fuel=1)
def Lines(d):
    if d.find(b"\n") < 0:
        return []
    return [d[: d.find(b"\n")].decode()] + Lines(d[d.find(b"\n") + 1 :])


contract(
    f"{M}:InventoryFileReader.read_compressed_lines",
    requires=["R_inv(self)", "E_inv(self)"],
    # the yielded lines are exactly the newline-terminated lines of the decompressed remaining input - a function of
    # the view only, hence independent of how the stream was chunked
    ensures=["result == Lines(Inflate(old(View(self))))"],
    raises={"error": [], "UnicodeDecodeError": []},
    modifies=RMOD + ["fresh"],
    returns="list[str]",
    types={"buf": "bytes"},
    loops={
        "for chunk in self.read_compressed_chunks()": dict(
            invariant=[
                "b''.join(_seq_chunk) == Inflate(old(View(self)))",
                "Lines(b''.join(_seq_chunk)) == _yielded + Lines(buf + b''.join(_seq_chunk[_i_chunk:]))",
                "buf.find(b'\\n') < 0",
            ],
        ),
        "while pos != -1": dict(
            invariant=[
                "b''.join(_seq_chunk) == Inflate(old(View(self)))",
                "Lines(b''.join(_seq_chunk)) == _yielded + Lines(buf + b''.join(_seq_chunk[_i_chunk:]))",
                "pos == buf.find(b'\\n')",
            ],
            decreases="len(buf)",
        ),
    },
    properties=["C18"],
)
