"""Contracts for the source-line arithmetic of the renderer (C04): the functions through which a markdown-it
token's `map` becomes a docutils node's `line`."""
from pyvc.spec import assumed, contract, fields, history, spec, implies, forall, exists  # noqa: F401
from contracts.assumed_docutils import GP_COND, GP_ENS, GP_MOD, GP_REQ, GP_TEXT

M = "myst_parser.mdit_to_docutils.base"

# markdown-it-py objects, as far as the line arithmetic sees them.  `SyntaxTreeNode.map` is a read-only view of the
# `map` of the token(s) the node was built from (markdown_it/tree.py: `_attribute_token().map`).
fields("markdown_it.tree:SyntaxTreeNode", map="list[int] | None", type="str")
fields("markdown_it.token:Token", map="list[int] | None", children="list[Token] | None", type="str", hidden="bool", content="str", tag="str", info="str", markup="str", level="int", nesting="int", block="bool")
assumed("SyntaxTreeNode.map", "a SyntaxTreeNode exposes the `map` of the Token it wraps (for a nested pair: of its opening token)",
        "markdown_it.tree")

contract(
    f"{M}:token_line",
    requires=[],
    ensures=[
        "implies(token.map is not None and len(token.map) > 0, result == token.map[0])",
        "implies(token.map is None or len(token.map) == 0, default is not None and result == default)",
    ],
    raises={"ValueError": ["old((token.map is None or len(token.map) == 0) and default is None)"]},
    modifies=[],
    types={"token": "SyntaxTreeNode"},
    properties=["C04"],
)

fields("docutils.nodes:Document", attr_source="str")
contract(
    "ext:Document.__getitem__",
    types={"__params__": ["self", "key"], "self": "Document", "key": "str"},
    requires=["key == 'source'"],
    ensures=["result == self.attr_source"],
    returns="str",
    modifies=[],
    pure=True,
    trusted=True,
)
assumed("Document.__getitem__", "document['source'] reads the document's `source` attribute (set by docutils when the document is created)",
        "docutils.nodes")

fields(f"{M}:DocutilsRenderer", document="Document", current_node="Element")

contract(
    f"{M}:DocutilsRenderer.add_line_and_source_path",
    requires=[],
    ensures=[
        # the node's line IS the first line of the token's map (1-based by then, see _render_tokens) ...
        "implies(token.map is not None and len(token.map) > 0, node.line == token.map[0])",
        # ... and a token without a map leaves the node's line alone
        "implies(token.map is None or len(token.map) == 0, node.line == old(node.line))",
        "node.source == self.document.attr_source",
    ],
    raises={},
    modifies=["node.line", "node.source"],
    types={"node": "Element", "token": "SyntaxTreeNode"},
    properties=["C04"],
)


@spec
def has_map(t):
    return t.map is not None and len(t.map) > 0


# Ghost labelling that says "markdown-it creates every Token object once": the top-level tokens of a stream carry
# consecutive numbers (so dropping a leading token keeps the labelling), an inline child carries its parent's number and
# its own index.  Such a labelling exists iff no token object occurs
# twice in the stream or in two children lists (distinct labels => distinct objects).
fields("markdown_it.token:Token", g_parent="int", g_idx="int")


@spec
def Distinct(tokens):
    return (implies(len(tokens) > 0, tokens[0].g_idx >= 0)
            and forall(0, len(tokens), lambda i: tokens[i].g_parent == -1 and tokens[i].g_idx == tokens[0].g_idx + i)
            and forall(0, len(tokens), lambda i: implies(tokens[i].children is not None,
                forall(0, len(tokens[i].children), lambda k: tokens[i].children[k].g_parent == tokens[i].g_idx and tokens[i].children[k].g_idx == k))))


# Statement contract on the first loop of _render_tokens ("propagate line number down to inline elements"); the tree
# building and the dispatch loop that follow only READ the maps (SyntaxTreeNode.map is a view).
contract(
    f"{M}:DocutilsRenderer._render_tokens",
    until="node_tree = SyntaxTreeNode(tokens)",
    # what callers see of the whole function: G' (the rendering of the tokens, everything after the first loop, is outside
    # these contracts and dispatches dynamically like render_children) over a frame that also holds the renderer state that
    # rendering legitimately changes (open sections, heading offset, the parser's ghost record, the temporary root)
    callers=dict(
        requires=["Distinct(tokens)", "forall(0, len(tokens), lambda i: implies(has_map(tokens[i]), len(tokens[i].map) == 2))"],
        ensures=GP_ENS,
        raises={"Exception": []},
        modifies=GP_MOD + ["Token.map", "DocutilsRenderer._level_to_section", "DocutilsRenderer._heading_offset",
                           "MarkdownIt.last_text", "MarkdownIt.last_result", "MarkdownIt.last_inline", "MdEnv.temp_root_node"],
    ),
    requires=[
        "Distinct(tokens)",
        "forall(0, len(tokens), lambda i: implies(has_map(tokens[i]), len(tokens[i].map) == 2))",
    ],
    ensures=[
        # docutils lines are 1-based: every mapped token's start (and end) is its 0-based markdown-it line + 1
        "forall(0, len(tokens), lambda i: implies(old(has_map(tokens[i])),"
        " has_map(tokens[i]) and tokens[i].map[0] == old(tokens[i].map[0]) + 1 and tokens[i].map[1] == old(tokens[i].map[1]) + 1))",
        "forall(0, len(tokens), lambda i: implies(not old(has_map(tokens[i])), tokens[i].map == old(tokens[i].map)))",
        # and the inline children of a mapped token carry the same (shifted) map
        "forall(0, len(tokens), lambda i: implies(old(has_map(tokens[i])) and tokens[i].children is not None,"
        " forall(0, len(tokens[i].children), lambda k: tokens[i].children[k].map == tokens[i].map)))",
    ],
    raises={},
    modifies=["Token.map", "fresh"],
    types={"tokens": "list[Token]"},
    loops={
        "for token in tokens": dict(invariant=[
            "forall(0, _i_token, lambda i: implies(old(has_map(tokens[i])),"
            " has_map(tokens[i]) and tokens[i].map[0] == old(tokens[i].map[0]) + 1 and tokens[i].map[1] == old(tokens[i].map[1]) + 1))",
            "forall(0, len(tokens), lambda i: implies(not old(has_map(tokens[i])), tokens[i].map == old(tokens[i].map)))",
            "forall(_i_token, len(tokens), lambda i: tokens[i].map == old(tokens[i].map))",
            "forall(0, _i_token, lambda i: implies(old(has_map(tokens[i])) and tokens[i].children is not None,"
            " forall(0, len(tokens[i].children), lambda k: tokens[i].children[k].map == tokens[i].map)))",
        ]),
        "for token_child in token.children or []": dict(invariant=[
            "token.map == at_entry(token.map)",
            "forall(0, len(_seq_token_child), lambda k: _seq_token_child[k].g_parent == token.g_idx)",
            "forall(0, _i_token_child, lambda k: _seq_token_child[k].map == token.map)",
            # the inner loop writes the maps of this token's children only
            "forall(0, len(tokens), lambda i: tokens[i].map == at_entry(tokens[i].map))",
            "forall(0, _i_token - 1, lambda i: implies(tokens[i].children is not None,"
            " forall(0, len(tokens[i].children), lambda k: tokens[i].children[k].map == at_entry(tokens[i].children[k].map))))",
        ]),
    },
    properties=["C04"],
)

# ---------------------------------------------------------------------------------------------------------------
# nested_render_text: text found at 0-based offset `lineno` of the source is parsed on its own (lines counted from 0)
# and every block token's map is shifted by `lineno` before the tokens are rendered.

fields(f"{M}:DocutilsRenderer", md="MarkdownIt", md_env="MdEnv", _heading_offset="int", _level_to_section="dict[int, Element]")
# ghost: `g_src` = the 0-based line at which the parser that created the token saw it start (-1: the token has no map);
# the parser object remembers its last input and output
fields("markdown_it.token:Token", g_src="int")
fields("markdown_it:MarkdownIt", last_text="str", last_result="list[Token]", last_inline="bool")


@spec
def ParseResult(result):
    return (Distinct(result)
            and forall(0, len(result), lambda i: (has_map(result[i]) and len(result[i].map) == 2 and result[i].map[0] == result[i].g_src
                                                  and result[i].g_src >= 0)
                                                 or (not has_map(result[i]) and result[i].g_src == -1)))


for _name, _inl in (("parse", False), ("parseInline", True)):
    contract(
        f"ext:MarkdownIt.{_name}",
        types={"__params__": ["self", "src", "env"], "self": "MarkdownIt", "src": "str", "env": "MdEnv"},
        requires=[],
        ensures=["ParseResult(result)", "self.last_text == src", f"self.last_inline == {_inl}", "self.last_result == result",
                 "forall(0, len(result), lambda i: allocated(result[i]) and not old(allocated(result[i])))"],
        returns="list[Token]",
        modifies=["self.last_text", "self.last_result", "self.last_inline", "fresh"],
        trusted=True,
    )
assumed("MarkdownIt.parse / parseInline",
        "returns a new list of newly created, pairwise distinct Token objects whose `map` (when set) is [start, end) in 0-based lines "
        "of the text that was passed in (ghost g_src = that start); ghost fields last_text / last_result record the call", "markdown_it")

contract(
    "ext:MdEnv.get",
    types={"__params__": ["self", "key", "default"], "self": "MdEnv", "key": "str", "default": "None"},
    requires=["key == 'temp_root_node'"],
    ensures=["result == self.temp_root_node"],
    returns="Element | None", modifies=[], pure=True, trusted=True,
)
contract(
    "ext:MdEnv.__setitem__",
    types={"__params__": ["self", "key", "value"], "self": "MdEnv", "key": "str", "value": "Element | None"},
    requires=["key == 'temp_root_node'"],
    ensures=["self.temp_root_node == value"],
    returns="None", modifies=["self.temp_root_node"], trusted=True,
)
assumed("md_env['temp_root_node']", "the markdown-it environment mapping is seen through this one key only (get / item assignment); "
        "an absent key reads as None", "myst_parser")

NRT_MOD = GP_MOD + ["Token.map", "DocutilsRenderer._level_to_section", "DocutilsRenderer._heading_offset",
                    "MarkdownIt.last_text", "MarkdownIt.last_result", "MarkdownIt.last_inline", "MdEnv.temp_root_node"]
contract(
    f"{M}:DocutilsRenderer.nested_render_text",
    requires=GP_REQ + ["implies(temp_root_node is not None, allocated(temp_root_node))"],
    at_call={
        "self._render_tokens(tokens)": [
            # what is rendered is what was parsed from the text (plus a final newline for block parsing), minus a leading
            # front-matter token ...
            "self.md.last_text == (text if inline else text + '\\n')",
            "self.md.last_inline == inline",
            "tokens == self.md.last_result or tokens == self.md.last_result[1:]",
            # ... with every mapped token starting `lineno` lines below where the parser saw it
            "forall(0, len(tokens), lambda i: implies(tokens[i].g_src >= 0,"
            " has_map(tokens[i]) and len(tokens[i].map) == 2 and tokens[i].map[0] == tokens[i].g_src + lineno))",
            "forall(0, len(tokens), lambda i: implies(tokens[i].g_src < 0, not has_map(tokens[i])))",
        ],
    },
    ensures=[
        # the heading offset in force during the nested render is undone afterwards (C05: nested content does not
        # change how the enclosing document's headings are read)
        "self._heading_offset == old(self._heading_offset)",
        # with a temporary root (headings allowed inside a directive body) the open-section map of the enclosing document
        # is put back as it was (the copy is taken before rendering; that it IS a copy, not an alias, is the no-alias
        # obligation of the frame pass)
        "implies(temp_root_node is not None, forall(None, None, lambda k: (k in self._level_to_section) == (k in old(self._level_to_section))))",
        "implies(temp_root_node is not None, forall(None, None, lambda k: implies(k in self._level_to_section,"
        " self._level_to_section[k] == old(self._level_to_section)[k])))",
        # G' carries through where headings cannot open sections - no temporary root is installed by this call and the
        # current node is not structural (C06: nested content lands below the current node and nowhere else; the current
        # node is put back)
        *[c.replace("implies(old(", "implies(temp_root_node is None and old(", 1) for c in GP_ENS],
        "implies(temp_root_node is not None, self.md_env.get('temp_root_node', None) == old(self.md_env.get('temp_root_node', None)))",
    ],
    raises={"Exception": []},
    modifies=NRT_MOD,
    types={"temp_root_node": "Element | None"},
    loops={
        "for token in tokens": dict(invariant=[
            "Distinct(tokens)",
            "self.md.last_text == at_entry(self.md.last_text) and self.md.last_inline == at_entry(self.md.last_inline)"
            " and self.md.last_result == at_entry(self.md.last_result)",
            "forall(0, len(tokens), lambda i: implies(tokens[i].g_src >= 0,"
            " has_map(tokens[i]) and len(tokens[i].map) == 2 and tokens[i].map[0] == tokens[i].g_src + (lineno if i < _i_token else 0)))",
            "forall(0, len(tokens), lambda i: implies(tokens[i].g_src < 0, not has_map(tokens[i])))",
        ]),
    },
    properties=["C04", "C05", "C06"],
)


# ---------------------------------------------------------------------------------------------------------------
# MockState.nested_parse (what a docutils directive calls to render its body): C06 - the body is rendered by the same
# renderer into `node`, and nowhere else; C04 - at 0-based source offset  state line + input_offset.
MK = "myst_parser.mocking"
fields(f"{MK}:MockState", _renderer="DocutilsRenderer", _lineno="int", state_machine="MockStateMachine")
fields(f"{MK}:MockStateMachine", match_titles="bool")
contract(
    f"{MK}:MockState.nested_parse",
    requires=["node.kind != 'Text'", "node.kind != 'document' and node.kind != 'section'",
              # (a directive hands its own new node in; in particular not the temporary root of an enclosing match_titles parse)
              "node != self._renderer.md_env.get('temp_root_node', None)",
              "implies(self._renderer.md_env.get('temp_root_node', None) is not None, allocated(self._renderer.md_env.get('temp_root_node', None)))"],
    at_call={
        "self._renderer.nested_render_text(": [
            # the body is rendered with `node` as the current node ...
            "self._renderer.current_node == node",
            # ... as the block's lines joined by newlines, at the 0-based source offset  state line + input_offset
            # (docstring: input_offset is "the offset of the first line of block, to the starting line of the state")
            "_arg0 == '\\n'.join(block)",
            "_arg1 == self._lineno + input_offset",
            # a temporary root (headings allowed) only when the directive asked for titles, and then it is `node`
            "_kw_temp_root_node == (node if match_titles else None)",
        ],
    },
    ensures=[
        "self._renderer.current_node == old(self._renderer.current_node)",
        # without match_titles (no headings as sections) everything the body produced is below `node`: it keeps what it had,
        # every other node that existed keeps its children, parent and kind
        "implies(not match_titles, node.children[: len(old(node.children))] == old(node.children))",
        "implies(not match_titles, forall_obj('Element', lambda e: implies(old(allocated(e)) and e != node, e.children == old(e.children))))",
        "implies(not match_titles, forall_obj('Element', lambda e: implies(old(allocated(e)), e.parent == old(e.parent) and e.kind == old(e.kind))))",
        "self.state_machine.match_titles == old(self.state_machine.match_titles)",
    ],
    types={"block": "list[str]", "node": "Element", "state_machine_class": "None", "state_machine_kwargs": "None"},
    raises={"Exception": []},
    modifies=NRT_MOD + ["self._renderer.current_node", "self.state_machine.match_titles"],
    properties=["C06", "C04"],
)
