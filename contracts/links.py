"""Contracts for the link dispatch and the local-anchor link renderer (C09)."""
from pyvc.spec import assumed, contract, fields, spec, implies, forall, exists  # noqa: F401
from contracts.assumed_docutils import GP_COND, GP_ENS, GP_MOD, GP_TEXT
from contracts.render import KEEP, NEW, REQ, RMOD, M  # noqa: F401  (generic render contract pieces)

fields("docutils.nodes:Element", id_link="bool", refuri="str | None")
fields("myst_parser.config.main:MdParserConfig", commonmark_only="bool", gfm_only="bool", all_links_external="bool",
       url_schemes="dict[str, UrlScheme | None]")
fields("builtins:UrlScheme", _opaque="int")
fields("re:Match", _opaque="int")
fields(f"{M}:DocutilsRenderer", md_config="MdParserConfig", md="MarkdownIt")
fields("markdown_it.tree:SyntaxTreeNode", info="str")

contract(
    "ext:docutils.nodes.reference",
    types={"__params__": []},
    requires=[], ensures=["result.kind == 'reference'", "len(result.children) == 0", "result.parent is None", "result.line is None",
                          "not result.id_link"],
    returns="Element", modifies=["fresh1"], trusted=True,
)
contract(
    "ext:Element.__setitem__",
    types={"__params__": ["self", "key", "value"], "self": "Element", "key": "str"},
    requires=[],
    # the one attribute that matters to C09 is modelled: the flag that marks a reference as a local '#target' link
    ensures=["implies(key == 'id_link', self.id_link)", "implies(key != 'id_link', self.id_link == old(self.id_link))"],
    returns="None", modifies=["self.id_link"], trusted=True,
)
@spec(abstract=True, sig=(["str"], "str"))
def NormLinkText(s):
    """markdown-it's normalizeLinkText: undoes the percent-encoding markdown-it applied to the destination."""
    from markdown_it import MarkdownIt

    return MarkdownIt().normalizeLinkText(s)


contract(
    "ext:MarkdownIt.normalizeLinkText",
    types={"__params__": ["self", "link"], "self": "MarkdownIt", "link": "str"},
    requires=[], ensures=["result == NormLinkText(link)"], returns="str", modifies=[], pure=True, trusted=True,
)
contract(
    "ext:Element.__setitem__[refuri]",
    types={"__params__": ["self", "key", "value"], "self": "Element", "key": "str", "value": "str"},
    requires=[], ensures=["self.refuri == value"], returns="None", modifies=["self.refuri"], trusted=True,
)
contract(
    "ext:SyntaxTreeNode.attrGet",
    types={"__params__": ["self", "name"], "self": "SyntaxTreeNode", "name": "str"},
    requires=[], ensures=["result == (self.attrs[name] if name in self.attrs else None)"],
    returns="str | None", modifies=[], pure=True, trusted=True,
)
assumed("SyntaxTreeNode.attrGet", "token.attrGet(name) is token.attrs.get(name)", "markdown_it.tree")
contract(
    f"ext:{M}.REGEX_SCHEME.match",
    types={"__params__": ["string"], "string": "str"},
    requires=[], ensures=[], returns="Match | None", modifies=["fresh"], trusted=True,
)
contract(
    "ext:Match.group",
    types={"__params__": ["self", "n"], "self": "Match", "n": "int"},
    requires=[], ensures=[], returns="str", modifies=[], pure=True, trusted=True,
)
contract(
    f"{M}:DocutilsRenderer.copy_attributes",
    requires=[],
    ensures=["node.parent == old(node.parent)", "node.kind == old(node.kind)", "node.line == old(node.line)",
             "node.id_link == old(node.id_link)", "node.refuri == old(node.refuri)",
             # (a warning node is appended for a failing converter - these call sites pass none, `converters` is typed None -
             #  and docutils appends a message to `node` when an id attribute clashes with a registered name)
             "node.children[: len(old(node.children))] == old(node.children)",
             # only the new message nodes get a parent
             "forall_obj('Element', lambda e: implies(old(allocated(e)), e.parent == old(e.parent)))"],
    types={"token": "SyntaxTreeNode", "node": "Element", "keys": "tuple[str, ...]", "converters": "None"},
    raises={}, modifies=["node.children", "Document.log", "fresh", "Element.parent"], trusted=True,
)

# the other link renderers: seen through G only (they attach below the current node and restore it)
for _m in ("render_link_url", "render_link_inventory", "render_link_path", "render_link_project", "render_link_unknown"):
    contract(
        f"{M}:DocutilsRenderer.{_m}",
        requires=[], ensures=GP_ENS + ["self.g_link == %r" % _m],
        types={"token": "SyntaxTreeNode", "conversion": "UrlScheme | None"},
        raises={"Exception": []}, modifies=GP_MOD + ["self.g_rc_node", "self.g_link", "Element.id_link", "Element.refuri"], trusted=True,
    )
fields(f"{M}:DocutilsRenderer", g_link="str")  # ghost: which of the other link renderers ran last
assumed("render_link_url / _inventory / _path / _project / _unknown", GP_TEXT, "myst_parser")

ANCHOR = [
    "len(self.current_node.children) == len(old(self.current_node.children)) + 1",
    f"{NEW}.kind == 'reference' and {NEW}.id_link and {NEW}.parent == self.current_node and fresh({NEW})",
    f"implies(token.map is not None and len(token.map) > 0, {NEW}.line == token.map[0])",
]
contract(
    f"{M}:DocutilsRenderer.render_link_anchor",
    requires=REQ,
    # exactly ONE reference node, marked as a local-target link, is attached at the link's own line - never dropped, never
    # duplicated - and the link text (the token's children) is rendered inside it unless the link is an autolink
    ensures=KEEP + ANCHOR + [f"implies(token.info != 'auto', self.g_rc_node == {NEW})",
                             "self.g_link == old(self.g_link)",
                             # the recorded target is the destination as written in the source (percent-encoding undone),
                             # whoever the caller is (render_link, render_link_project)
                             f"{NEW}.refuri == NormLinkText(target)"],
    types={"token": "SyntaxTreeNode"},
    raises={"Exception": []},
    modifies=RMOD + ["Element.id_link", "Element.refuri"],
    properties=["C09", "C02"],
)

IS_ANCHOR = ("not (self.md_config.commonmark_only or self.md_config.gfm_only or self.md_config.all_links_external)"
             " and not ('class' in token.attrs and 'external' in token.attrs['class'].split())"
             " and 'href' in token.attrs and token.attrs['href'].startswith('#')")
contract(
    f"{M}:DocutilsRenderer.render_link",
    # (a link token is inline content: its renderer runs with a non-structural node current)
    requires=REQ + [GP_COND, "self.g_link == ''"],
    ensures=KEEP + [
        # a '#...' destination in MyST mode (and no `external` class) always goes to the local-anchor renderer
        f"implies({IS_ANCHOR}, " + " and ".join(f"({c})" for c in ANCHOR) + " and self.g_link == ''"
        f" and {NEW}.refuri == NormLinkText(token.attrs['href']))",
        # and nothing else does, except a `project:#...` link (render_link_project forwards those itself)
        f"implies(not ({IS_ANCHOR}), self.g_link != '')",
    ],
    types={"token": "SyntaxTreeNode"},
    raises={"Exception": []},
    modifies=RMOD + ["Element.id_link", "Element.refuri", "self.g_link"],
    properties=["C09"],
)


# ---------------------------------------------------------------------------------------------------------------
# `(name)=` block targets: what carries the explicit target that '#name' links resolve to
import contracts.registry  # noqa: F401,E402


@spec(abstract=True, sig=(["str"], "str"))
def FullyNormalizeName(s):
    """docutils.nodes.fully_normalize_name: case-folded, whitespace-normalised reference name."""
    from docutils import nodes

    return nodes.fully_normalize_name(s)


contract(
    "ext:docutils.nodes.fully_normalize_name",
    types={"__params__": ["name"], "name": "str"},
    requires=[], ensures=["result == FullyNormalizeName(name)"], returns="str", modifies=[], pure=True, trusted=True,
)
contract(
    "ext:docutils.nodes.target",
    types={"__params__": ["rawsource"], "rawsource": "str"},
    requires=[], ensures=["result.kind == 'target'", "len(result.children) == 0", "result.parent is None", "result.line is None",
                          "len(result.names) == 0", "not result.id_link", "result.refuri is None"],
    returns="Element", modifies=["fresh1"], trusted=True,
)
LAST = "self.current_node.children[len(self.current_node.children) - 1]"
contract(
    f"{M}:DocutilsRenderer.render_myst_target",
    requires=REQ,
    ensures=KEEP + [
        # the target node is attached LAST (a duplicate name makes docutils put a message in front of it), at the target's own
        # line, and the normalised text is a registered name (the node keeps it in `names`, or in `dupnames` after a clash)
        "len(self.current_node.children) >= len(old(self.current_node.children)) + 1",
        f"{LAST}.kind == 'target' and {LAST}.parent == self.current_node and fresh({LAST})",
        "FullyNormalizeName(token.content) in self.document.nameids",
        "self.document.nameids[: len(old(self.document.nameids))] == old(self.document.nameids)",
        f"implies(token.map is not None and len(token.map) > 0, {LAST}.line == token.map[0])",
    ],
    types={"token": "SyntaxTreeNode"},
    raises={},
    modifies=RMOD + ["Element.names", "Document.nameids", "Element.id_link", "Element.refuri"],
    properties=["C09"],
)
