"""Contracts for myst_parser/parsers/options.py (C07, feeds C01, C08, C17).

Derived from the code and its call sites (shapes, frames, helper preconditions);
the top-level postconditions of `options_to_items` come from the statement of C07:
"on any text it either returns pairs or raises its documented tokenize error carrying
a position inside the text; it never raises a different exception and always terminates".
"""
from pyvc.spec import contract, fields, history, spec, implies, forall  # noqa: F401

M = "myst_parser.parsers.options"

fields(f"{M}:StreamBuffer", _buffer="str", _index="int", _line="int", _column="int")
fields(
    f"{M}:TokenizeError",
    problem="str",
    problem_mark="Position",
    context="str | None",
    context_mark="Position | None",
)


@spec
def sb_inv(s):
    return (
        len(s._buffer) >= 1
        and s._buffer[len(s._buffer) - 1] == "\0"
        and 0 <= s._index
        and s._index <= len(s._buffer) - 1
        and 0 <= s._line
        and s._line <= s._index
        and 0 <= s._column
        and s._column <= s._index
    )


@spec
def cur(s):
    """The character under the cursor."""
    return s._buffer[s._index]


@spec
def is_break(c):
    return c in "\r\n\x85\u2028\u2029"


@spec
def pos_ok(p, n):
    """A Position lies inside a buffer of length n (index n-1 is the end sentinel)."""
    return (
        0 <= p.index
        and p.index <= n - 1
        and 0 <= p.line
        and p.line <= p.index
        and 0 <= p.column
        and p.column <= p.index
    )


@spec
def err_ok(exc, n):
    return pos_ok(exc.problem_mark, n) and implies(
        exc.context_mark is not None, pos_ok(exc.context_mark, n)
    )


@spec
def err_idx_ok(exc, n):
    """After clone() only the character index is still a position in the text
    (line/column are shifted by the caller's offsets)."""
    return (
        0 <= exc.problem_mark.index
        and exc.problem_mark.index <= n - 1
        and implies(
            exc.context_mark is not None,
            0 <= exc.context_mark.index and exc.context_mark.index <= n - 1,
        )
    )


@spec
def rest(s):
    """Termination measure: characters left before the sentinel."""
    return len(s._buffer) - 1 - s._index


# two-state class constraint: proved for every function taking a StreamBuffer,
# assumed at every havoc (loop cut, call)
history(
    f"{M}:StreamBuffer",
    "self._buffer == old(self._buffer)",
    "self._index >= old(self._index)",
    "self._line >= old(self._line)",
)

SB_MOD = ["stream._index", "stream._line", "stream._column", "fresh"]  # positions / tokens / error objects are allocated
ERR = {"TokenizeError": ["err_ok(exc, len(old(stream._buffer)))"]}
P = ["C07", "C01"]

contract(
    f"{M}:StreamBuffer.__init__",
    ensures=[
        r"self._buffer == stream + '\0'",
        "self._index == 0",
        "self._line == 0",
        "self._column == 0",
        "sb_inv(self)",
    ],
    modifies=["self._buffer", "self._index", "self._line", "self._column"],
    properties=P,
)

contract(
    f"{M}:StreamBuffer.peek",
    requires=["sb_inv(self)", "index >= 0", "self._index + index <= len(self._buffer) - 1"],
    ensures=["result == self._buffer[self._index + index]", "len(result) == 1"],
    pure=True,
    properties=P,
)

contract(
    f"{M}:StreamBuffer.prefix",
    requires=["sb_inv(self)", "length >= 0"],
    ensures=[
        "result == self._buffer[self._index : self._index + length]",
        "implies(self._index + length <= len(self._buffer), len(result) == length)",
    ],
    pure=True,
    properties=P,
)

contract(
    f"{M}:StreamBuffer.forward",
    requires=["sb_inv(self)", "length >= 0", "self._index + length <= len(self._buffer) - 1"],
    ensures=[
        "sb_inv(self)",
        "self._index == old(self._index) + length",
        "self._line >= old(self._line)",
        "implies(length == 0, self._line == old(self._line) and self._column == old(self._column))",
    ],
    modifies=["self._index", "self._line", "self._column"],
    loops={
        "while length": dict(
            invariant=[
                "sb_inv(self)",
                "0 <= length",
                "length <= old(length)",
                "self._index == old(self._index) + old(length) - length",
                "implies(length == old(length), self._line == old(self._line) and self._column == old(self._column))",
            ],
            decreases="length",
        )
    },
    properties=P,
)

contract(
    f"{M}:StreamBuffer.get_position",
    requires=["sb_inv(self)"],
    ensures=[
        "result.index == self._index",
        "result.line == self._line",
        "result.column == self._column",
        "fresh(result)",
    ],
    modifies=["fresh"],
    properties=P,
)

contract(
    f"{M}:TokenizeError.clone",
    requires=[],
    ensures=[
        "fresh(result)",
        "result.problem_mark.index == self.problem_mark.index",
        "result.problem_mark.line == self.problem_mark.line + line_offset",
        "result.problem_mark.column == self.problem_mark.column + column_offset",
        "(result.context_mark is None) == (self.context_mark is None)",
        "implies(self.context_mark is not None, result.context_mark.index == self.context_mark.index"
        " and result.context_mark.line == self.context_mark.line + line_offset"
        " and result.context_mark.column == self.context_mark.column + column_offset)",
    ],
    modifies=["fresh"],
    properties=P,
)

# ---------------------------------------------------------------------------
# scanners

contract(
    f"{M}:_scan_line_break",
    requires=["sb_inv(stream)"],
    ensures=[
        "sb_inv(stream)",
        "len(result) <= 1",
        r"implies(old(cur(stream)) in '\r\n\x85', result == '\n')",
        r"implies(old(cur(stream)) in '\u2028\u2029', result == old(cur(stream)))",
        "implies(not is_break(old(cur(stream))), result == '' and stream._index == old(stream._index)"
        " and stream._line == old(stream._line) and stream._column == old(stream._column))",
        r"implies(old(cur(stream)) == '\r' and old(stream._buffer[stream._index + 1]) == '\n',"
        " stream._index == old(stream._index) + 2)",
        r"implies(is_break(old(cur(stream))) and not (old(cur(stream)) == '\r' and old(stream._buffer[stream._index + 1]) == '\n'),"
        " stream._index == old(stream._index) + 1)",
    ],
    modifies=SB_MOD,
    properties=P,
)

contract(
    f"{M}:_scan_to_next_token",
    requires=["sb_inv(stream)"],
    ensures=["sb_inv(stream)", r"cur(stream) not in ' \r\n\x85\u2028\u2029'"],
    modifies=SB_MOD + ["state.has_comments"],
    loops={
        "while not found": dict(
            invariant=[
                "sb_inv(stream)",
                r"implies(found, cur(stream) not in ' \r\n\x85\u2028\u2029')",
            ],
            decreases=("rest(stream)", "0 if found else 1"),
        ),
        "while stream.peek() == ' '": dict(invariant=["sb_inv(stream)"], decreases="rest(stream)"),
        "while stream.peek() not in _CHARS_END_NEWLINE": dict(
            invariant=["sb_inv(stream)"], decreases="rest(stream)"
        ),
    },
    properties=P,
)

LEN_INV = ["length >= 0", "stream._index + length <= len(stream._buffer) - 1"]
LEN_DEC = "rest(stream) - length"

contract(
    f"{M}:_scan_plain_spaces",
    requires=["sb_inv(stream)"],
    ensures=["sb_inv(stream)"],
    modifies=SB_MOD,
    types={"chunks": "list[str]", "breaks": "list[str]"},
    loops={
        "while stream.peek(length) == ' '": dict(invariant=LEN_INV, decreases=LEN_DEC),
        "while stream.peek() in _CHARS_SPACE_NEWLINE": dict(
            invariant=["sb_inv(stream)"], decreases="rest(stream)"
        ),
    },
    properties=P,
)

contract(
    f"{M}:_scan_plain_scalar",
    requires=["sb_inv(stream)"],
    ensures=[
        "sb_inv(stream)",
        "pos_ok(result.start, len(stream._buffer))",
        "pos_ok(result.end, len(stream._buffer))",
        "result.start.index == old(stream._index)",
        "implies(is_key, typeis(result, 'KeyToken'))",
        "implies(not is_key, typeis(result, 'ValueToken'))",
    ],
    modifies=SB_MOD + ["state.has_comments"],
    types={"chunks": "list[str]"},
    loops={
        "while True#1": dict(
            invariant=["sb_inv(stream)", "pos_ok(end_mark, len(stream._buffer))"],
            decreases="rest(stream)",
        ),
        "while True#2": dict(invariant=LEN_INV, decreases=LEN_DEC),
    },
    properties=P,
)

contract(
    f"{M}:_scan_flow_scalar",
    requires=["sb_inv(stream)", "cur(stream) == style", """style == "'" or style == '"' """.strip()],
    ensures=[
        "sb_inv(stream)",
        "stream._index > old(stream._index)",
        "pos_ok(result.start, len(stream._buffer))",
        "pos_ok(result.end, len(stream._buffer))",
        "implies(is_key, typeis(result, 'KeyToken'))",
        "implies(not is_key, typeis(result, 'ValueToken'))",
    ],
    raises=ERR,
    modifies=SB_MOD,
    types={"chunks": "list[str]"},
    loops={
        "while stream.peek() != quote": dict(
            invariant=[
                "sb_inv(stream)",
                "stream._index > old(stream._index)",
                r"cur(stream) == quote or cur(stream) in '\0 \t\r\n\x85\u2028\u2029'",
            ],
            decreases="rest(stream)",
        )
    },
    properties=P,
)

contract(
    f"{M}:_scan_flow_scalar_non_spaces",
    requires=["sb_inv(stream)", "pos_ok(start_mark, len(stream._buffer))"],
    ensures=[
        "sb_inv(stream)",
        r"""cur(stream) in '\0 \t\r\n\x85\u2028\u2029' or cur(stream) == ('"' if double else "'")""",
    ],
    raises=ERR,
    modifies=SB_MOD,
    types={"chunks": "list[str]"},
    loops={
        "while True": dict(invariant=["sb_inv(stream)"], decreases="rest(stream)"),
        "while stream.peek(length) not in": dict(invariant=LEN_INV, decreases=LEN_DEC),
    },
    properties=P,
)

contract(
    f"{M}:_scan_flow_scalar_spaces",
    requires=[
        "sb_inv(stream)",
        "pos_ok(start_mark, len(stream._buffer))",
        r"cur(stream) in '\0 \t\r\n\x85\u2028\u2029'",
    ],
    ensures=["sb_inv(stream)", "stream._index > old(stream._index)"],
    raises=ERR,
    modifies=SB_MOD,
    types={"chunks": "list[str]"},
    loops={"while stream.peek(length) in": dict(invariant=LEN_INV, decreases=LEN_DEC)},
    properties=P,
)

contract(
    f"{M}:_scan_flow_scalar_breaks",
    requires=["sb_inv(stream)"],
    ensures=["sb_inv(stream)"],
    modifies=SB_MOD,
    types={"chunks": "list[str]"},
    loops={
        "while True": dict(invariant=["sb_inv(stream)"], decreases="rest(stream)"),
        "while stream.peek() in ' \\t'": dict(invariant=["sb_inv(stream)"], decreases="rest(stream)"),
    },
    properties=P,
)

contract(
    f"{M}:_scan_block_scalar",
    requires=["sb_inv(stream)", "cur(stream) == style", "style == '|' or style == '>'"],
    ensures=[
        "sb_inv(stream)",
        "stream._index > old(stream._index)",
        "pos_ok(result.start, len(stream._buffer))",
        "pos_ok(result.end, len(stream._buffer))",
        "typeis(result, 'ValueToken')",
    ],
    raises=ERR,
    modifies=SB_MOD + ["state.has_comments"],
    types={"chunks": "list[str]", "breaks": "list[str]"},
    loops={
        "while stream.column == indent and": dict(
            invariant=[
                "sb_inv(stream)",
                "pos_ok(end_mark, len(stream._buffer))",
                "stream._index > old(stream._index)",
            ],
            decreases="rest(stream)",
        ),
        "while stream.peek(length) not in _CHARS_END_NEWLINE": dict(invariant=LEN_INV, decreases=LEN_DEC),
    },
    properties=P,
)

contract(
    f"{M}:_scan_block_scalar_indicators",
    requires=["sb_inv(stream)", "pos_ok(start_mark, len(stream._buffer))"],
    ensures=[
        "sb_inv(stream)",
        r"cur(stream) in '\0 \r\n\x85\u2028\u2029'",
        "implies(result[1] is not None, result[1] >= 1 and result[1] <= 9)",
        # YAML 1.2 §8.1.1: header = [+-]?[1-9]? | [1-9]?[+-]?
        "(result[0] is None) == (old(cur(stream)) not in '+-' and not (old(cur(stream)) in '123456789'"
        " and old(stream._buffer[stream._index + 1]) in '+-'))",
        "implies(old(cur(stream)) == '+', result[0] == True)",
        "implies(old(cur(stream)) == '-', result[0] == False)",
        "implies(old(cur(stream)) in '123456789', result[1] == int(old(cur(stream))))",
        "implies(old(cur(stream)) in '+-' and old(stream._buffer[stream._index + 1]) in '123456789',"
        " result[1] == int(old(stream._buffer[stream._index + 1])))",
        "implies(old(cur(stream)) not in '+-0123456789', result[1] is None and stream._index == old(stream._index))",
    ],
    raises=ERR,
    modifies=SB_MOD,
    properties=P,
)

contract(
    f"{M}:_scan_block_scalar_ignored_line",
    requires=["sb_inv(stream)", "pos_ok(start_mark, len(stream._buffer))"],
    ensures=["sb_inv(stream)"],
    raises=ERR,
    modifies=SB_MOD + ["state.has_comments"],
    loops={
        "while stream.peek() == ' '": dict(invariant=["sb_inv(stream)"], decreases="rest(stream)"),
        "while stream.peek() not in _CHARS_END_NEWLINE": dict(
            invariant=["sb_inv(stream)"], decreases="rest(stream)"
        ),
    },
    properties=P,
)

contract(
    f"{M}:_scan_block_scalar_indentation",
    requires=["sb_inv(stream)"],
    ensures=[
        "sb_inv(stream)",
        "result[1] >= 0",
        "pos_ok(result[2], len(stream._buffer))",
    ],
    modifies=SB_MOD,
    types={"chunks": "list[str]"},
    loops={
        "while stream.peek() in _CHARS_SPACE_NEWLINE": dict(
            invariant=["sb_inv(stream)", "max_indent >= 0", "pos_ok(end_mark, len(stream._buffer))"],
            decreases="rest(stream)",
        )
    },
    properties=P,
)

contract(
    f"{M}:_scan_block_scalar_breaks",
    requires=["sb_inv(stream)"],
    ensures=["sb_inv(stream)", "pos_ok(result[1], len(stream._buffer))"],
    modifies=SB_MOD,
    types={"chunks": "list[str]"},
    loops={
        "while stream.column < indent and stream.peek() == ' '#1": dict(
            invariant=["sb_inv(stream)"], decreases="rest(stream)"
        ),
        "while stream.peek() in _CHARS_NEWLINE": dict(
            invariant=["sb_inv(stream)", "pos_ok(end_mark, len(stream._buffer))"],
            decreases="rest(stream)",
        ),
        "while stream.column < indent and stream.peek() == ' '#2": dict(
            invariant=["sb_inv(stream)"], decreases="rest(stream)"
        ),
    },
    properties=P,
)

# ---------------------------------------------------------------------------
# token stream and the public entry point

contract(
    f"{M}:_tokenize",
    requires=[],
    # every token handed on carries positions inside the text (index len(text) = end of text)
    ensures=["forall(0, len(result), lambda i: pos_ok(result[i].start, len(text) + 1))"],
    raises={"TokenizeError": ["err_ok(exc, len(text) + 1)"]},
    modifies=["state.has_comments", "fresh"],
    loops={
        "while True": dict(
            invariant=[
                "sb_inv(stream)",
                r"stream._buffer == text + '\0'",
                "forall(0, len(_yielded), lambda i: pos_ok(_yielded[i].start, len(text) + 1))",
            ],
            decreases="rest(stream)",
        )
    },
    properties=P,
)

contract(
    f"{M}:_to_tokens",
    requires=[],
    ensures=[],
    raises={"TokenizeError": ["err_idx_ok(exc, len(text) + 1)"]},
    modifies=["state.has_comments", "fresh"],
    loops={"for token in _tokenize(text, state)": dict(invariant=[])},
    properties=P,
)

contract(
    f"{M}:options_to_items",
    requires=[],
    # C07, second sentence: returns pairs, or raises TokenizeError whose position lies inside
    # the text (index len(text) is the end-of-text position); nothing else; terminates.
    ensures=["len(result[0]) >= 0"],
    raises={
        "TokenizeError": [
            "0 <= exc.problem_mark.index and exc.problem_mark.index <= len(text)",
            "implies(exc.context_mark is not None, 0 <= exc.context_mark.index and exc.context_mark.index <= len(text))",
        ]
    },
    modifies=["fresh"],
    types={"output": "list[tuple[str, str]]"},
    loops={"for (key_token, value_token) in _to_tokens": dict(invariant=[])},
    properties=P,
)
