"""Contracts for myst_parser/parsers/parse_html.py (C16): the tree builder (Tree), the element mutators and the
HTMLParser handlers.  The stdlib HTMLParser itself (which events it produces) is an assumed contract."""
from pyvc.spec import assumed, contract, fields, history, spec, implies, forall, exists  # noqa: F401


def forall_obj(cls, f):  # run-time stub (the quantifier over all allocated objects is spec-only)
    return True


def allocated(x):
    return True

M = "myst_parser.parsers.parse_html"

fields(f"{M}:Element", name="str", attrs="Attrs", _parent="Element | None", _children="list[Element]")
fields(f"{M}:TerminalElement", data="str")
fields(f"{M}:Tree", name="str", outmost="Element", stack="list[Element]")
fields(f"{M}:HtmlToAst", struct="Tree")
# Attribute (a dict subclass) stays opaque; `_truthy` / `_str` are ghost fields standing for bool(attrs) (non-empty) and str(attrs)
fields("builtins:Attrs", _opaque="int", _truthy="bool", _str="str")
fields("builtins:TerminalClass", _opaque="int")
fields("builtins:Overrides", _opaque="int")  # dict[str, Callable]: only `name in overrides` is modelled (opaque, pure)


@spec
def T_inv(t):
    """The open-element stack is never empty and its bottom is the root."""
    return len(t.stack) >= 1 and t.stack[0] == t.outmost and t.outmost.name == t.name


@spec
def WF():
    """Tree consistency: every child's parent is the element that contains it (and children are allocated elements)."""
    return forall_obj("Element", lambda e: forall(0, len(e._children), lambda k: allocated(e._children[k]) and e._children[k]._parent == e))


# ---- assumed: constructors of the element classes (Element.__init__ reads `Attribute(attr or {})`, a dict subclass)
for cls in ("Tag", "XTag", "VoidTag", "Root"):
    contract(
        f"ext:{M}.new_{cls}",
        types={"__params__": ["name"]},
        returns="Element",
        trusted=True,
    )
contract(
    f"{M}:Element.__init__",
    ensures=["self.name == name", "self._parent is None", "len(self._children) == 0"],
    modifies=["self.name", "self.attrs", "self._parent", "self._children"],
    types={"attr": "Attrs | None"},
    trusted=True,
)
assumed("Element.__init__", "a new element has the given name, no parent and no children (body builds `Attribute(attr or {})`, a dict subclass, not modelled)", "parse_html")
# abc.MutableSequence.append(x) is `self.insert(len(self), x)` (stdlib mixin): same contract as insert at the end
contract(
    "ext:Element.append",
    types={"__params__": ["self", "item"], "self": "Element", "item": "Element"},
    requires=["item._parent is None or item._parent == self"],
    ensures=["self._children == old(self._children) + [item]", "item._parent == self"],  # (= Element.insert at the end)
    modifies=["self._children", "item._parent"],
    trusted=True,
)
assumed("MutableSequence.append", "abc.MutableSequence.append(x) == self.insert(len(self), x); Element.insert is under contract", "stdlib abc")
contract(
    "ext:TerminalClass.__call__",
    types={"__params__": ["self", "data"], "self": "TerminalClass", "data": "str"},
    returns="Element",
    ensures=["fresh(result)", "result._parent is None", "len(result._children) == 0", "result.name == ''"],
    modifies=["fresh1"],  # allocates exactly one object: the new terminal element
    trusted=True,
)
contract(
    "ext:collections.deque",
    types={"__params__": []},
    returns="list[Element]",
    ensures=["len(result) == 0"],
    pure=True,
    trusted=True,
)
assumed("collections.deque", "modelled as a list: append / pop() / clear() / [-1] / reversed()", "stdlib")

# ---- Element mutators -------------------------------------------------------------------------------------------
contract(
    f"{M}:Element.insert",
    requires=["WF()"],
    # a child's parent is the element that contains it; an element that already belongs elsewhere is refused
    ensures=[
        "WF()",
        "item._parent == self",
        "len(self._children) == len(old(self._children)) + 1",
        "implies(index >= len(old(self._children)), self._children == old(self._children) + [item])",
        "implies(index == 0, self._children == [item] + old(self._children))",
        "item in self._children",
    ],
    raises={"AssertionError": ["old(item._parent) is not None and old(item._parent) != self"]},
    modifies=["self._children", "item._parent"],
    properties=["C16"],
)
contract(
    f"{M}:Element.__setitem__",
    requires=[],
    ensures=["item._parent == self", "len(self._children) == len(old(self._children))", "self._children[index] == item"],
    raises={"AssertionError": ["old(item._parent) is not None and old(item._parent) != self"], "IndexError": []},
    modifies=["self._children", "item._parent"],
    properties=["C16"],
)
contract(
    f"{M}:Element.__getitem__",
    requires=[],
    ensures=["result == self._children[index]"],
    raises={"IndexError": []},
    pure=True,
    properties=["C16"],
)
contract(
    f"{M}:Element.__len__",
    ensures=["result == len(self._children)"],
    pure=True,
    properties=["C16"],
)

# ---- Tree ---------------------------------------------------------------------------------------------------------
TMOD = ["self.stack", "Element._children", "Element._parent"]
contract(
    f"{M}:Tree.last",
    requires=["T_inv(self)"],
    ensures=["result == self.stack[len(self.stack) - 1]"],
    pure=True,
    properties=["C16"],
)
contract(
    f"{M}:Tree.clear",
    ensures=["T_inv(self)", "len(self.stack) == 1", "fresh(self.outmost)", "len(self.outmost._children) == 0"],
    modifies=["self.outmost", "self.stack", "fresh"],
    properties=["C16"],
)
contract(
    f"{M}:Tree.nest_tag",
    requires=["T_inv(self)", "WF()"],
    # one fresh element is appended to the innermost open element and becomes the innermost open element
    ensures=[
        "T_inv(self)",
        "WF()",
        "len(self.stack) == len(old(self.stack)) + 1",
        "self.stack[: len(old(self.stack))] == old(self.stack)",
        "fresh(self.stack[len(self.stack) - 1])",
        "self.stack[len(self.stack) - 1]._parent == old(self.stack)[len(old(self.stack)) - 1]",
        "old(self.stack)[len(old(self.stack)) - 1]._children"
        " == old(old(self.stack)[len(old(self.stack)) - 1]._children) + [self.stack[len(self.stack) - 1]]",
    ],
    modifies=TMOD + ["fresh"],
    types={"attrs": "Attrs"},
    properties=["C16"],
)
for meth in ("nest_xtag", "nest_vtag"):
    contract(
        f"{M}:Tree.{meth}",
        requires=["T_inv(self)", "WF()"],
        ensures=[
            "T_inv(self)",
            "WF()",
            "self.stack == old(self.stack)",
            "len(self.stack[len(self.stack) - 1]._children) == len(old(self.stack[len(self.stack) - 1]._children)) + 1",
            "self.stack[len(self.stack) - 1]._children[: len(old(self.stack[len(self.stack) - 1]._children))]"
            " == old(self.stack[len(self.stack) - 1]._children)",
        ],
        modifies=["Element._children", "Element._parent", "fresh"],
        types={"attrs": "Attrs"},
        properties=["C16"],
    )
contract(
    f"{M}:Tree.nest_terminal",
    requires=["T_inv(self)", "WF()"],
    ensures=[
        "T_inv(self)",
        "WF()",
        "self.stack == old(self.stack)",
        "len(self.stack[len(self.stack) - 1]._children) == len(old(self.stack[len(self.stack) - 1]._children)) + 1",
    ],
    modifies=["Element._children", "Element._parent", "fresh"],
    types={"klass": "TerminalClass"},
    properties=["C16"],
)
contract(
    f"{M}:Tree.enclose",
    # end-tag names are never the root's name (the default root name is '' and HTMLParser reports non-empty tag names)
    requires=["T_inv(self)", "name != self.name"],
    ensures=[
        "T_inv(self)",
        # the stack is cut just before the LAST open element with that name, or left alone when there is none
        "len(self.stack) <= len(old(self.stack))",
        "self.stack == old(self.stack)[: len(self.stack)]",
        "implies(len(self.stack) < len(old(self.stack)), old(self.stack)[len(self.stack)].name == name)",
        "forall(len(self.stack) + 1, len(old(self.stack)), lambda k: old(self.stack)[k].name != name)",
        # (counting from the top of the stack, as the code does)
        "implies(len(self.stack) == len(old(self.stack)),"
        " forall(0, len(old(self.stack)), lambda k: old(self.stack)[len(old(self.stack)) - 1 - k].name != name))",
    ],
    modifies=["self.stack"],
    loops={
        "for ind in reversed(self.stack)": dict(
            invariant=[
                "count == _i_ind",
                "forall(0, _i_ind, lambda k: _seq_ind[k].name != name)",
                "forall(0, _i_ind, lambda k: self.stack[len(self.stack) - 1 - k].name != name)",
                "len(_seq_ind) == len(self.stack)",
                "forall(0, len(self.stack), lambda k: _seq_ind[k] == self.stack[len(self.stack) - 1 - k])",
                "self.stack == old(self.stack)",
            ],
        ),
        "for _ in range(count)": dict(
            invariant=[
                "len(self.stack) == len(old(self.stack)) - _i__",
                "self.stack == old(self.stack)[: len(self.stack)]",
                "count <= len(old(self.stack))",
            ],
        ),
    },
    properties=["C16"],
)

# ---- HTMLParser handlers: total under the tree invariant ------------------------------------------------------------
HREQ = ["T_inv(self.struct)", "WF()"]
HENS = ["T_inv(self.struct)", "WF()", "self.struct == old(self.struct)"]
HMOD = ["self.struct.stack", "Element._children", "Element._parent", "fresh"]
# the elements that never have content (HTML's void elements, with the legacy `param`): C16's round trip writes `<br>` back as
# `<br>` only because the parser does not open a scope for them
VOIDS = "('area', 'base', 'br', 'col', 'embed', 'hr', 'img', 'input', 'link', 'meta', 'param', 'source', 'track', 'wbr')"
HEXTRA = {
    # a void element opens no scope; every other start tag opens exactly one
    "handle_starttag": [f"implies(name in {VOIDS}, self.struct.stack == old(self.struct.stack))",
                        f"implies(name not in {VOIDS}, len(self.struct.stack) == len(old(self.struct.stack)) + 1"
                        " and self.struct.stack[: len(old(self.struct.stack))] == old(self.struct.stack))"],
    "handle_startendtag": ["self.struct.stack == old(self.struct.stack)"],
}
for h, extra in (
    ("handle_starttag", {"attr": "Attrs"}),
    ("handle_startendtag", {"attr": "Attrs"}),
    ("handle_data", {}), ("handle_decl", {}), ("unknown_decl", {}), ("handle_charref", {}), ("handle_entityref", {}),
    ("handle_pi", {}), ("handle_comment", {}),
):
    contract(
        f"{M}:HtmlToAst.{h}",
        requires=HREQ,
        ensures=HENS + ["len(self.struct.stack) >= len(old(self.struct.stack))"] + HEXTRA.get(h, []),
        raises={},  # no exception may escape a handler, for any string argument
        modifies=HMOD,
        types=extra,
        properties=["C16", "C01"],
    )
contract(
    f"{M}:HtmlToAst.handle_endtag",
    # HTMLParser reports non-empty tag names; the root of tokenize_html(text) is named ''
    requires=HREQ + ["len(name) > 0", "self.struct.name == ''"],
    ensures=HENS + ["len(self.struct.stack) <= len(old(self.struct.stack))"],
    raises={},
    modifies=["self.struct.stack"],
    properties=["C16", "C01"],
)
assumed("HTMLParser events", "html.parser.HTMLParser.feed calls the handle_* methods with str arguments, end-tag names non-empty; "
        "it may itself raise AssertionError on '<![' (known finding C16-marked-section)", "CPython 3.12.1")

# ---- rendering of the terminal elements: each reproduces the source form of its event (round trip per event) ----------
for cls, pre, post in (("Data", "", ""), ("Declaration", "<!", ">"), ("Comment", "<!--", "-->"), ("Pi", "<?", ">"), ("Char", "&#", ";"), ("Entity", "&", ";")):
    contract(
        f"{M}:{cls}.render",
        ensures=[f"result == {pre!r} + self.data + {post!r}"],
        pure=True,
        returns="str",
        properties=["C16"],
    )

# the void tag: `<name>`, with ` ` + str(attrs) after the name exactly when there are attributes
# (Attribute.__str__ itself - a generator over a dict subclass - is not under contract: str(attrs) is its ghost view)
contract(
    f"{M}:VoidTag.render",
    ensures=["result == '<' + self.name + (' ' if self.attrs else '') + str(self.attrs) + '>'"],
    pure=True, returns="str", properties=["C16"],
)
# the self-closing tag, for the call without overrides (the round trip's call; `tag_overrides[name](self, tag_overrides)` - a
# mapping of callables - is outside the engine, so the contract is stated for `tag_overrides is None` only)
contract(
    "ext:Overrides.__contains__",
    types={"__params__": ["self", "key"], "self": "Overrides", "key": "str"},
    returns="bool", pure=True, trusted=True,
)
contract(
    f"{M}:XTag.render",
    requires=["tag_overrides is None"],
    ensures=["result == '<' + self.name + (' ' if self.attrs else '') + str(self.attrs) + '/>'"],
    pure=True, returns="str", types={"tag_overrides": "Overrides | None"}, properties=["C16"],
)

# ---- reset_children: replace the child list, claiming the parentless items (used by strip) -------------------------------
contract(
    f"{M}:Element.deepcopy",
    requires=["WF()"],
    ensures=["WF()", "fresh(result)", "result._parent is None", "result.name == self.name"],
    returns="Element", modifies=["fresh"], trusted=True,
)
assumed("Element.deepcopy", "returns a new parentless copy of the sub-tree and leaves existing elements alone (recursive; bounded check only)", "parse_html")
contract(
    f"{M}:Element.reset_children",
    requires=["WF()", "forall(0, len(children), lambda i: allocated(children[i]))"],
    ensures=[
        "WF()",
        # without copying, the new child list IS the given list, and every item now belongs to this element
        "implies(not deepcopy, self._children == children)",
        "len(self._children) == len(children)",
        "forall(0, len(self._children), lambda k: self._children[k]._parent == self)",
        # no other element's child list changes
        "forall_obj('Element', lambda e: implies(e != self and old(allocated(e)), e._children == old(e._children)))",
    ],
    # an item that already belongs to another element is refused (nothing is taken away from another tree)
    raises={"AssertionError": []},
    modifies=["self._children", "Element._parent", "fresh"],
    types={"new_children": "list[Element]", "children": "list[Element]"},
    loops={
        "for (i, item) in enumerate(children)": dict(invariant=[
            "WF()",
            "len(new_children) == _i_i",
            "forall(0, _i_i, lambda k: new_children[k]._parent == self and allocated(new_children[k]))",
            "implies(not deepcopy, new_children == children[:_i_i])",
            "self._children == old(self._children)",
            "forall_obj('Element', lambda e: implies(old(allocated(e)), e._children == old(e._children)))",
        ]),
    },
    properties=["C16"],
)
