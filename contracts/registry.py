"""The explicit-name registry of a docutils document, as far as the renderers under contract use it (C09, C11)."""
from pyvc.spec import assumed, contract, fields, spec, implies, forall, exists  # noqa: F401
import contracts.assumed_docutils  # noqa: F401

fields("docutils.nodes:Document", nameids="list[str]")  # (the registered names, in registration order)
fields("docutils.nodes:Element", names="list[str]")

contract(
    "ext:Element.__getitem__[names]",
    types={"__params__": ["self", "key"], "self": "Element", "key": "str"},
    requires=[], ensures=["result == self.names"], returns="list[str]", modifies=[], pure=True, trusted=True,
)
contract(
    "ext:Element.__item_append__[names]",
    types={"__params__": ["self", "key", "value"], "self": "Element", "key": "str", "value": "str"},
    requires=[], ensures=["self.names == old(self.names) + [value]"], returns="None", modifies=["self.names"], trusted=True,
)
contract(
    "ext:Document.note_explicit_target",
    types={"__params__": ["self", "target", "msgnode"], "self": "Document", "target": "Element", "msgnode": "Element"},
    requires=[],
    # registers the target's names; on a clash docutils reports it: a system_message is appended to `msgnode` (found by
    # run-time monitoring: the first version of this contract left msgnode alone and render_myst_target's "exactly one new
    # child" fired on a document with a duplicate target name) - either way earlier names stay registered
    # (the names the target HAD: on a clash docutils moves the name from the node's `names` to its `dupnames`, and may do the same
    #  to the node that held the name before - but the name stays a key of document.nameids)
    ensures=["forall(0, len(old(target.names)), lambda i: old(target.names)[i] in self.nameids)",
             "implies(len(old(target.names)) >= 1, old(target.names)[len(old(target.names)) - 1] in self.nameids)",
             "self.nameids[: len(old(self.nameids))] == old(self.nameids)",
             "msgnode.children[: len(old(msgnode.children))] == old(msgnode.children)",
             "forall_obj('Element', lambda e: implies(old(allocated(e)), e.parent == old(e.parent) and e.kind == old(e.kind) and e.line == old(e.line)))"],
    returns="None", modifies=["self.nameids", "Document.log", "msgnode.children", "Element.parent", "Element.kind", "Element.line", "Element.names", "fresh"], trusted=True,
)
assumed("docutils explicit names", "node['names'] is the node's name list; document.note_explicit_target(node, ...) registers those names "
        "(a clash makes docutils report and rename - either way earlier names stay registered)", "docutils.nodes")
