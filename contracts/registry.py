"""The explicit-name registry of a docutils document, as far as the renderers under contract use it (C09, C11)."""
from pyvc.spec import assumed, contract, fields, spec, implies, forall, exists  # noqa: F401
import contracts.assumed_docutils  # noqa: F401

fields("docutils.nodes:Document", nameids="list[str]")  # (the registered names, in registration order)
fields("docutils.nodes:Element", names="list[str]")

contract(
    "ext:Element.__getitem__[names]",
    types={"__params__": ["self", "key"], "self": "Element", "key": "str"},
    requires=[], ensures=["result == self.names"], returns="list[str]", modifies=[], pure=True, trusted=True,
)
contract(
    "ext:Element.__item_append__[names]",
    types={"__params__": ["self", "key", "value"], "self": "Element", "key": "str", "value": "str"},
    requires=[], ensures=["self.names == old(self.names) + [value]"], returns="None", modifies=["self.names"], trusted=True,
)
contract(
    "ext:Document.note_explicit_target",
    types={"__params__": ["self", "target", "msgnode"], "self": "Document", "target": "Element", "msgnode": "Element"},
    requires=[],
    # registers the target's names (a clash makes docutils report and rename - either way earlier names stay registered)
    ensures=["forall(0, len(target.names), lambda i: target.names[i] in self.nameids)",
             "implies(len(target.names) == 1, target.names[0] in self.nameids)",
             "self.nameids[: len(old(self.nameids))] == old(self.nameids)"],
    returns="None", modifies=["self.nameids", "Document.log"], trusted=True,
)
assumed("docutils explicit names", "node['names'] is the node's name list; document.note_explicit_target(node, ...) registers those names "
        "(a clash makes docutils report and rename - either way earlier names stay registered)", "docutils.nodes")
