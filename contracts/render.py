"""The generic render contract G for the render_* methods that only build and attach nodes (C02, C03).

G(render_x)(self, token):  the method appends below the current node only, and puts the current node back:
  (a) self.current_node is the same node afterwards;
  (b) what that node already had is kept, in order (new output comes after it);
  (c) a container method attaches exactly ONE new node of its kind there - parent set, line = the token's line - and renders
      the token's children INSIDE it (render_children is called while that node is the current node);
  (d) a leaf method attaches exactly its leaf nodes, with the token's content verbatim.
render_children - dynamic dispatch over the children - is seen through the assumed contract G' (the induction hypothesis:
it appends below the current node only and restores it); it is justified by G for the methods proved here and assumed for
the others (headings, directives, targets ... re-root or register nodes elsewhere).
"""
from pyvc.spec import assumed, contract, fields, spec, implies, forall, exists  # noqa: F401
from contracts.assumed_docutils import GP_COND, GP_ENS, GP_MOD, GP_REQ, GP_TEXT
import contracts.lines  # noqa: F401  (token_line / add_line_and_source_path are proved there)
import contracts.sections  # noqa: F401  (create_warning as a record in the document's log)

M = "myst_parser.mdit_to_docutils.base"
fields("markdown_it.tree:SyntaxTreeNode", children="list[SyntaxTreeNode]", content="str", markup="str", attrs="dict[str, str]")
# ghost: the current node at the time render_children was last entered
fields(f"{M}:DocutilsRenderer", g_rc_node="Element")

KINDS = ["paragraph", "bullet_list", "enumerated_list", "list_item", "emphasis", "strong", "block_quote", "transition", "literal", "inline",
         "attribution"]
for k in KINDS:
    contract(
        f"ext:docutils.nodes.{k}",
        types={"__params__": ["rawsource", "text", "enumtype", "prefix"], "rawsource": "str", "text": "str", "enumtype": "str", "prefix": "str",
               "__default__rawsource": "''", "__default__text": "''", "__default__enumtype": "''", "__default__prefix": "''"},
        requires=[],
        ensures=[f"result.kind == {k!r}", "len(result.children) == 0", "result.parent is None", "result.line is None",
                 "result.text == text"],
        returns="Element", modifies=["fresh1"], trusted=True,
    )
for k in ("math", "math_block"):
    contract(
        f"ext:docutils.nodes.{k}",
        types={"__params__": ["rawsource", "text", "nowrap", "number"], "rawsource": "str", "text": "str", "nowrap": "bool", "number": "None",
               "__default__nowrap": "False", "__default__number": "None"},
        requires=[],
        ensures=[f"result.kind == {k!r}", "len(result.children) == 0", "result.parent is None", "result.line is None", "result.text == text"],
        returns="Element", modifies=["fresh1"], trusted=True,
    )
contract(
    "ext:docutils.nodes.Text",
    types={"__params__": ["data"], "data": "str"},
    requires=[], ensures=["result.kind == 'Text'", "result.text == data", "len(result.children) == 0", "result.parent is None"],
    returns="Element", modifies=["fresh1"], trusted=True,
)
contract(
    "ext:docutils.nodes.raw",
    types={"__params__": ["rawsource", "text", "format"], "rawsource": "str", "text": "str", "format": "str"},
    requires=[], ensures=["result.kind == 'raw'", "result.text == text", "result.format == format", "len(result.children) == 0",
                          "result.parent is None"],
    returns="Element", modifies=["fresh1"], trusted=True,
)
assumed("docutils node constructors", "nodes.<kind>(...) is a new, parentless, childless node of that kind; Text / raw / literal carry their text",
        "docutils.nodes")
contract(
    "ext:Element.__setitem__",
    types={"__params__": ["self", "key", "value"], "self": "Element", "key": "str", "value": "str"},
    requires=[], ensures=[], returns="None", modifies=[], trusted=True,
)
assumed("Element.__setitem__", "node[key] = value sets an attribute; attributes are not part of the node model (parent / children / line / kind / text)",
        "docutils.nodes")

contract(
    f"{M}:DocutilsRenderer.copy_attributes",
    requires=[],
    # copies attributes (not modelled); nothing of the modelled tree changes
    ensures=["node.parent == old(node.parent)", "node.kind == old(node.kind)", "node.line == old(node.line)",
             # (a warning node is appended for a failing converter - these call sites pass none, `converters` is typed None -
             #  and docutils appends a message to `node` when an id attribute clashes with a registered name)
             "node.children[: len(old(node.children))] == old(node.children)",
             # only the new message nodes get a parent
             "forall_obj('Element', lambda e: implies(old(allocated(e)), e.parent == old(e.parent)))"],
    types={"token": "SyntaxTreeNode", "node": "Element", "keys": "tuple[str, ...]", "converters": "None"},
    raises={}, modifies=["node.children", "Document.log", "fresh", "Element.parent"], trusted=True,
)
assumed("DocutilsRenderer.copy_attributes", "copies class / id / other attributes (not modelled); it only ever appends to the node's children "
        "(a message on an id clash or a failing converter) and changes no parent", "myst_parser")

# G' (contracts/assumed_docutils.py) for the dynamic dispatch over the children, plus the ghost that records where it ran
contract(
    f"{M}:DocutilsRenderer.render_children",
    requires=[],
    ensures=GP_ENS + ["self.g_rc_node == old(self.current_node)",
                      # the warning log only grows
                      "self.document.log[: len(old(self.document.log))] == old(self.document.log)"],
    types={"token": "SyntaxTreeNode"},
    raises={"Exception": []},
    modifies=GP_MOD + ["self.g_rc_node"],
    trusted=True,
)
assumed("DocutilsRenderer.render_children (G')", GP_TEXT + "; warnings are only ever appended to the log", "myst_parser")

RMOD = ["Element.children", "Element.parent", "Element.line", "Element.source", "Element.kind", "Element.text", "Element.format",
        "Document.log", "self.g_rc_node", "DocutilsRenderer.current_node", "fresh"]
REQ = ["self.current_node.kind != 'Text'"] + GP_REQ
KEEP = [
    "self.current_node == old(self.current_node)",                                                        # (a)
    "self.current_node.children[: len(old(self.current_node.children))] == old(self.current_node.children)",  # (b)
]
NEW = "self.current_node.children[len(old(self.current_node.children))]"


def container(method, kind, line=True):
    contract(
        f"{M}:DocutilsRenderer.{method}",
        requires=REQ,
        ensures=KEEP + [
            "len(self.current_node.children) == len(old(self.current_node.children)) + 1",                 # (c) exactly one new node
            f"{NEW}.kind == {kind!r} and {NEW}.parent == self.current_node and fresh({NEW})",
            f"self.g_rc_node == {NEW}",                                                                    # children rendered inside it
        ] + ([f"implies(token.map is not None and len(token.map) > 0, {NEW}.line == token.map[0])"] if line else []),
        types={"token": "SyntaxTreeNode"},
        raises={"Exception": []},
        modifies=RMOD,
        properties=["C02", "C03"],
    )


container("render_paragraph", "paragraph")
container("render_bullet_list", "bullet_list")
# (render_ordered_list: `{...}.get(str(...), style)` on a dict literal is outside the subset)
container("render_list_item", "list_item")
container("render_em", "emphasis")
container("render_strong", "strong")

container("render_span", "inline")
# a block quote: its content is rendered inside the new node
from contracts.lines import NRT_MOD  # noqa: E402

contract(
    f"{M}:DocutilsRenderer.render_blockquote",
    # (the attribution of the attrs_block extension - a nested inline render inside the quote - verifies too, but only through
    #  the command-line portfolio after 40 s: kept out of the contract so that the verdict never depends on a slow query)
    requires=REQ + ["'attribution' not in token.attrs"],
    ensures=KEEP + [
        "len(self.current_node.children) == len(old(self.current_node.children)) + 1",
        f"{NEW}.kind == 'block_quote' and {NEW}.parent == self.current_node and fresh({NEW})",
        f"implies(token.map is not None and len(token.map) > 0, {NEW}.line == token.map[0])",
    ],
    types={"token": "SyntaxTreeNode"},
    raises={"Exception": []},
    modifies=sorted(set(RMOD + NRT_MOD)),
    properties=["C02", "C03"],
)
for _m, _k in (("render_math_inline", "math"), ("render_math_single", "math"), ("render_math_inline_double", "math_block"),
               ("render_math_block", "math_block")):
    contract(
        f"{M}:DocutilsRenderer.{_m}",
        requires=REQ,
        ensures=KEEP + ["len(self.current_node.children) == len(old(self.current_node.children)) + 1",
                        f"{NEW}.parent == self.current_node and fresh({NEW})",
                        f"{NEW}.kind == {_k!r} and {NEW}.text == token.content",                       # (d) math verbatim
                        f"implies(token.map is not None and len(token.map) > 0, {NEW}.line == token.map[0])"],
        types={"token": "SyntaxTreeNode"}, raises={}, modifies=RMOD, properties=["C02", "C03"],
    )
# inline code: one literal node with the code verbatim (attributes - class, id, language - are not part of the model)
fields("docutils.nodes:Element", g_has_language="bool")
contract(
    "ext:Element.__contains__",
    types={"__params__": ["self", "key"], "self": "Element", "key": "str"},
    requires=["key == 'language'"], ensures=["result == self.g_has_language"], returns="bool", modifies=[], pure=True, trusted=True,
)
contract(
    "ext:Element.__getitem__[classes]",
    types={"__params__": ["self", "key"], "self": "Element", "key": "str"},
    requires=[], ensures=[], returns="list[str]", modifies=[], pure=True, trusted=True,
)
contract(
    "ext:Element.__item_append__[classes]",
    types={"__params__": ["self", "key", "value"], "self": "Element", "key": "str", "value": "str"},
    requires=[], ensures=[], returns="None", modifies=[], trusted=True,
)
contract(
    "ext:Element.__item_extend__[classes]",
    types={"__params__": ["self", "key", "value"], "self": "Element", "key": "str", "value": "list[str]"},
    requires=[], ensures=[], returns="None", modifies=[], trusted=True,
)
contract(
    "ext:docutils.nodes.comment",
    types={"__params__": ["rawsource", "text"], "rawsource": "str", "text": "str"},
    requires=[], ensures=["result.kind == 'comment'", "len(result.children) == 0", "result.parent is None", "result.line is None", "result.text == text"],
    returns="Element", modifies=["fresh1"], trusted=True,
)
contract(
    f"{M}:DocutilsRenderer.render_code_inline",
    requires=REQ,
    ensures=KEEP + ["len(self.current_node.children) == len(old(self.current_node.children)) + 1",
                    f"{NEW}.parent == self.current_node and fresh({NEW})",
                    f"{NEW}.kind == 'literal' and {NEW}.text == token.content",
                    f"implies(token.map is not None and len(token.map) > 0, {NEW}.line == token.map[0])"],
    types={"token": "SyntaxTreeNode"}, raises={}, modifies=RMOD, properties=["C02", "C03"],
)
contract(
    f"{M}:DocutilsRenderer.render_myst_line_comment",
    requires=REQ,
    ensures=KEEP + ["len(self.current_node.children) == len(old(self.current_node.children)) + 1",
                    f"{NEW}.parent == self.current_node and fresh({NEW}) and {NEW}.kind == 'comment'"],
    types={"token": "SyntaxTreeNode"}, raises={}, modifies=RMOD, properties=["C02", "C03"],
)
contract(
    f"{M}:DocutilsRenderer.render_inline",
    # an `inline` token is the child of a paragraph / heading / cell token, whose renderer has made a non-structural node current
    requires=REQ + [GP_COND],
    ensures=KEEP + ["self.g_rc_node == self.current_node"],
    types={"token": "SyntaxTreeNode"}, raises={"Exception": []}, modifies=RMOD, properties=["C02", "C03"],
)
# strikethrough: one warning, then <s> ... </s> as raw HTML around the rendered children, in that order
contract(
    f"{M}:DocutilsRenderer.render_s",
    requires=REQ + [GP_COND],   # (inline content: a non-structural node is current)
    ensures=KEEP + [
        # the warning comes first (the children may log more after it)
        "self.document.log[: len(old(self.document.log)) + 1] == old(self.document.log) + ['strikethrough']",
        "len(self.current_node.children) >= len(old(self.current_node.children)) + 2",
        "self.current_node.children[len(self.current_node.children) - 1].kind == 'raw'"
        " and self.current_node.children[len(self.current_node.children) - 1].text == '</s>'"
        " and self.current_node.children[len(self.current_node.children) - 1].format == 'html'",
        "self.g_rc_node == self.current_node",
    ],
    types={"token": "SyntaxTreeNode"}, raises={"Exception": []}, modifies=RMOD, properties=["C02", "C03"],
)
LEAF1 = KEEP + ["len(self.current_node.children) == len(old(self.current_node.children)) + 1",
                f"{NEW}.parent == self.current_node and fresh({NEW})"]
contract(
    f"{M}:DocutilsRenderer.render_text",
    requires=REQ,
    ensures=LEAF1 + [f"{NEW}.kind == 'Text' and {NEW}.text == token.content"],                            # (d) verbatim
    types={"token": "SyntaxTreeNode"}, raises={}, modifies=RMOD, properties=["C02", "C03"],
)
contract(
    f"{M}:DocutilsRenderer.render_softbreak",
    requires=REQ,
    ensures=LEAF1 + [f"{NEW}.kind == 'Text' and {NEW}.text == '\\n'"],
    types={"token": "SyntaxTreeNode"}, raises={}, modifies=RMOD, properties=["C02", "C03"],
)
contract(
    f"{M}:DocutilsRenderer.render_hr",
    requires=REQ,
    ensures=LEAF1 + [f"{NEW}.kind == 'transition'", f"implies(token.map is not None and len(token.map) > 0, {NEW}.line == token.map[0])"],
    types={"token": "SyntaxTreeNode"}, raises={}, modifies=RMOD, properties=["C02", "C03"],
)
contract(
    f"{M}:DocutilsRenderer.render_hardbreak",
    requires=REQ,
    ensures=KEEP + ["len(self.current_node.children) == len(old(self.current_node.children)) + 2",
                    f"{NEW}.kind == 'raw' and {NEW}.format == 'html' and {NEW}.parent == self.current_node",
                    "self.current_node.children[len(old(self.current_node.children)) + 1].kind == 'raw'"
                    " and self.current_node.children[len(old(self.current_node.children)) + 1].format == 'latex'"],
    types={"token": "SyntaxTreeNode"}, raises={}, modifies=RMOD, properties=["C02", "C03"],
)
