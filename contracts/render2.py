"""More render_* methods under the generic render contract G (contracts/render.py): the block leaves that carry source text
verbatim (code blocks, amsmath, labelled math, block breaks), raw HTML through html_to_nodes, and ordered lists (C02, C04).
"""
from pyvc.spec import assumed, contract, fields, spec, implies, forall, exists  # noqa: F401
from contracts.render import KEEP, LEAF1, M, NEW, REQ, RMOD
import contracts.links  # noqa: F401     (names, note_explicit_target, FullyNormalizeName)

fields("markdown_it.tree:SyntaxTreeNode", meta="dict[str, str]", info="str")
LINE = f"implies(token.map is not None and len(token.map) > 0, {NEW}.line == token.map[0])"

contract(
    f"{M}:DocutilsRenderer.render_myst_block_break",
    requires=REQ,
    ensures=LEAF1 + [f"{NEW}.kind == 'comment' and {NEW}.text == token.content", LINE],                   # (d) verbatim
    types={"token": "SyntaxTreeNode"}, raises={}, modifies=RMOD, properties=["C02", "C04"],
)
# amsmath: one math_block with the environment verbatim; the plugin always records whether the environment is starred
contract(
    f"{M}:DocutilsRenderer.render_amsmath",
    requires=REQ + ["'numbered' in token.meta"],
    ensures=LEAF1 + [f"{NEW}.kind == 'math_block' and {NEW}.text == token.content", LINE],
    types={"token": "SyntaxTreeNode"}, raises={}, modifies=RMOD, properties=["C02", "C04"],
)
assumed("amsmath token", "mdit_py_plugins.amsmath sets token.meta['numbered'] on every amsmath token", "mdit_py_plugins")
# labelled math: the block is attached LAST (a label that clashes makes docutils put a message INTO the block, not next to it),
# and its label is registered
contract(
    f"{M}:DocutilsRenderer.render_math_block_label",
    requires=REQ,
    ensures=LEAF1 + [f"{NEW}.kind == 'math_block' and {NEW}.text == token.content", LINE,
                     "FullyNormalizeName(token.info) in self.document.nameids",
                     "self.document.nameids[: len(old(self.document.nameids))] == old(self.document.nameids)"],
    types={"token": "SyntaxTreeNode"}, raises={},
    modifies=RMOD + ["Element.names", "Document.nameids"], properties=["C02", "C04", "C09"],
)

# --- code blocks -----------------------------------------------------------------------------------------------------------
# create_highlighted_code_block: builds the literal block (Pygments lexing / Sphinx attributes are not modelled); what matters
# here is proved by its caller from this assumed summary: the block is new and detached, carries the text (up to one final newline), and gets the
# source / line it is given (no line when none is given)
contract(
    f"{M}:DocutilsRenderer.create_highlighted_code_block",
    requires=[],
    ensures=["fresh(result)", "result.kind == 'literal_block'", "result.parent is None",
             # (docutils' Pygments front end drops ONE final newline of the code when it lexes it - found by run-time monitoring)
             "result.text == text or result.text + '\\n' == text",
             "implies(line is not None, result.line == line)", "implies(line is None, result.line is None)",
             "self.current_node == old(self.current_node)"],
    types={"text": "str", "lexer_name": "str | None", "number_lines": "bool", "lineno_start": "int", "source": "str | None",
           "line": "int | None", "emphasize_lines": "str | None", "__ignore__": ["node_cls"]},
    returns="Element", raises={}, modifies=["fresh", "Document.log"], trusted=True,
)
assumed("DocutilsRenderer.create_highlighted_code_block", "returns a new detached literal_block whose text is the given text, possibly without its final newline (docutils: "
        "the Pygments tokens concatenate to it), with the given line; it may report a lexer problem", "myst_parser")
contract(
    "ext:DocRootAttrs.__getitem__[source]",
    types={"__params__": ["self", "key"], "self": "Document", "key": "str"},
    requires=[], ensures=[], returns="str", modifies=[], pure=True, trusted=True,
)
contract(
    f"{M}:DocutilsRenderer.render_code_block",
    # (markdown-it: an indented code block has no info string; `token.info.split()[0]` on an all-blank info would be an IndexError)
    requires=REQ + ["token.info == ''"],
    ensures=KEEP + ["len(self.current_node.children) >= len(old(self.current_node.children)) + 1",
                    f"{NEW}.kind == 'literal_block' and {NEW}.parent == self.current_node and fresh({NEW})",
                    f"{NEW}.text == token.content or {NEW}.text + '\\n' == token.content",                  # (d) verbatim up to the final newline
                    # 1-based line of the opening line; a token without a map gives no line
                    f"implies(token.map is not None and len(token.map) > 0 and token.map[0] != 0, {NEW}.line == token.map[0])",
                    "len(self.current_node.children) == len(old(self.current_node.children)) + 1"],
    types={"token": "SyntaxTreeNode"}, raises={}, modifies=RMOD, properties=["C02", "C04"],
)

# --- fenced code --------------------------------------------------------------------------------------------------------------
# In the strict modes (CommonMark / GFM only) every fence is code: one literal block with the content verbatim at the line of the
# opening fence.  In MyST mode a fence may be a directive; that path goes through render_directive (contracts/rundirective.py).
from contracts.assumed_docutils import GP_ENS, GP_MOD, GP_TEXT  # noqa: E402

import contracts.rundirective  # noqa: E402,F401  (render_directive is proved there, relative to the assumed view of a directive's run)

for _m in ("render_restructuredtext",):
    contract(
        f"{M}:DocutilsRenderer.{_m}",
        requires=[], ensures=GP_ENS,
        types={"token": "SyntaxTreeNode", "name": "str", "arguments": "str", "additional_options": "OptionsMapping | None"},
        raises={"Exception": []}, modifies=GP_MOD + ["self.g_rc_node"], trusted=True,
    )
assumed("render_restructuredtext", GP_TEXT, "myst_parser")
# the Sphinx environment, when there is one: only the default highlight language is read from it
fields("sphinx.environment:BuildEnvironment", temp_data="dict[str, str]", config="SphinxConfig")
fields("sphinx.config:SphinxConfig", highlight_language="str")
contract(
    f"{M}:DocutilsRenderer.sphinx_env",
    requires=[], ensures=[], returns="BuildEnvironment | None", modifies=[], pure=True, trusted=True,
)
assumed("DocutilsRenderer.sphinx_env", "the Sphinx build environment of the document's settings, or None", "sphinx")
STRICT = "(self.md_config.commonmark_only or self.md_config.gfm_only)"
contract(
    f"{M}:DocutilsRenderer.render_fence",
    requires=REQ,
    ensures=GP_ENS + [f"implies(old({STRICT}), {c})" for c in KEEP + [
        "len(self.current_node.children) == len(old(self.current_node.children)) + 1",
        f"{NEW}.kind == 'literal_block' and {NEW}.parent == self.current_node and fresh({NEW})",
        f"{NEW}.text == token.content or {NEW}.text + '\\n' == token.content",
        f"implies(token.map is not None and len(token.map) > 0 and token.map[0] != 0, {NEW}.line == token.map[0])"]],
    # a fence that is a directive is handed on as it is (its line and text are read from the token by render_directive)
    at_call={"self.render_directive(": ["_arg0 == token"], "self.render_restructuredtext(": ["_arg0 == token"]},
    types={"token": "SyntaxTreeNode"}, raises={"Exception": []},
    modifies=RMOD + ["Document.current_line", "DirectiveClass.option_spec"], properties=["C02", "C04"],
)

# --- ordered lists ------------------------------------------------------------------------------------------------------------
from contracts.render import container  # noqa: E402

container("render_ordered_list", "enumerated_list")

# --- images -------------------------------------------------------------------------------------------------------------------
contract(
    "ext:docutils.nodes.image",
    types={"__params__": []},
    requires=[], ensures=["result.kind == 'image'", "len(result.children) == 0", "result.parent is None", "result.line is None"],
    returns="Element", modifies=["fresh1"], trusted=True,
)
contract(
    f"{M}:DocutilsRenderer.renderInlineAsText",
    requires=[], ensures=[], types={"tokens": "list[SyntaxTreeNode]"}, returns="str", raises={}, modifies=[], pure=True, trusted=True,
)
assumed("DocutilsRenderer.renderInlineAsText", "the alt text of an image: a string computed from the token's children, nothing is attached", "myst_parser")
contract(
    "ext:SyntaxTreeNode.attrGet",
    types={"__params__": ["self", "name"], "self": "SyntaxTreeNode", "name": "str"},
    requires=[], ensures=[], returns="str | None", modifies=[], pure=True, trusted=True,
)
for _f in ("os.path.normpath", "os.path.join"):
    contract(
        f"ext:{_f}",
        types={"__params__": ["a", "b"], "a": "str", "b": "str", "__default__b": "''"},
        requires=[], ensures=[], returns="str", modifies=[], pure=True, trusted=True,
    )
contract(
    "ext:MdEnv.get[relative-images]",   # set by the include directive: a directory, or absent
    types={"__params__": ["self", "key", "default"], "self": "MdEnv", "key": "str", "default": "str | None"},
    requires=[], ensures=["implies(self.g_relative_images is not None, result == self.g_relative_images)",
                          "implies(self.g_relative_images is None, result == default)"],
    returns="str | None", modifies=[], pure=True, trusted=True,
)
fields("markdown_it:MdEnv", g_relative_images="str | None")   # ghost: the entry of the env dict, None when absent
contract(
    f"{M}:DocutilsRenderer.render_image",
    requires=REQ,
    ensures=LEAF1 + [f"{NEW}.kind == 'image'", LINE],
    types={"token": "SyntaxTreeNode"}, raises={}, modifies=RMOD, properties=["C02", "C04"],
)
