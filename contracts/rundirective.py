"""render_directive / run_directive: what position and offsets a directive is built with (C04, C06, C08).

The directive itself is docutils / Sphinx code: its `run()` is outside any contract here.  What the repository decides is what it
HANDS to the directive - the line of the fence as `lineno`, the parsed body and `body_offset` as `content` / `content_offset`, a
MockState / MockStateMachine positioned at that line - and that is pinned by statement contracts (`at_call`) on the prefix of
run_directive that ends where the directive runs.
"""
from pyvc.spec import assumed, contract, ext_exception, fields, spec, implies, forall, exists  # noqa: F401
import contracts.directives  # noqa: F401   (parse_directive_text: body / body_offset, C08)
import contracts.lines  # noqa: F401        (token_line, MockState.nested_parse)
import contracts.sections  # noqa: F401     (create_warning as a log record)
from contracts.assumed_docutils import GP_ENS, GP_MOD, GP_TEXT

M = "myst_parser.mdit_to_docutils.base"
MK = "myst_parser.mocking"

fields("docutils.nodes:Document", current_line="int", reporter="Reporter")
fields("markdown_it.tree:SyntaxTreeNode", content="str")
fields(f"{M}:DocutilsRenderer", language_module_rst="LanguageModule", reporter="Reporter")
fields("docutils.languages:LanguageModule", _opaque="int")
fields("docutils.utils:Reporter", _opaque="int")
fields("docutils.parsers.rst:DirectiveClass", g_issub_Include="bool")   # ghost: issubclass(cls, Include)
fields("docutils.parsers.rst:DirectiveInstance", _opaque="int")
fields(f"{MK}:MockStateMachine", _renderer="DocutilsRenderer", _lineno="int", document="Document", language="LanguageModule",
       reporter="Reporter", node="Element", match_titles="bool")
fields(f"{MK}:MockIncludeDirective", renderer="DocutilsRenderer", document="Document", name="str", klass="DirectiveClass | None",
       arguments="list[str]", options="dict[str, str]", body="list[str]", lineno="int")
ext_exception("DirectiveError", "Exception")
ext_exception("MockingError", "Exception")

contract(
    "ext:docutils.parsers.rst.directives.directive",
    types={"__params__": ["directive_name", "language_module", "document"], "directive_name": "str", "language_module": "LanguageModule",
           "document": "Document"},
    # (type invariant of a docutils directive class: its declared argument counts are not negative)
    requires=[], ensures=["implies(result[0] is not None, result[0].required_arguments >= 0 and result[0].optional_arguments >= 0)"],
    returns="tuple[DirectiveClass | None, list[Element]]", modifies=["fresh", "Document.log"], trusted=True,
)
assumed("docutils directives.directive", "looks the directive class up (None when unknown) and returns it with a list of new message nodes", "docutils")
contract(
    "ext:Reporter.error",
    types={"__params__": ["self", "message"], "self": "Reporter", "message": "str", "__ignore_starargs__": True},
    requires=[], ensures=["fresh(result)", "result.kind == 'system_message'", "result.parent is None"],
    returns="Element", modifies=["fresh", "Document.log"], trusted=True,
)
# MockState(renderer, state_machine, lineno): the attribute assignments of __init__ are under contract; the memo structure
# built after them (a local class) is outside it and is seen by callers as "allocates, changes nothing else"
fields(f"{MK}:MockState", document="Document", reporter="Reporter", inliner="MockInliner")
fields(f"{MK}:MockInliner", _opaque="int")
contract(
    f"{MK}:MockInliner.__init__",
    requires=[], ensures=[], types={"renderer": "DocutilsRenderer"}, raises={}, modifies=["fresh"], trusted=True,
)
_MS_ENS = ["self._renderer == renderer", "self._lineno == lineno", "self.state_machine == state_machine"]
contract(
    f"{MK}:MockState.__init__",
    until="class Struct",
    callers=dict(requires=[], ensures=_MS_ENS, raises={"Exception": []},
                 modifies=["self._renderer", "self._lineno", "self.state_machine", "self.document", "self.reporter", "self.inliner", "fresh"]),
    requires=[],
    ensures=[],
    cut_ensures=_MS_ENS + ["self.document == renderer.document"],
    types={"renderer": "DocutilsRenderer", "state_machine": "MockStateMachine", "lineno": "int"},
    raises={}, modifies=["self._renderer", "self._lineno", "self.state_machine", "self.document", "self.reporter", "self.inliner", "fresh"],
    properties=["C04", "C06"],
)
assumed("MockState.__init__ (callers' view) / MockInliner.__init__", "the memo structure built at the end of MockState.__init__ (a local class, "
        "`max(renderer._level_to_section)`) and the inliner only allocate; the attribute assignments before them are proved", "myst_parser")
contract(
    "ext:DirectiveClass.__call__",
    types={"__params__": ["self", "name", "arguments", "options", "content", "lineno", "content_offset", "block_text", "state", "state_machine"],
           "self": "DirectiveClass", "name": "str", "arguments": "list[str]", "options": "dict[str, str]", "content": "StringList",
           "lineno": "int", "content_offset": "int", "block_text": "str", "state": "MockState", "state_machine": "MockStateMachine"},
    requires=[], ensures=["fresh(result)"], returns="DirectiveInstance", modifies=["fresh"], trusted=True,
)
fields("docutils.statemachine:StringList", g_lines="list[str]")
contract(
    "ext:docutils.statemachine.StringList",
    types={"__params__": ["initlist", "source"], "initlist": "list[str]", "source": "str"},
    requires=[], ensures=["fresh(result)", "result.g_lines == initlist"], returns="StringList", modifies=["fresh"], trusted=True,
)
assumed("run_directive (callers' view)", GP_TEXT + "; the nodes a directive returns are new nodes, none of them the current node", "docutils / sphinx directives")
assumed("docutils StringList / Directive.__init__", "StringList(lines, source) holds exactly those lines; instantiating a directive class stores its "
        "keyword arguments (docutils.parsers.rst.Directive.__init__) and runs nothing", "docutils")
contract(
    "ext:DirectiveClass.option_spec.__setitem__",
    types={"__params__": ["self", "key", "value"], "self": "DirectiveClass", "key": "str", "value": "object"},
    requires=[], ensures=["self.option_spec is not None"], returns="None", modifies=["self.option_spec"], trusted=True,
)

POS = "position"
contract(
    f"{M}:DocutilsRenderer.run_directive",
    until="try:\n    result = directive_instance.run()",
    # what callers see of the whole function: the directive runs (docutils / Sphinx code, nested parses through MockState) under
    # G', and the nodes it returns are new ones
    callers=dict(
        requires=[],
        # (the nodes may still hang under a throw-away parent the directive parsed them into - docutils' `class`, `table` -: found
        #  by run-time monitoring of this view; what matters is that they are new)
        ensures=GP_ENS + ["forall(0, len(result), lambda i: fresh(result[i]))",
                          # (none of them is the node that rendering continues in)
                          "forall(0, len(result), lambda i: result[i] != self.current_node)"],
        raises={"Exception": []},
        modifies=GP_MOD + ["Document.current_line", "DirectiveClass.option_spec"],
        returns="list[Element]",
    ),
    requires=["self.current_node.kind != 'Text'"],
    ensures=[],
    # where control reaches the point at which the directive runs: the document's current line is the directive's line
    cut_ensures=["self.document.current_line == position"],
    at_call={
        # the text is split with the directive's own line as its position (C08 reports option problems relative to it)
        "parse_directive_text(": ["_arg0 == directive_class", "_arg1 == first_line", "_arg2 == content", "_kw_line == position"],
        # an include directive gets the parsed arguments / options / body and the line of the fence
        "MockIncludeDirective(": ["_kw_arguments == parsed.arguments", "_kw_body == parsed.body", "_kw_lineno == position", "_arg0 == self"],
        # any other directive is built at the line of the fence; its content is exactly the parsed body, and the offset of that
        # body inside the directive is the one parse_directive_text computed (C04: lines inside = lineno + content_offset + i)
        "MockStateMachine(": ["_arg0 == self", "_arg1 == position"],
        "MockState(": ["_arg0 == self", "_arg1 == state_machine", "_arg2 == position"],
        "directive_class(": ["_kw_lineno == position", "_kw_content_offset == parsed.body_offset", "_kw_content.g_lines == parsed.body",
                             "_kw_arguments == parsed.arguments", "_kw_state == state", "_kw_state_machine == state_machine",
                             "state._lineno == position and state._renderer == self and state.state_machine == state_machine"],
    },
    types={"name": "str", "first_line": "str", "content": "str", "position": "int", "additional_options": "OptionsMapping | None",
           "output": "tuple[DirectiveClass | None, list[Element]]", "directive_class": "DirectiveClass | None", "messages": "list[Element]",
           "parsed": "DirectiveParsingResult", "state": "MockState", "state_machine": "MockStateMachine"},
    loops={"for _warning in parsed.warnings": {"invariant": ["self.document.current_line == position"]}},
    raises={"Exception": []},
    modifies=["Document.current_line", "Document.log", "Element.children", "Element.parent", "DirectiveClass.option_spec", "fresh"],
    properties=["C04", "C06", "C08"],
)

# --- render_directive: the fence's own line and text go to run_directive; its nodes are attached below the current node ---------
contract(
    "ext:Element.__iadd__",
    types={"__params__": ["self", "item"], "self": "Element", "item": "list[Element]"},
    requires=["forall(0, len(item), lambda i: item[i] != self)"],
    ensures=["self.children == old(self.children) + item",
             "forall(0, len(item), lambda i: item[i].parent == self)",
             "forall_obj('Element', lambda e: implies(old(allocated(e)) and forall(0, len(item), lambda i: item[i] != e), e.parent == old(e.parent)))"],
    returns="Element", modifies=["self.children", "Element.parent"], trusted=True,
)
assumed("Element.__iadd__ (list)", "node += [n1, n2, ...] appends the nodes in order and makes node their parent", "docutils.nodes")
from contracts.assumed_docutils import GP_REQ  # noqa: E402

contract(
    f"{M}:DocutilsRenderer.render_directive",
    requires=["self.current_node.kind != 'Text'"] + GP_REQ,
    ensures=GP_ENS,
    at_call={"self.run_directive(": ["_arg0 == name", "_arg1 == arguments", "_arg2 == token.content",
                                     # the position of a directive is the 1-based line of its opening fence
                                     "token.map is not None and len(token.map) > 0 and _arg3 == token.map[0]"]},
    types={"token": "SyntaxTreeNode", "name": "str", "arguments": "str", "additional_options": "OptionsMapping | None",
           "nodes_list": "list[Element]"},
    raises={"Exception": []},
    modifies=GP_MOD + ["Document.current_line", "DirectiveClass.option_spec"],
    properties=["C04", "C06"],
)

# --- render_colon_fence: `:::{name}` is a directive at the fence's line; a plain `:::` block is a container whose content is
# rendered as nested text starting on the line after the fence -------------------------------------------------------------------
fields("markdown_it.tree:SyntaxTreeNode", info="str", token="Token | None", attrs="dict[str, str]")
fields("markdown_it.token:Token", content="str")
contract(
    "ext:Token.copy",
    types={"__params__": ["self"], "self": "Token"},
    requires=[], ensures=["fresh(result)", "result.content == self.content", "result.map == self.map"], returns="Token", modifies=["fresh1"], trusted=True,
)
assumed("Token.copy", "markdown-it's Token.copy() is a new token with the same field values", "markdown_it")
contract(
    "ext:docutils.nodes.container",
    types={"__params__": ["rawsource", "is_div"], "rawsource": "str", "is_div": "bool", "__default__rawsource": "''", "__default__is_div": "False"},
    requires=[], ensures=["result.kind == 'container'", "len(result.children) == 0", "result.parent is None", "result.line is None"],
    returns="Element", modifies=["fresh1"], trusted=True,
)
import contracts.render  # noqa: E402,F401  (copy_attributes, current_node_context's pieces, classes)

contract(
    f"{M}:DocutilsRenderer.render_colon_fence",
    requires=["self.current_node.kind != 'Text'"] + GP_REQ,
    ensures=GP_ENS,
    at_call={
        # a directive: the same token, the name without its braces, the rest of the info line
        "self.render_directive(": ["_arg0 == token", "_arg1 == name[1:-1]", "_arg2 == arguments"],
        # a container: its content starts on the line after the opening fence (0-based offset of the content = 1-based line of the fence)
        "self.nested_render_text(": ["_arg0 == token.content", "implies(token.map is not None and len(token.map) > 0, _arg1 == token.map[0])",
                                     "self.current_node.kind == 'container' and self.current_node.parent == old(self.current_node)",
                                     "implies(token.map is not None and len(token.map) > 0, self.current_node.line == token.map[0])"],
    },
    types={"token": "SyntaxTreeNode", "linear_token": "Token"},
    raises={"Exception": []},
    modifies=sorted(set(GP_MOD + ["Document.current_line", "DirectiveClass.option_spec", "SyntaxTreeNode.token", "Token.content", "self.g_rc_node"]
                        + contracts.lines.NRT_MOD)),
    properties=["C04", "C06"],
)
