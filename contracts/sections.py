"""Contracts for the section-level state of DocutilsRenderer (C05, C03)."""
from pyvc.spec import assumed, contract, fields, history, spec, implies, forall, exists  # noqa: F401
import contracts.assumed_docutils  # noqa: F401

M = "myst_parser.mdit_to_docutils.base"

fields(
    f"{M}:DocutilsRenderer",
    _level_to_section="dict[int, Element]",
    current_node="Element",
    document="Document",
)

# The warning API as seen from the renderer: one entry in the document's log per emitted warning
# (suppression is a separate property, C14; here a warning "is emitted" when create_warning is called).
contract(
    f"{M}:DocutilsRenderer.create_warning",
    requires=[],
    ensures=[
        "self.document.log == old(self.document.log) + [subtype]",
        "implies(result is not None, fresh(result))",
        # the node is appended (at the end) to `append_to` unless the warning is suppressed
        "implies(append_to is not None, append_to.children == old(append_to.children)"
        " or (len(append_to.children) == len(old(append_to.children)) + 1"
        "     and append_to.children[: len(old(append_to.children))] == old(append_to.children)))",
    ],
    modifies=["self.document.log", "append_to.children"],
    types={"subtype": "str", "append_to": "Element | None", "line": "int | None", "wtype": "str | None"},
    returns="Element | None",
    trusted=True,
    properties=[],
)
assumed("DocutilsRenderer.create_warning",
        "abstracted as: appends one record (the subtype) to a ghost log of the document and may append a node to `append_to`; "
        "its real contract (suffix, suppression) is C14's", "myst_parser")


@spec
def LS_inv(r):
    """Level 0 (the document) is always open and every open level is >= 0."""
    return 0 in r._level_to_section and forall(None, 0, lambda k: k not in r._level_to_section)


contract(
    f"{M}:DocutilsRenderer.update_section_level_state",
    requires=[
        "LS_inv(self)",
        "level >= 1",
        "section.parent is None",
        # the new section is not one of the open sections (it was just created by render_heading)
        "forall(None, None, lambda k: implies(k in self._level_to_section, self._level_to_section[k] != section))",
    ],
    ensures=[
        "LS_inv(self)",
        # C05: child of the closest preceding still-open heading of lower level (P = greatest open level < level)
        # (P is the local `parent_level` at the return point; the first three clauses say it IS that level)
        "at_return(parent_level) in old(self._level_to_section) and 0 <= at_return(parent_level) < level",
        "forall(at_return(parent_level) + 1, level, lambda k: k not in old(self._level_to_section))",
        "section.parent == old(self._level_to_section)[at_return(parent_level)]",
        # appended LAST to that parent; what the parent had before is kept in order (a warning node, if any,
        # may have been appended to the current node just before)
        "len(section.parent.children) >= 1 and section.parent.children[len(section.parent.children) - 1] == section",
        "section.parent.children[: len(old(old(self._level_to_section)[at_return(parent_level)].children))]"
        " == old(old(self._level_to_section)[at_return(parent_level)].children)",
        "implies(at_return(parent_level) + 1 == level, section.parent.children"
        " == old(old(self._level_to_section)[at_return(parent_level)].children) + [section])",
        # no other node's child list changes (the warning, if any, goes to the current node)
        "forall_obj('Element', lambda e: implies(old(allocated(e)) and e != section.parent and e != self.current_node,"
        " e.children == old(e.children)))",
        "section.children == old(section.children) or section == self.current_node or section == section.parent",
        # exactly one non-consecutive-heading warning iff a level is skipped, none otherwise
        "implies(at_return(parent_level) + 1 != level, self.document.log == old(self.document.log) + ['header'])",
        "implies(at_return(parent_level) + 1 == level, self.document.log == old(self.document.log))",
        # the open levels afterwards: the old ones below `level`, plus `level` -> section; nothing deeper stays open
        "forall(None, level, lambda k: (k in self._level_to_section) == (k in old(self._level_to_section)))",
        "forall(None, level, lambda k: implies(k in self._level_to_section, self._level_to_section[k] == old(self._level_to_section)[k]))",
        "level in self._level_to_section and self._level_to_section[level] == section",
        "forall(level + 1, None, lambda k: k not in self._level_to_section)",
    ],
    modifies=["self._level_to_section", "self.document.log", "Element.children", "section.parent"],
    types={"section": "Element", "parent_level": "int"},
    properties=["C05", "C03"],
)
