"""Contracts for the heading-anchor functions of myst_parser/mdit_to_docutils/base.py (C10)."""
import re

from pyvc.spec import assumed, contract, fields, spec, implies, forall, exists  # noqa: F401

M = "myst_parser.mdit_to_docutils.base"

# markdown-it token tree (assumed model, DESIGN Appendix B): only what compute_unique_slug reads
fields("markdown_it.tree:SyntaxTreeNode", type="str")
fields("markdown_it.token:Token", type="str", content="str", children="list[Token] | None")
fields("typing:SlugFunc", _opaque="int")

contract(
    "ext:SyntaxTreeNode.to_tokens",
    types={"__params__": ["self"], "self": "SyntaxTreeNode"},
    returns="list[Token]",
    # a heading node flattens to heading_open, inline, heading_close
    ensures=["len(result) == 3"],
    pure=True,
    trusted=True,
)
contract(
    "ext:SlugFunc.__call__",
    types={"__params__": ["self", "title"], "self": "SlugFunc", "title": "str"},
    returns="str",
    raises={"Exception": []},  # a user-supplied function may raise anything
    pure=True,
    trusted=True,
)
assumed("SyntaxTreeNode.to_tokens", "a heading node flattens to exactly [heading_open, inline, heading_close]", "markdown-it-py 3.0.0")
assumed("slug_func", "a configured slug function is a pure str -> str function that may raise any Exception", "user code")


@spec(abstract=True, sig=(["str"], "str"))
def CleanSub(s):
    """_SLUGIFY_CLEAN_REGEX.sub('', s): deletes exactly the characters outside [\\w\\u4e00-\\u9fff\\- ]."""
    return re.sub(r"[^\w一-鿿\- ]", "", s)


@spec(abstract=True, sig=(["str"], "str"))
def Lower(s):
    return s.lower()


@spec(abstract=True, sig=(["str"], "str"))
def Replace_32__45(s):
    return s.replace(" ", "-")


@spec
def GithubSlug(title):
    """The documented rule: lower-case, spaces to hyphens, punctuation removed."""
    return CleanSub(Replace_32__45(Lower(title)))


contract(
    f"ext:{M}._SLUGIFY_CLEAN_REGEX.sub",
    types={"__params__": ["repl", "string"], "repl": "str", "string": "str"},
    returns="str",
    requires=["repl == ''"],
    ensures=["result == CleanSub(string)"],
    pure=True,
    trusted=True,
)
assumed("_SLUGIFY_CLEAN_REGEX.sub", "re.sub with the slug class deletes exactly the non-word characters (CleanSub; uninterpreted, bounded cross-check against the anchors plugin)", "stdlib re")

contract(
    f"{M}:default_slugify",
    requires=[],
    ensures=["result == GithubSlug(title)"],
    pure=True,
    properties=["C10"],
)

contract(
    f"{M}:compute_unique_slug",
    requires=[],
    # Unique(base, slugs): base itself if free, else base-k for the LEAST k >= 1 with base-k free
    ensures=[
        "result not in slugs",
        "implies(at_return(i) == 1, result == at_return(base))",
        "implies(at_return(i) > 1, result == at_return(base) + '-' + str(at_return(i) - 1))",
        "implies(at_return(i) > 1, at_return(base) in slugs)",
        "forall(1, at_return(i) - 1, lambda j: (at_return(base) + '-' + str(j)) in slugs)",
        "implies(slug_func is None, at_return(base) == GithubSlug(at_return(title)))",
    ],
    raises={"Exception": []},  # only what the configured slug function raises
    modifies=[],
    types={"token_tree": "SyntaxTreeNode", "slugs": "list[str]", "slug_func": "SlugFunc | None", "tokens": "list[Token]"},
    loops={
        "while slug in slugs": dict(
            invariant=[
                "i >= 1",
                "implies(i == 1, slug == base)",
                "implies(i > 1, slug == base + '-' + str(i - 1))",
                "implies(i > 1, base in slugs)",
                "forall(1, i - 1, lambda j: (base + '-' + str(j)) in slugs)",
            ],
            assume_terminates="`slugs` is finite and j -> base-j is injective (decimal formatting), so some base-j is free (pigeonhole); argued, not proved",
        )
    },
    properties=["C10"],
)
