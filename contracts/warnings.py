"""Contracts for myst_parser/warnings_.py (C14)."""
from pyvc.spec import contract, fields, spec, implies, forall, exists  # noqa: F401

M = "myst_parser.warnings_"


@spec
def Sup(type, subtype, w):
    """The three documented spellings that suppress a warning of (type, subtype) - and nothing else."""
    return w == type or w == type + "." + subtype or w == type + ".*"


contract(
    f"{M}:_is_suppressed_warning",
    # every caller passes "myst" or a dot-free wtype (checked at the call sites, C14 call-site pass)
    requires=["'.' not in type"],
    ensures=[
        "implies(result, exists(0, len(suppress_warnings), lambda k: Sup(type, subtype, suppress_warnings[k])))",
        "implies(not result, forall(0, len(suppress_warnings), lambda k: not Sup(type, subtype, suppress_warnings[k])))",
    ],
    pure=False,
    modifies=[],
    types={"suppress_warnings": "list[str]"},
    loops={
        "for warning_type in suppress_warnings": dict(
            invariant=["forall(0, _i_warning_type, lambda k: not Sup(type, subtype, _seq_warning_type[k]))"],
        )
    },
    properties=["C14"],
)
