"""Contracts for myst_parser/warnings_.py (C14)."""
from pyvc.spec import contract, fields, spec, implies, forall, exists  # noqa: F401

M = "myst_parser.warnings_"


@spec
def Sup(type, subtype, w):
    """The three documented spellings that suppress a warning of (type, subtype) - and nothing else."""
    return w == type or w == type + "." + subtype or w == type + ".*"


contract(
    f"{M}:_is_suppressed_warning",
    # every caller passes "myst" or a dot-free wtype (checked at the call sites, C14 call-site pass)
    requires=["'.' not in type"],
    ensures=[
        "implies(result, exists(0, len(suppress_warnings), lambda k: Sup(type, subtype, suppress_warnings[k])))",
        "implies(not result, forall(0, len(suppress_warnings), lambda k: not Sup(type, subtype, suppress_warnings[k])))",
    ],
    pure=False,
    modifies=[],
    types={"suppress_warnings": "list[str]"},
    loops={
        "for warning_type in suppress_warnings": dict(
            invariant=["forall(0, _i_warning_type, lambda k: not Sup(type, subtype, _seq_warning_type[k]))"],
        )
    },
    properties=["C14", "C01"],
)


# ---------------------------------------------------------------------------------------------------------------
# create_warning, both front ends (Sphinx: document.settings has an `env`): what a warning is, and what suppressing it removes
from pyvc.spec import assumed  # noqa: E402
import contracts.assumed_docutils  # noqa: F401,E402

fields("docutils.frontend:Settings", g_has_env="bool", myst_suppress_warnings="list[str] | None", env="SphinxEnv")
fields("sphinx.environment:SphinxEnv", config="SphinxConfig")
fields("sphinx.config:SphinxConfig", suppress_warnings="list[str]")
fields("sphinx.util.logging:SphinxLogger", _opaque="int")
contract(
    "ext:sphinx.util.logging.getLogger",
    types={"__params__": ["name"], "name": "str"},
    requires=[], ensures=[], returns="SphinxLogger", modifies=["fresh"], trusted=True,
)
contract(
    "ext:SphinxLogger.warning",
    types={"__params__": ["self", "msg", "type", "subtype", "location"], "self": "SphinxLogger", "msg": "str", "type": "str", "subtype": "str"},
    requires=[], ensures=[], returns="None", modifies=[], trusted=True,
)
contract(
    "ext:Document.__getitem__[source]",
    types={"__params__": ["self", "key"], "self": "Document", "key": "str"},
    requires=[], ensures=[], returns="str", modifies=[], pure=True, trusted=True,
)
contract(
    f"{M}:_create_warning_node",
    # (the node holds the message in a paragraph of its own: it is not childless, and more than one node is allocated)
    requires=[], ensures=["fresh(result)", "result.kind == 'system_message'", "result.text == msg", "result.parent is None"],
    returns="Element", modifies=["fresh"], trusted=True,
)
assumed("Sphinx logging / _create_warning_node", "sphinx's logger applies suppress_warnings itself when it emits; _create_warning_node builds a "
        "system_message node carrying the message (nodes.system_message(msg, ...), docutils)", "sphinx.util.logging")
fields("docutils.utils:Reporter", _opaque="int")
fields("docutils.nodes:Document", settings="Settings", reporter="Reporter")
contract(
    "ext:Reporter.warning",
    types={"__params__": ["self", "message"], "self": "Reporter", "message": "str", "__ignore_starargs__": True},
    requires=[],
    ensures=["fresh(result)", "result.kind == 'system_message'", "result.text == message", "result.parent is None"],
    returns="Element", modifies=["fresh"], trusted=True,
)
assumed("Reporter.warning", "document.reporter.warning(msg, line= / base_node=) returns a new system_message node carrying msg (and logs it); "
        "the position keywords do not change that", "docutils.utils")

SUPPRESSED = ("exists(0, len(SuppressList(document)), lambda k:"
              " Sup((wtype if wtype is not None else 'myst'), subtype, SuppressList(document)[k]))")


@spec
def SuppressList(document):
    """The suppress list of the front end in use: Sphinx's `suppress_warnings`, or the MyST docutils setting."""
    return document.settings.env.config.suppress_warnings if document.settings.g_has_env else document.settings.myst_suppress_warnings


MSG = "message + ' [' + (wtype if wtype is not None else 'myst') + '.' + subtype + ']'"
contract(
    f"{M}:create_warning",
    requires=["implies(not document.settings.g_has_env, document.settings.myst_suppress_warnings is not None)",   # (the registered docutils setting: a list, [] by default)
              "implies(wtype is not None, '.' not in (wtype if wtype is not None else ''))",           # (every caller passes `myst` or a dot-free type: call-site pass)
              "implies(append_to is not None, append_to.kind != 'Text')"],
    ensures=[
        # suppressed (its tag, the bare type, or `type.*` is listed): no node at all - nothing returned, nothing attached
        f"implies({SUPPRESSED}, result is None and implies(append_to is not None, append_to.children == old(append_to.children)))",
        # otherwise: exactly one new system_message whose text is the message followed by its tag `[type.subtype]`,
        # attached (last) to `append_to` if one was given - and only there
        f"implies(not {SUPPRESSED}, result is not None and fresh(result) and result.kind == 'system_message')",
        f"implies(not {SUPPRESSED} and wtype is None, result.text == message + ' [myst.' + subtype + ']')",
        f"implies(not {SUPPRESSED} and wtype is not None, result.text == message + ' [' + wtype + '.' + subtype + ']')",
        f"implies(not {SUPPRESSED} and append_to is not None, len(append_to.children) == len(old(append_to.children)) + 1"
        " and append_to.children[: len(old(append_to.children))] == old(append_to.children)"
        " and append_to.children[len(old(append_to.children))] == result)",
        "forall_obj('Element', lambda e: implies(old(allocated(e)) and e != append_to, e.children == old(e.children)))",
    ],
    types={"document": "Document", "subtype": "str", "node": "None", "append_to": "Element | None", "line": "int | None", "kwargs": "dict[str, int | None]"},
    raises={},
    modifies=["Element.children", "Element.parent", "fresh"],
    properties=["C14", "C01"],
)


# the renderer's own entry point is a pass-through to create_warning with its document: the same contract, `document` read as
# `self.document` (every warning of the renderers goes through here - the call sites are the flow pass of C14)
B = "myst_parser.mdit_to_docutils.base"
fields(f"{B}:DocutilsRenderer", document="Document")
_cw = REG_CW = None
from pyvc.spec import REG as _REG  # noqa: E402

_cw = _REG.funs[f"{M}:create_warning"]


def _sub(clause):
    return clause.replace("document.", "self.document.").replace("(document)", "(self.document)")


contract(
    f"{B}:DocutilsRenderer.create_warning",
    requires=[_sub(c) for c in _cw.requires],
    ensures=[_sub(c) for c in _cw.ensures],
    types={"subtype": "str", "append_to": "Element | None", "line": "int | None"},
    raises={},
    modifies=["Element.children", "Element.parent", "fresh"],
    properties=["C14", "C01"],
)
