"""Shared helpers for the C02 demos (only uses public project entry points)."""
import io

from docutils import nodes  # noqa: F401
from docutils.frontend import get_default_settings
from docutils.utils import new_document
from markdown_it.renderer import RendererHTML
from markdown_it.tree import SyntaxTreeNode

from myst_parser.config.main import MdParserConfig
from myst_parser.parsers.docutils_ import Parser
from myst_parser.parsers.mdit import create_md_parser


def docutils_doctree(text, **overrides):
    """Doctree of the docutils back end, before any transform runs."""
    settings = get_default_settings(Parser)
    settings.warning_stream = io.StringIO()
    settings.halt_level = 5
    for key, value in overrides.items():
        setattr(settings, key, value)
    doc = new_document("src.md", settings)
    Parser().parse(text, doc)
    return doc


def token_tree(text, **overrides):
    """markdown-it syntax tree produced by the project's own parser factory."""
    conf = MdParserConfig(
        **{k[5:]: v for k, v in overrides.items() if k.startswith("myst_")}
    )
    md = create_md_parser(conf, RendererHTML)
    return SyntaxTreeNode(md.parse(text, {}))


def sphinx_doctree(text, **conf):
    """Doctree of the Sphinx back end (MystParser.parse in an in-process app)."""
    import os
    import tempfile

    from sphinx.application import Sphinx
    from sphinx.util.docutils import docutils_namespace, sphinx_domains

    from myst_parser.parsers.sphinx_ import MystParser

    src = tempfile.mkdtemp(prefix="c02demo")
    with open(os.path.join(src, "conf.py"), "w") as handle:
        handle.write("extensions=['myst_parser']\n")
    with open(os.path.join(src, "index.md"), "w") as handle:
        handle.write("# index\n")
    with docutils_namespace():
        app = Sphinx(
            src,
            src,
            os.path.join(src, "_build"),
            os.path.join(src, "_doctrees"),
            "html",
            confoverrides=conf,
            status=None,
            warning=io.StringIO(),
        )
        app.env.prepare_settings("index")
        settings = get_default_settings(MystParser)
        settings.env = app.env
        settings.warning_stream = io.StringIO()
        settings.halt_level = 5
        doc = new_document(os.path.join(src, "index.md"), settings)
        parser = MystParser()
        parser.set_application(app)
        with sphinx_domains(app.env):
            parser.parse(text, doc)
    return doc
