"""C02 finding 1: a fenced code block with a language Pygments knows loses its
leading/trailing blank lines (and a leading BOM) in the docutils back end;
the Sphinx back end keeps the text, so the two back ends disagree."""
import os
import sys

sys.path.insert(0, os.path.dirname(os.path.abspath(__file__)))
from docutils import nodes

from _common import docutils_doctree, sphinx_doctree, token_tree

TEXT = "```python\n\n\nx = 1\n\n\n```\n"


def same_code(observed, content):
    # verbatim; tolerate (only) the single line terminator of the last line
    return observed == content or observed + "\n" == content


bad = False
for mode, overrides in (("myst", {}), ("commonmark", {"myst_commonmark_only": True})):
    fence = next(n for n in token_tree(TEXT, **overrides).walk() if n.type == "fence")
    block = next(docutils_doctree(TEXT, **overrides).findall(nodes.literal_block))
    print(f"[{mode}] token content            : {fence.content!r}")
    print(f"[{mode}] docutils literal_block   : {block.astext()!r}")
    bad |= not same_code(block.astext(), fence.content)

no_lang = "```\n\n\nx = 1\n\n\n```\n"
block = next(docutils_doctree(no_lang).findall(nodes.literal_block))
print(f"[myst] same block, no language   : {block.astext()!r}   (kept verbatim)")

fence = next(n for n in token_tree(TEXT).walk() if n.type == "fence")
sphinx_block = next(sphinx_doctree(TEXT).findall(nodes.literal_block))
print(f"[sphinx] literal_block           : {sphinx_block.astext()!r}")
bad |= not same_code(sphinx_block.astext(), fence.content)
docutils_block = next(docutils_doctree(TEXT).findall(nodes.literal_block))
if sphinx_block.astext().rstrip("\n") != docutils_block.astext().rstrip("\n"):
    print("the docutils and Sphinx back ends disagree on the code text")
    bad = True
print("required: the code text '\\n\\nx = 1\\n\\n\\n' verbatim, identically in both back ends")
sys.exit(1 if bad else 0)
