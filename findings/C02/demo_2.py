"""C02 finding 2: image alt text drops code spans, backslash-escaped characters,
entities and line breaks of the image description."""
import os
import sys

sys.path.insert(0, os.path.dirname(os.path.abspath(__file__)))
from docutils import nodes

from _common import docutils_doctree, token_tree


def plain(tok):
    """CommonMark: alt = plain string content of the image description."""
    out = ""
    for child in tok.children or []:
        if child.type in ("text", "text_special", "code_inline"):
            out += child.content
        elif child.type in ("softbreak", "hardbreak"):
            out += "\n"
        else:
            out += plain(child)
    return out


CASES = [
    "![R&amp;D \\* logo](x.png)",
    "![the `ls` command](x.png)",
    "![first line\nsecond line](x.png)",
]
bad = False
for text in CASES:
    for overrides in ({}, {"myst_commonmark_only": True}):
        image_token = next(n for n in token_tree(text, **overrides).walk() if n.type == "image")
        required = plain(image_token)
        observed = next(docutils_doctree(text, **overrides).findall(nodes.image))["alt"]
        mode = "commonmark" if overrides else "myst"
        print(f"[{mode}] {text!r}: alt observed {observed!r}, required {required!r}")
        if observed != required:
            bad = True
sys.exit(1 if bad else 0)
