"""C02 finding 3: a link with an `inv:` destination that matches no inventory
entry is removed together with its link text (both back ends)."""
import os
import sys

sys.path.insert(0, os.path.dirname(os.path.abspath(__file__)))
from _common import docutils_doctree, sphinx_doctree

TEXT = "before [important words](inv:#no-such-object) after\n"
bad = False
for name, doc in (("docutils", docutils_doctree(TEXT)), ("sphinx", sphinx_doctree(TEXT))):
    para = doc.children[0]
    texts = []
    for node in para.findall():
        if node.__class__.__name__ != "Text":
            continue
        parent, inside_message = node.parent, False
        while parent is not None:
            if parent.tagname == "system_message":
                inside_message = True
            parent = parent.parent
        if not inside_message:
            texts.append(str(node))
    observed = "".join(texts)
    print(f"[{name}] paragraph text observed: {observed!r}")
    if "important words" not in observed:
        bad = True
print("required: the text leaf 'important words' appears once, inside a link container")
sys.exit(1 if bad else 0)
