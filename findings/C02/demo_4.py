"""C02 finding 4: a footnote definition whose label equals the (normalised) name
of an earlier heading is reported as a 'duplicate' and its content is dropped."""
import os
import sys

sys.path.insert(0, os.path.dirname(os.path.abspath(__file__)))
from docutils import nodes

from _common import docutils_doctree, sphinx_doctree

TEXT = "# Notes\n\nSee here[^notes].\n\n[^notes]: The *note* text.\n"
SWAPPED = "See here[^notes].\n\n[^notes]: The *note* text.\n\n# Notes\n"
bad = False
for name, doc in (
    ("docutils", docutils_doctree(TEXT)),
    ("sphinx", sphinx_doctree(TEXT)),
    ("docutils, heading last", docutils_doctree(SWAPPED)),
):
    footnotes = list(doc.findall(nodes.footnote))
    emphasis = [n.astext() for n in doc.findall(nodes.emphasis)]
    messages = [n.astext() for n in doc.findall(nodes.system_message)]
    print(f"[{name}] footnote nodes: {len(footnotes)}, emphasis leaves: {emphasis}")
    for message in messages:
        print(f"[{name}]   message: {message}")
    if len(footnotes) != 1 or emphasis != ["note"]:
        bad = True
print("required: one footnote container holding 'The ', emphasis('note'), ' text.'")
sys.exit(1 if bad else 0)
