"""C02 finding 5: inside a `:::` div (colon_fence) a body that starts with `---`
is taken for front matter by the nested parse and silently discarded."""
import os
import sys

sys.path.insert(0, os.path.dirname(os.path.abspath(__file__)))
from docutils import nodes

from _common import docutils_doctree, sphinx_doctree

EXT = {"myst_enable_extensions": ["colon_fence"]}
TEXT = ":::\n---\nfoo\n---\nbar\n:::\n"
# the same body one paragraph later is rendered completely:
CONTROL = ":::\nintro\n\n---\nfoo\n---\nbar\n:::\n"
bad = False
for name, doc in (
    ("docutils", docutils_doctree(TEXT, **EXT)),
    ("sphinx", sphinx_doctree(TEXT, **EXT)),
    ("docutils control", docutils_doctree(CONTROL, **EXT)),
):
    transitions = len(list(doc.findall(nodes.transition)))
    text = doc.astext().replace("\n", " | ")
    warnings = doc.settings.warning_stream.getvalue().strip()
    print(f"[{name}] transitions: {transitions}, text: {text!r}, warnings: {warnings!r}")
    if "foo" not in doc.astext():
        bad = True
print("required: the thematic break and the text 'foo' of the div body appear in the doctree")
sys.exit(1 if bad else 0)
