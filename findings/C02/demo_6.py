"""C02 finding 6: a repeated `{#id}` attribute makes docutils append its
'Duplicate explicit target name' system_message INSIDE the leaf node, so code
text / inline code / images gain foreign content."""
import os
import sys

sys.path.insert(0, os.path.dirname(os.path.abspath(__file__)))
from docutils import nodes

from _common import docutils_doctree, token_tree

EXT = {"myst_enable_extensions": ["attrs_block", "attrs_inline"]}
bad = False

text = "{#x}\nintro\n\n{#x}\n```\ncode\n```\n"
fence = next(n for n in token_tree(text, **EXT).walk() if n.type == "fence")
block = next(docutils_doctree(text, **EXT).findall(nodes.literal_block))
print(f"code block : token {fence.content!r}, doctree {block.astext()!r}")
bad |= block.astext().rstrip("\n") != fence.content.rstrip("\n")

text = "`a`{#y} and `b`{#y}\n"
literals = [n.astext() for n in docutils_doctree(text, **EXT).findall(nodes.literal)]
print(f"inline code: doctree {literals!r}, required ['a', 'b']")
bad |= literals != ["a", "b"]

text = "![a](a.png){#z} ![b](b.png){#z}\n"
images = list(docutils_doctree(text, **EXT).findall(nodes.image))
print(f"images     : children {[len(i.children) for i in images]}, required [0, 0] (image is a leaf)")
bad |= any(i.children for i in images)

# no attribute extension needed: two labelled equations with the same label
text = "$$a=1$$ (eq)\n\n$$b=2$$ (eq)\n"
maths = [n.astext() for n in docutils_doctree(text, myst_enable_extensions=["dollarmath"]).findall(nodes.math_block)]
print(f"math blocks: doctree {maths!r}, required ['a=1', 'b=2']")
bad |= maths != ["a=1", "b=2"]
sys.exit(1 if bad else 0)
