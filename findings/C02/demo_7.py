"""C02 finding 7: docutils back end, `myst_number_code_blocks`: the code text
ends with a newline, so NumberLines emits a numbered phantom last line when the
text is not lexed (language without lexer / 'text' / highlighting off), and with
a lexer the numbers are attached to the wrong lines when the block starts with a
blank line."""
import os
import sys

sys.path.insert(0, os.path.dirname(os.path.abspath(__file__)))
from docutils import nodes

from _common import docutils_doctree

bad = False
text = "```text\na\nb\n```\n"
block = next(docutils_doctree(text, myst_number_code_blocks=["text"]).findall(nodes.literal_block))
numbers = [n.astext() for n in block.findall(nodes.inline) if "ln" in n["classes"]]
print(f"'text' block with 2 lines: line-number tokens {numbers!r}, required ['1 ', '2 ']")
bad |= len(numbers) != 2

text = "```python\n\nx = 1\n```\n"
block = next(docutils_doctree(text, myst_number_code_blocks=["python"]).findall(nodes.literal_block))
print(f"python block '\\nx = 1': doctree text {block.astext()!r}; required: 'x = 1' is line 2")
bad |= "2 x = 1" not in block.astext()
sys.exit(1 if bad else 0)
