"""C02 finding 8 (borderline, token side): create_md_parser keeps markdown-it's
`maxNesting=20`, so lists nested deeper than 10 levels / block quotes deeper than
19 levels lose their content silently, in every mode and both back ends."""
import os
import sys

sys.path.insert(0, os.path.dirname(os.path.abspath(__file__)))
from _common import docutils_doctree, sphinx_doctree

bad = False
lists = "".join("  " * i + f"- item{i}\n" for i in range(12))
quotes = "> " * 20 + "innermost words\n"
for name, fn in (("docutils", docutils_doctree), ("sphinx", sphinx_doctree)):
    for overrides in ({}, {"myst_commonmark_only": True}):
        mode = "commonmark" if overrides else "myst"
        doc = fn(lists, **overrides)
        missing = [f"item{i}" for i in range(12) if f"item{i}" not in doc.astext().split()]
        doc2 = fn(quotes, **overrides)
        warnings = doc.settings.warning_stream.getvalue() + doc2.settings.warning_stream.getvalue()
        print(
            f"[{name}/{mode}] 12-level list: missing {missing}; "
            f"20-level quote text: {doc2.astext()!r}; warnings: {warnings!r}"
        )
        if missing or "innermost words" not in doc2.astext():
            bad = True
print("required: every text leaf of the document appears in the doctree (arbitrary nesting depth)")
sys.exit(1 if bad else 0)
