"""C04 finding 11: paragraphs in table cells (and rows/entries, '%' comments, field bodies) carry a stale line: that of the last directive run before them (or 0)

Run: PYTHONPATH=<tree> /venv/bin/python demo_11.py   (exit 1 = defect present)
"""
import io, re, sys
from docutils import nodes
from docutils.core import publish_doctree
from myst_parser.parsers.docutils_ import Parser


def parse(text, exts=("colon_fence",), source_path=None, **kw):
    ws = io.StringIO()
    so = {"myst_enable_extensions": list(exts), "warning_stream": ws, "halt_level": 5}
    so.update(kw)
    doc = publish_doctree(text, parser=Parser(), settings_overrides=so, source_path=source_path)
    return doc, ws.getvalue()


def numbered(text):
    return "\n".join(f"  {i:2}| {l}" for i, l in enumerate(text.splitlines(), 1))


def marker_lines(doc, kinds=(nodes.paragraph,)):
    """{marker: node.line} for nodes of the given kinds whose text holds a marker word mkN"""
    out = {}
    for n in doc.findall(lambda n: isinstance(n, kinds)):
        if isinstance(n.parent, nodes.system_message):
            continue
        m = re.search(r"mk\d+", n.astext())
        if m and m.group(0) not in out:
            out[m.group(0)] = n.line
    return out


def true_lines(text):
    """{marker: 1-based line where the marker word occurs in the source}"""
    out = {}
    for i, l in enumerate(text.splitlines(), 1):
        for m in re.findall(r"mk\d+", l):
            out.setdefault(m, i)
    return out


def warn_lines(stream, pattern):
    """line numbers in the '<source>:<line>:' prefix of warning-stream lines matching pattern"""
    out = []
    for l in stream.splitlines():
        m = re.match(r"(.*?):(\d+): \((?:WARNING|ERROR|SEVERE)/\d\)", l)
        if m and re.search(pattern, l):
            out.append((m.group(1), int(m.group(2))))
    return out


def verdict(ok):
    print("RESULT:", "behaviour matches the statement" if ok else "DEFECT PRESENT")
    sys.exit(0 if ok else 1)

text = """mk0

```{note}
mk1
```

filler

| a | b |
|---|---|
| mk2 cell | mk3 cell |

% mk4 comment
"""
doc, warn = parse(text)
print(numbered(text))
got = marker_lines(doc)
com = [n.line for n in doc.findall(nodes.comment)]
print("observed: cell paragraphs", {k: got[k] for k in ("mk2", "mk3")}, " comment:", com)
print("required: cell paragraphs {'mk2': 11, 'mk3': 11}  comment: [13]")
text2 = "| a |\n|---|\n| mk1 cell |\n"
doc, _ = parse(text2)
print("without any directive before: observed", marker_lines(doc), " required {'mk1': 3}")
verdict(got["mk2"] == 11 and got["mk3"] == 11 and com == [13] and marker_lines(doc) == {"mk1": 3})
