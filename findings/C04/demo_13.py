"""C04 finding 13: parsed-literal output has line = (body offset + 1), i.e. relative to the directive instead of absolute

Run: PYTHONPATH=<tree> /venv/bin/python demo_13.py   (exit 1 = defect present)
"""
import io, re, sys
from docutils import nodes
from docutils.core import publish_doctree
from myst_parser.parsers.docutils_ import Parser


def parse(text, exts=("colon_fence",), source_path=None, **kw):
    ws = io.StringIO()
    so = {"myst_enable_extensions": list(exts), "warning_stream": ws, "halt_level": 5}
    so.update(kw)
    doc = publish_doctree(text, parser=Parser(), settings_overrides=so, source_path=source_path)
    return doc, ws.getvalue()


def numbered(text):
    return "\n".join(f"  {i:2}| {l}" for i, l in enumerate(text.splitlines(), 1))


def marker_lines(doc, kinds=(nodes.paragraph,)):
    """{marker: node.line} for nodes of the given kinds whose text holds a marker word mkN"""
    out = {}
    for n in doc.findall(lambda n: isinstance(n, kinds)):
        if isinstance(n.parent, nodes.system_message):
            continue
        m = re.search(r"mk\d+", n.astext())
        if m and m.group(0) not in out:
            out[m.group(0)] = n.line
    return out


def true_lines(text):
    """{marker: 1-based line where the marker word occurs in the source}"""
    out = {}
    for i, l in enumerate(text.splitlines(), 1):
        for m in re.findall(r"mk\d+", l):
            out.setdefault(m, i)
    return out


def warn_lines(stream, pattern):
    """line numbers in the '<source>:<line>:' prefix of warning-stream lines matching pattern"""
    out = []
    for l in stream.splitlines():
        m = re.match(r"(.*?):(\d+): \((?:WARNING|ERROR|SEVERE)/\d\)", l)
        if m and re.search(pattern, l):
            out.append((m.group(1), int(m.group(2))))
    return out


def verdict(ok):
    print("RESULT:", "behaviour matches the statement" if ok else "DEFECT PRESENT")
    sys.exit(0 if ok else 1)

text = """mk0

filler

- item

  ```{parsed-literal}
  :class: c

  mk1 literal *text*
  ```
"""
doc, warn = parse(text)
print(numbered(text))
lb = next(iter(doc.findall(nodes.literal_block)))
print("observed literal_block.line:", lb.line)
print("required: 7 (the directive) -- docutils itself intends the first content line, 10")
verdict(lb.line in (7, 10))
