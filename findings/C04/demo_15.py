"""C04 finding 15 (Sphinx): the source in the '<source>:<line>' prefix of MyST warnings is '<path>.md.rst' (path passed where Sphinx expects a docname)

Run: PYTHONPATH=<tree> /venv/bin/python demo_15.py   (exit 1 = defect present)
"""
import io, re, sys
from docutils import nodes
from docutils.core import publish_doctree
from myst_parser.parsers.docutils_ import Parser


def parse(text, exts=("colon_fence",), source_path=None, **kw):
    ws = io.StringIO()
    so = {"myst_enable_extensions": list(exts), "warning_stream": ws, "halt_level": 5}
    so.update(kw)
    doc = publish_doctree(text, parser=Parser(), settings_overrides=so, source_path=source_path)
    return doc, ws.getvalue()


def numbered(text):
    return "\n".join(f"  {i:2}| {l}" for i, l in enumerate(text.splitlines(), 1))


def marker_lines(doc, kinds=(nodes.paragraph,)):
    """{marker: node.line} for nodes of the given kinds whose text holds a marker word mkN"""
    out = {}
    for n in doc.findall(lambda n: isinstance(n, kinds)):
        if isinstance(n.parent, nodes.system_message):
            continue
        m = re.search(r"mk\d+", n.astext())
        if m and m.group(0) not in out:
            out[m.group(0)] = n.line
    return out


def true_lines(text):
    """{marker: 1-based line where the marker word occurs in the source}"""
    out = {}
    for i, l in enumerate(text.splitlines(), 1):
        for m in re.findall(r"mk\d+", l):
            out.setdefault(m, i)
    return out


def warn_lines(stream, pattern):
    """line numbers in the '<source>:<line>:' prefix of warning-stream lines matching pattern"""
    out = []
    for l in stream.splitlines():
        m = re.match(r"(.*?):(\d+): \((?:WARNING|ERROR|SEVERE)/\d\)", l)
        if m and re.search(pattern, l):
            out.append((m.group(1), int(m.group(2))))
    return out


def verdict(ok):
    print("RESULT:", "behaviour matches the statement" if ok else "DEFECT PRESENT")
    sys.exit(0 if ok else 1)

import tempfile, pathlib, os
from sphinx.application import Sphinx


def sphinx_build(files):
    tmp = pathlib.Path(tempfile.mkdtemp())
    src = tmp / "src"
    src.mkdir()
    (src / "conf.py").write_text("extensions=['myst_parser']\n")
    for k, v in files.items():
        (src / k).write_text(v)
    status, warning = io.StringIO(), io.StringIO()
    app = Sphinx(str(src), str(src), str(tmp / "out"), str(tmp / "dt"), "html", status=status, warning=warning, freshenv=True)
    trees = {}
    app.connect("doctree-read", lambda app, dt: trees.__setitem__(app.env.docname, dt.deepcopy()))
    app.build()
    return trees, re.sub(r"\x1b\[[0-9;]*m", "", warning.getvalue()), src


text = "# Title\n\nmk1 {zzrole}`x`\n"
trees, warn, src = sphinx_build({"index.md": text})
line = next(l for l in warn.splitlines() if "zzrole" in l)
print("observed warning:", line.replace(str(src) + os.sep, "<srcdir>/"))
print("required prefix : <srcdir>/index.md:3:")
verdict(line.startswith(str(src / "index.md") + ":3:"))
