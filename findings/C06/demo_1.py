import os as _os; _os.makedirs("/tmp/c06-demo-scratch", exist_ok=True)
"""C06 demo 1: a directive body that starts with a colon fence is eaten as an option block.

The colon-fence renderer has a workaround (prepend a newline when the body starts
with ":::"), but only for a colon-fenced parent, only when the nested fence is the
very first thing (no option lines before it) and only when it is not indented.
"""
import sys

# ---- helpers (same in every demo) ----------------------------------------
import io
import re

from docutils import nodes
from docutils.core import publish_doctree
from docutils.frontend import get_default_settings
from docutils.utils import new_document

from myst_parser.parsers.docutils_ import Parser

EXTS = ["colon_fence", "deflist", "fieldlist", "dollarmath", "substitution", "attrs_block"]


def parse(text, source="/tmp/c06-demo-scratch/doc.md", transforms=False, **overrides):
    """Run the real MyST docutils parser. Returns (document, warnings_text)."""
    stream = io.StringIO()
    so = {
        "myst_enable_extensions": list(EXTS),
        "warning_stream": stream,
        "halt_level": 5,
        "report_level": 2,
    }
    so.update(overrides)
    if transforms:
        doc = publish_doctree(
            text, source_path=source, parser=Parser(), settings_overrides=so
        )
        return doc, stream.getvalue()
    settings = get_default_settings(Parser)
    for key, value in so.items():
        setattr(settings, key, value)
    doc = new_document(source, settings)
    Parser().parse(text, doc)
    return doc, stream.getvalue()


def fmt(node_list):
    """pformat with line/source attributes and generated ids masked."""
    text = "".join(n.pformat() for n in node_list)
    text = re.sub(r' (line|source)="[^"]*"', "", text)
    text = re.sub(r'(ids|backrefs|refid)="[^"]*"', r'\1="*"', text)
    return text


def first(doc, cls):
    for node in doc.findall(cls):
        return node
    return None


def show(title, text):
    print(f"--- {title}")
    print(text.rstrip("\n") if text.strip() else "(nothing)")

# ---- demo ------------------------------------------------------------
X = ":::{tip}\ninner\n:::"
reference, _ = parse(X)
required = fmt(reference.children)

cases = {
    "backtick parent": "````{note}\n" + X + "\n````\n",
    "tilde parent": "~~~~{note}\n" + X + "\n~~~~\n",
    "colon parent, option line first": "::::{note}\n:class: x\n" + X + "\n::::\n",
    "colon parent, nested fence indented 1": "::::{note}\n :::{tip}\n inner\n :::\n::::\n",
    "colon parent (control)": "::::{note}\n" + X + "\n::::\n",
}
show("required children of the note (= top-level render of X)", required)
bad = 0
for label, text in cases.items():
    doc, warnings = parse(text)
    note = first(doc, nodes.note)
    observed = fmt(note.children) if note is not None else "(no note node)"
    ok = observed == required
    print(f"\n### {label}: {'same' if ok else 'DIFFERENT'}")
    print(text)
    if not ok:
        bad += 1
        show("observed children of the note", observed)
        show("warnings", warnings)
print(f"\n{bad} of {len(cases)} wrappers lose the nested directive")
sys.exit(1 if bad else 0)
