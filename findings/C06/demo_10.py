import os as _os; _os.makedirs("/tmp/c06-demo-scratch", exist_ok=True)
"""C06 demo 10: a file that includes itself (directly or through another file) ends in an
uncaught RecursionError; docutils' own include reports 'circular inclusion' as a warning.
"""
import sys

# ---- helpers (same in every demo) ----------------------------------------
import io
import re

from docutils import nodes
from docutils.core import publish_doctree
from docutils.frontend import get_default_settings
from docutils.utils import new_document

from myst_parser.parsers.docutils_ import Parser

EXTS = ["colon_fence", "deflist", "fieldlist", "dollarmath", "substitution", "attrs_block"]


def parse(text, source="/tmp/c06-demo-scratch/doc.md", transforms=False, **overrides):
    """Run the real MyST docutils parser. Returns (document, warnings_text)."""
    stream = io.StringIO()
    so = {
        "myst_enable_extensions": list(EXTS),
        "warning_stream": stream,
        "halt_level": 5,
        "report_level": 2,
    }
    so.update(overrides)
    if transforms:
        doc = publish_doctree(
            text, source_path=source, parser=Parser(), settings_overrides=so
        )
        return doc, stream.getvalue()
    settings = get_default_settings(Parser)
    for key, value in so.items():
        setattr(settings, key, value)
    doc = new_document(source, settings)
    Parser().parse(text, doc)
    return doc, stream.getvalue()


def fmt(node_list):
    """pformat with line/source attributes and generated ids masked."""
    text = "".join(n.pformat() for n in node_list)
    text = re.sub(r' (line|source)="[^"]*"', "", text)
    text = re.sub(r'(ids|backrefs|refid)="[^"]*"', r'\1="*"', text)
    return text


def first(doc, cls):
    for node in doc.findall(cls):
        return node
    return None


def show(title, text):
    print(f"--- {title}")
    print(text.rstrip("\n") if text.strip() else "(nothing)")

# ---- demo ------------------------------------------------------------
import os

os.makedirs("/tmp/c06-demo-scratch", exist_ok=True)
with open("/tmp/c06-demo-scratch/inc_a.md", "w") as handle:
    handle.write("a\n\n```{include} inc_b.md\n```\n")
with open("/tmp/c06-demo-scratch/inc_b.md", "w") as handle:
    handle.write("b\n\n```{include} inc_a.md\n```\n")
try:
    doc, warnings = parse("```{include} inc_a.md\n```\n")
except RecursionError:
    print("observed: RecursionError propagates out of Parser.parse")
    print("required: a system message / warning about the circular inclusion")
    sys.exit(1)
print("observed: no exception;", warnings.strip()[:300])
sys.exit(0)
