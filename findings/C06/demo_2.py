import os as _os; _os.makedirs("/tmp/c06-demo-scratch", exist_ok=True)
"""C06 demo 2: link reference definitions inside nested content are not usable from the
rest of the document (top-level text is tokenised before any nested text is parsed),
and the "first definition wins" order is inverted between nested and top-level text.
"""
import sys

# ---- helpers (same in every demo) ----------------------------------------
import io
import re

from docutils import nodes
from docutils.core import publish_doctree
from docutils.frontend import get_default_settings
from docutils.utils import new_document

from myst_parser.parsers.docutils_ import Parser

EXTS = ["colon_fence", "deflist", "fieldlist", "dollarmath", "substitution", "attrs_block"]


def parse(text, source="/tmp/c06-demo-scratch/doc.md", transforms=False, **overrides):
    """Run the real MyST docutils parser. Returns (document, warnings_text)."""
    stream = io.StringIO()
    so = {
        "myst_enable_extensions": list(EXTS),
        "warning_stream": stream,
        "halt_level": 5,
        "report_level": 2,
    }
    so.update(overrides)
    if transforms:
        doc = publish_doctree(
            text, source_path=source, parser=Parser(), settings_overrides=so
        )
        return doc, stream.getvalue()
    settings = get_default_settings(Parser)
    for key, value in so.items():
        setattr(settings, key, value)
    doc = new_document(source, settings)
    Parser().parse(text, doc)
    return doc, stream.getvalue()


def fmt(node_list):
    """pformat with line/source attributes and generated ids masked."""
    text = "".join(n.pformat() for n in node_list)
    text = re.sub(r' (line|source)="[^"]*"', "", text)
    text = re.sub(r'(ids|backrefs|refid)="[^"]*"', r'\1="*"', text)
    return text


def first(doc, cls):
    for node in doc.findall(cls):
        return node
    return None


def show(title, text):
    print(f"--- {title}")
    print(text.rstrip("\n") if text.strip() else "(nothing)")

# ---- demo ------------------------------------------------------------
import os

DEF = "[ref]: https://example.com/x"
USE = "use [text][ref]"
os.makedirs("/tmp/c06-demo-scratch", exist_ok=True)
with open("/tmp/c06-demo-scratch/inc_ref.md", "w") as handle:
    handle.write(DEF + "\n\nincluded para\n")


def uri_of_use(doc):
    for para in doc.findall(nodes.paragraph):
        if para.astext().startswith("use "):
            refs = list(para.findall(nodes.reference))
            return refs[0].get("refuri") if refs else None
    return "?"


cases = {
    "in place (control)": DEF + "\n\nbody\n\n" + USE + "\n",
    "definition in a note, used after it": "```{note}\n" + DEF + "\n\nbody\n```\n\n" + USE + "\n",
    "definition in a note, used before it": USE + "\n\n:::{note}\n" + DEF + "\n\nbody\n:::\n",
    "definition in an included file": "```{include} inc_ref.md\n```\n\n" + USE + "\n",
    "definition in a block substitution": "{{blk}}\n\n" + USE + "\n",
    "definition in a later note, used in an earlier note": "```{tip}\n" + USE + "\n```\n\n```{note}\n" + DEF + "\n\nbody\n```\n",
}
bad = 0
for label, text in cases.items():
    doc, _ = parse(text, transforms=True, myst_substitutions={"blk": DEF + "\n\nbody"})
    uri = uri_of_use(doc)
    ok = uri == "https://example.com/x"
    bad += not ok
    print(f"{label}: required refuri='https://example.com/x', observed {uri!r}"
          + ("" if ok else "   <-- '[text][ref]' left as literal text"))

# precedence: in CommonMark the first definition in document order wins
text = ":::{note}\n[a]: https://first\n\nuse [x][a]\n:::\n\n[a]: https://second\n"
in_place = "[a]: https://first\n\nuse [x][a]\n\n[a]: https://second\n"
d1, _ = parse(in_place, transforms=True)
d2, _ = parse(text, transforms=True)
u1, u2 = uri_of_use(d1), uri_of_use(d2)
print(f"precedence, in place: {u1!r}; same text with the first part in a note: {u2!r}")
if u1 != u2:
    bad += 1
print(f"\n{bad} violations")
sys.exit(1 if bad else 0)
