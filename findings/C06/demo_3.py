import os as _os; _os.makedirs("/tmp/c06-demo-scratch", exist_ok=True)
"""C06 demo 3: every nested parse drops a leading '---' ... '---' span as "front matter".

nested_render_text pops a front_matter token unconditionally; that is meant for included
documents, but it also fires for directive bodies, ::: divs and substitutions, where the
same Markdown written in place (not at the very start of the file) is
transition / paragraph / transition. The content disappears without any warning.
"""
import sys

# ---- helpers (same in every demo) ----------------------------------------
import io
import re

from docutils import nodes
from docutils.core import publish_doctree
from docutils.frontend import get_default_settings
from docutils.utils import new_document

from myst_parser.parsers.docutils_ import Parser

EXTS = ["colon_fence", "deflist", "fieldlist", "dollarmath", "substitution", "attrs_block"]


def parse(text, source="/tmp/c06-demo-scratch/doc.md", transforms=False, **overrides):
    """Run the real MyST docutils parser. Returns (document, warnings_text)."""
    stream = io.StringIO()
    so = {
        "myst_enable_extensions": list(EXTS),
        "warning_stream": stream,
        "halt_level": 5,
        "report_level": 2,
    }
    so.update(overrides)
    if transforms:
        doc = publish_doctree(
            text, source_path=source, parser=Parser(), settings_overrides=so
        )
        return doc, stream.getvalue()
    settings = get_default_settings(Parser)
    for key, value in so.items():
        setattr(settings, key, value)
    doc = new_document(source, settings)
    Parser().parse(text, doc)
    return doc, stream.getvalue()


def fmt(node_list):
    """pformat with line/source attributes and generated ids masked."""
    text = "".join(n.pformat() for n in node_list)
    text = re.sub(r' (line|source)="[^"]*"', "", text)
    text = re.sub(r'(ids|backrefs|refid)="[^"]*"', r'\1="*"', text)
    return text


def first(doc, cls):
    for node in doc.findall(cls):
        return node
    return None


def show(title, text):
    print(f"--- {title}")
    print(text.rstrip("\n") if text.strip() else "(nothing)")

# ---- demo ------------------------------------------------------------
X = "---\n\nA part of the note\n\n---\n\nRest"
reference, _ = parse("lead\n\n" + X)
required = fmt(reference.children[1:])

cases = {
    "note, body after a blank line": (":::{note}\n\n" + X + "\n:::\n", nodes.note, {}),
    "note, body after an option": ("```{note}\n:class: c\n\n" + X + "\n```\n", nodes.note, {}),
    "epigraph (directive without options)": ("```{epigraph}\n" + X + "\n```\n", nodes.block_quote, {}),
    "plain ::: div": ("lead\n\n:::box\n" + X + "\n:::\n", nodes.container, {}),
    "block substitution": ("lead\n\n{{v}}\n", None, {"myst_substitutions": {"v": X}}),
}
show("required (X written in place after a lead paragraph)", required)
bad = 0
for label, (text, cls, kw) in cases.items():
    doc, warnings = parse(text, **kw)
    if cls is None:
        observed = fmt(doc.children[1:])
    else:
        node = first(doc, cls)
        observed = fmt(node.children) if node is not None else "(no node)"
    ok = observed == required
    bad += not ok
    print(f"\n### {label}: {'same' if ok else 'DIFFERENT'}")
    if not ok:
        show("observed", observed)
        show("warnings", warnings)
print(f"\n{bad} of {len(cases)} wrappers silently drop the text between the two '---'")
sys.exit(1 if bad else 0)
