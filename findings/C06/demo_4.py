import os as _os; _os.makedirs("/tmp/c06-demo-scratch", exist_ok=True)
"""C06 demo 4: directive bodies and included files are cut into lines with str.splitlines(),
which also splits on FF, VT, FS, GS, RS, NEL, U+2028 and U+2029. Markdown (and markdown-it)
only knows LF / CR / CRLF as line endings, so those characters are ordinary text at top level
but become line breaks (new list items, new lines in code) once the text is nested.
"""
import sys

# ---- helpers (same in every demo) ----------------------------------------
import io
import re

from docutils import nodes
from docutils.core import publish_doctree
from docutils.frontend import get_default_settings
from docutils.utils import new_document

from myst_parser.parsers.docutils_ import Parser

EXTS = ["colon_fence", "deflist", "fieldlist", "dollarmath", "substitution", "attrs_block"]


def parse(text, source="/tmp/c06-demo-scratch/doc.md", transforms=False, **overrides):
    """Run the real MyST docutils parser. Returns (document, warnings_text)."""
    stream = io.StringIO()
    so = {
        "myst_enable_extensions": list(EXTS),
        "warning_stream": stream,
        "halt_level": 5,
        "report_level": 2,
    }
    so.update(overrides)
    if transforms:
        doc = publish_doctree(
            text, source_path=source, parser=Parser(), settings_overrides=so
        )
        return doc, stream.getvalue()
    settings = get_default_settings(Parser)
    for key, value in so.items():
        setattr(settings, key, value)
    doc = new_document(source, settings)
    Parser().parse(text, doc)
    return doc, stream.getvalue()


def fmt(node_list):
    """pformat with line/source attributes and generated ids masked."""
    text = "".join(n.pformat() for n in node_list)
    text = re.sub(r' (line|source)="[^"]*"', "", text)
    text = re.sub(r'(ids|backrefs|refid)="[^"]*"', r'\1="*"', text)
    return text


def first(doc, cls):
    for node in doc.findall(cls):
        return node
    return None


def show(title, text):
    print(f"--- {title}")
    print(text.rstrip("\n") if text.strip() else "(nothing)")

# ---- demo ------------------------------------------------------------
import os

os.makedirs("/tmp/c06-demo-scratch", exist_ok=True)
chars = {"FF \\x0c": "\x0c", "VT \\x0b": "\x0b", "FS \\x1c": "\x1c", "NEL \\x85": "\x85",
         "LS \\u2028": " ", "PS \\u2029": " "}
bad = 0
total = 0
for label, ch in chars.items():
    X = f"- item{ch}- same item\n\n```\ncode{ch}same line\n```"
    ref, _ = parse(X)
    required = (fmt(ref.children), ref.astext())
    doc, _ = parse("`````{note}\n" + X + "\n`````\n")
    note = first(doc, nodes.note)
    obs_note = (fmt(note.children), note.astext())
    with open("/tmp/c06-demo-scratch/inc_sep.md", "w", newline="") as handle:
        handle.write(X + "\n")
    doc, _ = parse("```{include} inc_sep.md\n```\n")
    obs_inc = (fmt(doc.children), doc.astext())
    for where, obs in (("note body", obs_note), ("include", obs_inc)):
        total += 1
        ok = obs == required
        bad += not ok
        print(f"{label} in {where}: {'same' if ok else 'DIFFERENT'}")
        if not ok and ch == " ":
            show("required", required[0])
            show("observed", obs[0])
print(f"\n{bad} of {total} comparisons differ")
sys.exit(1 if bad else 0)
