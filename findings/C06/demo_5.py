import os as _os; _os.makedirs("/tmp/c06-demo-scratch", exist_ok=True)
"""C06 demo 5: a UTF-8 byte order mark at the start of an included file is kept as text.

docutils strips the BOM when it reads the main source file (and in its own include
directive), so the same bytes parsed as a document give a list; through MyST's include
the first line is no longer recognised as Markdown syntax.
"""
import sys

# ---- helpers (same in every demo) ----------------------------------------
import io
import re

from docutils import nodes
from docutils.core import publish_doctree
from docutils.frontend import get_default_settings
from docutils.utils import new_document

from myst_parser.parsers.docutils_ import Parser

EXTS = ["colon_fence", "deflist", "fieldlist", "dollarmath", "substitution", "attrs_block"]


def parse(text, source="/tmp/c06-demo-scratch/doc.md", transforms=False, **overrides):
    """Run the real MyST docutils parser. Returns (document, warnings_text)."""
    stream = io.StringIO()
    so = {
        "myst_enable_extensions": list(EXTS),
        "warning_stream": stream,
        "halt_level": 5,
        "report_level": 2,
    }
    so.update(overrides)
    if transforms:
        doc = publish_doctree(
            text, source_path=source, parser=Parser(), settings_overrides=so
        )
        return doc, stream.getvalue()
    settings = get_default_settings(Parser)
    for key, value in so.items():
        setattr(settings, key, value)
    doc = new_document(source, settings)
    Parser().parse(text, doc)
    return doc, stream.getvalue()


def fmt(node_list):
    """pformat with line/source attributes and generated ids masked."""
    text = "".join(n.pformat() for n in node_list)
    text = re.sub(r' (line|source)="[^"]*"', "", text)
    text = re.sub(r'(ids|backrefs|refid)="[^"]*"', r'\1="*"', text)
    return text


def first(doc, cls):
    for node in doc.findall(cls):
        return node
    return None


def show(title, text):
    print(f"--- {title}")
    print(text.rstrip("\n") if text.strip() else "(nothing)")

# ---- demo ------------------------------------------------------------
import os

from docutils.io import FileInput

os.makedirs("/tmp/c06-demo-scratch", exist_ok=True)
data = b"\xef\xbb\xbf- item one\n- item two\n"
with open("/tmp/c06-demo-scratch/inc_bom.md", "wb") as handle:
    handle.write(data)
ref = publish_doctree(
    None, source_path="/tmp/c06-demo-scratch/inc_bom.md", source_class=FileInput,
    parser=Parser(), settings_overrides={"warning_stream": io.StringIO()},
)
required = fmt(ref.children)
doc, _ = parse("```{include} inc_bom.md\n```\n")
observed = fmt(doc.children)
show("required (the same file parsed as a document)", required)
show("observed (the file pulled in with {include})", observed)
sys.exit(1 if observed != required else 0)
