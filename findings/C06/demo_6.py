import os as _os; _os.makedirs("/tmp/c06-demo-scratch", exist_ok=True)
"""C06 demo 6: epigraph / pull-quote / highlights cut their body on raw lines.

MockState.block_quote looks for a line starting with '--' after a blank line anywhere in
the raw body, without knowing about Markdown blocks. A fenced code block that contains
such a line (an SQL comment, a command-line option) is torn apart, and everything after
the "attribution" is dropped.
"""
import sys

# ---- helpers (same in every demo) ----------------------------------------
import io
import re

from docutils import nodes
from docutils.core import publish_doctree
from docutils.frontend import get_default_settings
from docutils.utils import new_document

from myst_parser.parsers.docutils_ import Parser

EXTS = ["colon_fence", "deflist", "fieldlist", "dollarmath", "substitution", "attrs_block"]


def parse(text, source="/tmp/c06-demo-scratch/doc.md", transforms=False, **overrides):
    """Run the real MyST docutils parser. Returns (document, warnings_text)."""
    stream = io.StringIO()
    so = {
        "myst_enable_extensions": list(EXTS),
        "warning_stream": stream,
        "halt_level": 5,
        "report_level": 2,
    }
    so.update(overrides)
    if transforms:
        doc = publish_doctree(
            text, source_path=source, parser=Parser(), settings_overrides=so
        )
        return doc, stream.getvalue()
    settings = get_default_settings(Parser)
    for key, value in so.items():
        setattr(settings, key, value)
    doc = new_document(source, settings)
    Parser().parse(text, doc)
    return doc, stream.getvalue()


def fmt(node_list):
    """pformat with line/source attributes and generated ids masked."""
    text = "".join(n.pformat() for n in node_list)
    text = re.sub(r' (line|source)="[^"]*"', "", text)
    text = re.sub(r'(ids|backrefs|refid)="[^"]*"', r'\1="*"', text)
    return text


def first(doc, cls):
    for node in doc.findall(cls):
        return node
    return None


def show(title, text):
    print(f"--- {title}")
    print(text.rstrip("\n") if text.strip() else "(nothing)")

# ---- demo ------------------------------------------------------------
bad = 0
X = "Some quote\n\n```sql\nSELECT 1\n\n-- a comment\nSELECT 2\n```\n\nlast paragraph"
ref, _ = parse(X)
required = fmt(ref.children)
doc, warnings = parse("`````{epigraph}\n" + X + "\n`````\n")
quote = first(doc, nodes.block_quote)
observed = fmt(quote.children)
show("required children of the block_quote (= top-level render of the body)", required)
show("observed", observed)
if observed != required:
    bad += 1

X2 = "Quote\n\n-- Author\n\nA paragraph after the attribution"
doc, _ = parse("```{epigraph}\n" + X2 + "\n```\n")
text = doc.astext()
print("\nbody:", repr(X2))
print("required: the text 'A paragraph after the attribution' is somewhere in the output")
print("observed document text:", repr(text))
if "after the attribution" not in text:
    bad += 1
sys.exit(1 if bad else 0)
