import os as _os; _os.makedirs("/tmp/c06-demo-scratch", exist_ok=True)
"""C06 demo 7: a thematic break as the first block of a directive body crashes the build.

At top level the same Markdown gives a transition (plus a docutils error message);
inside a directive the transition becomes the first child of a non-section node and the
docutils Transitions transform dies with a bare AssertionError.
"""
import sys

# ---- helpers (same in every demo) ----------------------------------------
import io
import re

from docutils import nodes
from docutils.core import publish_doctree
from docutils.frontend import get_default_settings
from docutils.utils import new_document

from myst_parser.parsers.docutils_ import Parser

EXTS = ["colon_fence", "deflist", "fieldlist", "dollarmath", "substitution", "attrs_block"]


def parse(text, source="/tmp/c06-demo-scratch/doc.md", transforms=False, **overrides):
    """Run the real MyST docutils parser. Returns (document, warnings_text)."""
    stream = io.StringIO()
    so = {
        "myst_enable_extensions": list(EXTS),
        "warning_stream": stream,
        "halt_level": 5,
        "report_level": 2,
    }
    so.update(overrides)
    if transforms:
        doc = publish_doctree(
            text, source_path=source, parser=Parser(), settings_overrides=so
        )
        return doc, stream.getvalue()
    settings = get_default_settings(Parser)
    for key, value in so.items():
        setattr(settings, key, value)
    doc = new_document(source, settings)
    Parser().parse(text, doc)
    return doc, stream.getvalue()


def fmt(node_list):
    """pformat with line/source attributes and generated ids masked."""
    text = "".join(n.pformat() for n in node_list)
    text = re.sub(r' (line|source)="[^"]*"', "", text)
    text = re.sub(r'(ids|backrefs|refid)="[^"]*"', r'\1="*"', text)
    return text


def first(doc, cls):
    for node in doc.findall(cls):
        return node
    return None


def show(title, text):
    print(f"--- {title}")
    print(text.rstrip("\n") if text.strip() else "(nothing)")

# ---- demo ------------------------------------------------------------
X = "***\n\nbody"
ref, _ = parse(X, transforms=True)
show("top level render of X (after transforms)", fmt(ref.children))
try:
    doc, _ = parse("```{note}\n" + X + "\n```\n", transforms=True)
except AssertionError as exc:
    import traceback
    print("--- observed for the note: AssertionError in", traceback.extract_tb(exc.__traceback__)[-1].name,
          "(", traceback.extract_tb(exc.__traceback__)[-1].filename.split("site-packages/")[-1], ")")
    print("--- required: nodes, not an exception")
    sys.exit(1)
show("observed for the note", fmt(doc.children))
sys.exit(0)
