import os as _os; _os.makedirs("/tmp/c06-demo-scratch", exist_ok=True)
"""C06 demo 8: an inline substitution whose value is a directive is only recognised
for fences of 3-10 characters that are immediately followed by '{'.

REGEX_DIRECTIVE_START = ^\\s{0,3}(`{3,10}|~{3,10}|:{3,10})\\{ decides between block and
inline parsing; a valid directive fence of 11+ characters, or one written '``` {note}'
(also a directive for the block parser), is parsed inline and turns into literal text.
"""
import sys

# ---- helpers (same in every demo) ----------------------------------------
import io
import re

from docutils import nodes
from docutils.core import publish_doctree
from docutils.frontend import get_default_settings
from docutils.utils import new_document

from myst_parser.parsers.docutils_ import Parser

EXTS = ["colon_fence", "deflist", "fieldlist", "dollarmath", "substitution", "attrs_block"]


def parse(text, source="/tmp/c06-demo-scratch/doc.md", transforms=False, **overrides):
    """Run the real MyST docutils parser. Returns (document, warnings_text)."""
    stream = io.StringIO()
    so = {
        "myst_enable_extensions": list(EXTS),
        "warning_stream": stream,
        "halt_level": 5,
        "report_level": 2,
    }
    so.update(overrides)
    if transforms:
        doc = publish_doctree(
            text, source_path=source, parser=Parser(), settings_overrides=so
        )
        return doc, stream.getvalue()
    settings = get_default_settings(Parser)
    for key, value in so.items():
        setattr(settings, key, value)
    doc = new_document(source, settings)
    Parser().parse(text, doc)
    return doc, stream.getvalue()


def fmt(node_list):
    """pformat with line/source attributes and generated ids masked."""
    text = "".join(n.pformat() for n in node_list)
    text = re.sub(r' (line|source)="[^"]*"', "", text)
    text = re.sub(r'(ids|backrefs|refid)="[^"]*"', r'\1="*"', text)
    return text


def first(doc, cls):
    for node in doc.findall(cls):
        return node
    return None


def show(title, text):
    print(f"--- {title}")
    print(text.rstrip("\n") if text.strip() else "(nothing)")

# ---- demo ------------------------------------------------------------
bad = 0
values = {
    "10 backticks (control)": "`" * 10 + "{note}\nhello\n" + "`" * 10,
    "11 backticks": "`" * 11 + "{note}\nhello\n" + "`" * 11,
    "12 colons": ":" * 12 + "{note}\nhello\n" + ":" * 12,
    "space before the brace": "``` {note}\nhello\n```",
}
for label, value in values.items():
    in_place, _ = parse("text\n\n" + value + "\n")
    assert first(in_place, nodes.note) is not None, "value is a directive when written in place"
    doc, _ = parse("text {{v}}\n", myst_substitutions={"v": value})
    ok = first(doc, nodes.note) is not None
    bad += not ok
    print(f"{label}: in place -> note; through 'text {{{{v}}}}' -> {'note' if ok else 'NO note:'}")
    if not ok:
        print(fmt(doc.children))
sys.exit(1 if bad else 0)
