import os as _os; _os.makedirs("/tmp/c06-demo-scratch", exist_ok=True)
"""C06 demo 9: {eval-rst} only exists for backtick / tilde fences.

render_fence special-cases the name '{eval-rst}'; render_colon_fence does not and looks
the name up as a docutils directive, which does not exist.
"""
import sys

# ---- helpers (same in every demo) ----------------------------------------
import io
import re

from docutils import nodes
from docutils.core import publish_doctree
from docutils.frontend import get_default_settings
from docutils.utils import new_document

from myst_parser.parsers.docutils_ import Parser

EXTS = ["colon_fence", "deflist", "fieldlist", "dollarmath", "substitution", "attrs_block"]


def parse(text, source="/tmp/c06-demo-scratch/doc.md", transforms=False, **overrides):
    """Run the real MyST docutils parser. Returns (document, warnings_text)."""
    stream = io.StringIO()
    so = {
        "myst_enable_extensions": list(EXTS),
        "warning_stream": stream,
        "halt_level": 5,
        "report_level": 2,
    }
    so.update(overrides)
    if transforms:
        doc = publish_doctree(
            text, source_path=source, parser=Parser(), settings_overrides=so
        )
        return doc, stream.getvalue()
    settings = get_default_settings(Parser)
    for key, value in so.items():
        setattr(settings, key, value)
    doc = new_document(source, settings)
    Parser().parse(text, doc)
    return doc, stream.getvalue()


def fmt(node_list):
    """pformat with line/source attributes and generated ids masked."""
    text = "".join(n.pformat() for n in node_list)
    text = re.sub(r' (line|source)="[^"]*"', "", text)
    text = re.sub(r'(ids|backrefs|refid)="[^"]*"', r'\1="*"', text)
    return text


def first(doc, cls):
    for node in doc.findall(cls):
        return node
    return None


def show(title, text):
    print(f"--- {title}")
    print(text.rstrip("\n") if text.strip() else "(nothing)")

# ---- demo ------------------------------------------------------------
a, _ = parse("```{eval-rst}\n*rst* text\n```\n")
b, warnings = parse(":::{eval-rst}\n*rst* text\n:::\n")
required, observed = fmt(a.children), fmt(b.children)
show("backtick fence", required)
show("colon fence", observed)
show("warnings", warnings)
sys.exit(1 if observed != required else 0)
