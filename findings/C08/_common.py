"""Shared helpers for the C08 demos (no project code is modified)."""
import io


def content_lines(content):
    """The lines of a directive's content, as Markdown sees them ('\\n' only)."""
    if content == "":
        return []
    lines = content.split("\n")
    if lines[-1] == "":
        lines.pop()
    return lines


def publish(text, **overrides):
    """Run the docutils front end; return (doctree, warning text)."""
    from docutils.core import publish_doctree

    from myst_parser.parsers.docutils_ import Parser

    stream = io.StringIO()
    settings = {"warning_stream": stream, "halt_level": 5, "report_level": 2}
    settings.update(overrides)
    doc = publish_doctree(text, parser=Parser(), settings_overrides=settings)
    return doc, stream.getvalue()
