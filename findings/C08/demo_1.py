"""C08 finding 1: an option block + content ending in a blank line
=> last body line lost and body_offset one too large (all nested line numbers +1)."""
import re
import sys

from docutils.parsers.rst.directives.admonitions import Note

from _common import content_lines, publish
from myst_parser.parsers.directives import parse_directive_text

bad = False
for content in (":class: a\n\nbody\n\n", "---\nclass: a\n---\nbody\n\n", ":class: a\n\n\n"):
    lines = content_lines(content)
    res = parse_directive_text(Note, "", content)
    # oracle from the statement: option block, then one optional blank line, rest is body
    if lines[0].startswith("---"):
        start = next(i for i in range(1, len(lines)) if lines[i].startswith("---")) + 1
    else:
        start = next((i for i, l in enumerate(lines) if not l.lstrip().startswith(":")), len(lines))
    if start < len(lines) and not lines[start].strip():
        start += 1
    print(f"content={content!r}")
    print(f"  observed: body={res.body!r} body_offset={res.body_offset}")
    print(f"  required: body={lines[start:]!r} body_offset={start}")
    if res.body != lines[start:] or res.body_offset != start:
        bad = True

# the same through the whole pipeline: the role is on line 4
text = "```{note}\n:class: a\n\nsecond {yy}`b`\n\n```\n"
_, warnings = publish(text)
m = re.search(r":(\d+): \(WARNING/2\) Unknown interpreted text role \"yy\"", warnings)
print(f"pipeline: {text!r}")
print(f"  observed line of the unknown-role warning: {m.group(1) if m else None}; required: 4")
if not m or m.group(1) != "4":
    bad = True
sys.exit(1 if bad else 0)
