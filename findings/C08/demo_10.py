"""C08 finding 10: validate_options=False (options read as full YAML):
(a) externally supplied defaults (additional_options) are ignored altogether;
(b) YAML values with explicit tags raise KeyError / IndexError / AttributeError out of
    parse_directive_text instead of a warning."""
import sys

from docutils.parsers.rst.directives.admonitions import Note

from myst_parser.parsers.directives import parse_directive_text

bad = False
res = parse_directive_text(Note, "", ":class: a\n\nbody\n", validate_options=False, additional_options={"name": "dflt"})
print(f"(a) observed options={res.options}; required: {{'class': 'a', 'name': 'dflt'}} (block wins, defaults fill in)")
if res.options.get("name") != "dflt":
    bad = True
for value in ("!!bool x", "!!int ''", "!!float _", "!!timestamp x"):
    content = f":class: {value}\n\nbody\n"
    try:
        res = parse_directive_text(Note, "", content, validate_options=False)
        obs = f"options={res.options} warnings={[w.msg for w in res.warnings]}"
        ok = bool(res.warnings) and res.body == ["body"]
    except Exception as exc:  # noqa: BLE001
        obs = f"raised {type(exc).__name__}: {exc}"
        ok = False
    print(f"(b) {content!r}: observed {obs}; required: a warning, body=['body']")
    bad |= not ok
sys.exit(1 if bad else 0)
