"""C08 finding 11: content that starts with a blank line and then a ':'-prefixed line is reported
as 'has an options block' although nothing is taken as options: spurious
'Splitting content across first line and body, when an options block is present' warning."""
import sys

from docutils.parsers.rst.directives.admonitions import Note

from myst_parser.parsers.directives import parse_directive_text

content = "\n:field: value\n"
res = parse_directive_text(Note, "first", content)
msgs = [w.msg for w in res.warnings]
print(f"parse_directive_text(Note, 'first', {content!r})")
print(f"  observed: options={res.options} body={res.body!r} warnings={msgs}")
print("  required: no options block here (the first content line is blank; ':field: value' stays in the body) -> no warning")
sys.exit(1 if msgs else 0)
