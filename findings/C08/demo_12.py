"""C08 finding 12 (caller side, html_to_nodes): HTML <img>/<div class="admonition"> attributes are
passed to the directive by writing them into a ':key: value' option block without quoting, so the
option tokenizer re-interprets them: text after ' #' is lost, quotes are stripped, and a line break
in the value starts a new option."""
import sys

from _common import publish

bad = False
for html, attr, required in (
    ('<img src="a.png" alt="Fig #1: x">\n', "alt", "Fig #1: x"),
    ('<img src="a.png" alt="\'quoted\'">\n', "alt", "'quoted'"),
):
    doc, warnings = publish(html, myst_enable_extensions=["html_image"])
    img = next(iter(doc.findall(lambda n: n.tagname == "image")))
    print(f"{html!r}: observed {attr}={img.get(attr)!r}; required {required!r}")
    bad |= img.get(attr) != required
html = '<img src="a.png" alt="a\n:class: injected">\n'
doc, warnings = publish(html, myst_enable_extensions=["html_image"])
img = next(iter(doc.findall(lambda n: n.tagname == "image")))
print(f"{html!r}: observed alt={img.get('alt')!r} classes={img['classes']}; required classes=[] (alt is one value)")
bad |= bool(img["classes"])
sys.exit(1 if bad else 0)
