"""C08 finding 2: text after the closing '---' of an option block leaks into the body /
shifts the blank-line handling (the closing delimiter line is cut by characters, not by line)."""
import sys

from docutils.parsers.rst.directives.admonitions import Note

from _common import content_lines
from myst_parser.parsers.directives import parse_directive_text

bad = False
for content in (
    "---\nclass: a\n--- # end of options\nbody\n",  # leak of 'end of options'
    "---\nclass: a\n---- x\nbody\n",
    "---\nclass: a\n--- \n\nbody\n",  # closing delimiter with a trailing space, then the blank separator line
):
    lines = content_lines(content)
    res = parse_directive_text(Note, "", content)
    close = next(i for i in range(1, len(lines)) if lines[i].startswith("---"))
    start = close + 1
    if start < len(lines) and not lines[start].strip():
        start += 1
    print(f"content={content!r}")
    print(f"  observed: options={res.options} body={res.body!r} body_offset={res.body_offset}")
    print(f"  required: body={lines[start:]!r} body_offset={start} (body lines are whole content lines after the block)")
    if res.body != lines[start:] or res.body_offset != start:
        bad = True
    if any(b not in lines for b in res.body):
        print("  -> a body line is not a line of the content at all")
sys.exit(1 if bad else 0)
