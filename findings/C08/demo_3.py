"""C08 finding 3: body started on the directive's first line (argument-less directive):
body_offset is reported as 0 although body[1] is content line 0, so every nested line number is +1."""
import re
import sys

from docutils.parsers.rst.directives.admonitions import Note

from _common import publish
from myst_parser.parsers.directives import parse_directive_text

content = "\nsecond {yy}`b`\n"
res = parse_directive_text(Note, "first", content)
print(f"parse_directive_text(Note, 'first', {content!r})")
print(f"  observed: body={res.body!r} body_offset={res.body_offset}")
print("  required: body[i] is content line body_offset+i  => body_offset=-1 (body[0] is the directive line itself)")

text = "```{note} first\n\nsecond {yy}`b`\n```\n"
_, warnings = publish(text)
m = re.search(r":(\d+): \(WARNING/2\) Unknown interpreted text role \"yy\"", warnings)
print(f"pipeline: {text!r}")
print(f"  observed line of the unknown-role warning: {m.group(1) if m else None}; required: 3")

text2 = "```{note}\nfirst\n\nsecond {yy}`b`\n```\n"
_, warnings2 = publish(text2)
m2 = re.search(r":(\d+): \(WARNING/2\) Unknown interpreted text role \"yy\"", warnings2)
print(f"control (no first-line body): {text2!r}: line {m2.group(1) if m2 else None}; required: 4")
sys.exit(0 if (m and m.group(1) == "3" and m2 and m2.group(1) == "4") else 1)
