"""C08 finding 4: colon-fence directive whose content starts with a nested ':::' fence:
render_colon_fence prepends '\\n' to the content, so the reported body offset is 1 instead of 0."""
import re
import sys

from _common import publish

text = "::::{note}\n:::{tip}\ntext {xx}`a`\n:::\n::::\n"
_, warnings = publish(text, myst_enable_extensions=["colon_fence"])
m = re.search(r":(\d+): \(WARNING/2\) Unknown interpreted text role \"xx\"", warnings)
print(f"{text!r}")
print(f"  observed line of the unknown-role warning: {m.group(1) if m else None}; required: 3")
# control: backtick outer fence with a leading blank line gives the right line
text2 = "````{note}\n\n:::{tip}\ntext {xx}`a`\n:::\n````\n"
_, warnings2 = publish(text2, myst_enable_extensions=["colon_fence"])
m2 = re.search(r":(\d+): \(WARNING/2\) Unknown interpreted text role \"xx\"", warnings2)
print(f"control {text2!r}: line {m2.group(1) if m2 else None}; required: 4")
sys.exit(0 if (m and m.group(1) == "3" and m2 and m2.group(1) == "4") else 1)
