"""C08 finding 5: body lines are produced with str.splitlines(), which also splits on
\\x0b \\x0c \\x1c \\x1d \\x1e \\x85 \\u2028 \\u2029: one content line becomes several body lines,
the separator character is lost and following line numbers shift."""
import re
import sys

from docutils.parsers.rst.directives.body import ParsedLiteral
from docutils.parsers.rst.directives.admonitions import Note

from _common import content_lines, publish
from myst_parser.parsers.directives import parse_directive_text

bad = False
for sep in "\x0b\x0c\x1c\x1d\x1e\x85\u2028\u2029":
    content = f"a = '{sep}'\nb\n"
    for cls, prefix in ((Note, ""), (Note, ":class: x\n")):
        res = parse_directive_text(cls, "", prefix + content)
        required = content_lines(content)
        ok = res.body == required
        if not ok:
            bad = True
        print(f"sep={sep!r} options={bool(prefix)}: observed body={res.body!r} required={required!r} {'ok' if ok else 'VIOLATION'}")

text = "```{code-block} python\nx = 1 \x0c\ny = '\u2028'\n```\n"
doc, _ = publish(text)
required_text = "x = 1 \x0c\ny = '\u2028'"
print(f"pipeline code-block text: observed {doc.astext()!r}; required {required_text!r}")
if doc.astext() != required_text:
    bad = True
text = "```{note}\na\x0cb\n\nsecond {yy}`b`\n```\n"
_, warnings = publish(text)
m = re.search(r":(\d+): \(WARNING/2\) Unknown interpreted text role \"yy\"", warnings)
print(f"pipeline line of role after a form feed: observed {m.group(1) if m else None}; required 4")
if not m or m.group(1) != "4":
    bad = True
sys.exit(1 if bad else 0)
