"""C08 finding 6: one malformed line in the option block drops EVERY option: the valid
options of the block and the externally supplied defaults (fence attributes) as well."""
import sys

from docutils.parsers.rst.directives.admonitions import Note

from _common import publish
from myst_parser.parsers.directives import parse_directive_text

bad = False
cases = [
    (":class: keep\n:name\n\nbody\n", {"name": "from-attrs"}, "a line without ':' after the key"),
    (":class: keep\t\n\nbody\n", {"name": "from-attrs"}, "a TAB after the value"),
    (":class: keep\n:name: 'unterminated\n\nbody\n", {"name": "from-attrs"}, "unterminated quote"),
]
for content, extra, why in cases:
    res = parse_directive_text(Note, "", content, additional_options=extra)
    print(f"{why}: content={content!r} additional_options={extra}")
    print(f"  observed: options={res.options} warnings={[w.msg for w in res.warnings]}")
    print("  required: options contains class=['keep'] (valid, kept) and name='from-attrs' (default), one warning for the bad line")
    if res.options.get("class") != ["keep"] or res.options.get("name") != "from-attrs":
        bad = True

text = "{#myid .cls}\n```note\n:class: other\n:bad\n\ntext\n```\n\n[link](#myid)\n"
doc, warnings = publish(text, myst_enable_extensions=["attrs_block"], myst_fence_as_directive=["note"])
note = doc.findall(lambda n: n.tagname == "note").__next__()
print(f"pipeline {text!r}")
print(f"  observed: note ids={note['ids']} classes={note['classes']}; required ids=['myid'] classes=['other']")
if note["ids"] != ["myid"] or note["classes"] != ["other"]:
    bad = True
sys.exit(1 if bad else 0)
