"""C08 finding 7: an option with an empty value whose converter does not expect None raises
AttributeError out of parse_directive_text (the whole document build aborts) instead of
'dropped with one warning'."""
import sys

from docutils.parsers.rst.directives.images import Figure
from docutils.parsers.rst.directives.tables import CSVTable

from _common import publish
from myst_parser.parsers.directives import parse_directive_text

bad = False
for cls, first, opt in ((Figure, "x.png", "figwidth"), (CSVTable, "", "delim"), (CSVTable, "", "quote"), (CSVTable, "", "escape")):
    content = f":{opt}:\n:name: kept\n\nbody\n"
    try:
        res = parse_directive_text(cls, first, content)
        obs = f"options={res.options} warnings={[w.msg for w in res.warnings]}"
        ok = opt not in res.options and res.options.get("name") == "kept" and len(res.warnings) == 1
    except Exception as exc:  # noqa: BLE001
        obs = f"raised {type(exc).__name__}: {exc}"
        ok = False
    print(f"{cls.__name__} {content!r}\n  observed: {obs}\n  required: {opt!r} dropped with one warning, name='kept' kept")
    bad |= not ok

text = "para\n\n```{figure} x.png\n:figwidth:\n\ncaption\n```\n"
try:
    publish(text)
    print("pipeline: document built")
except Exception as exc:  # noqa: BLE001
    print(f"pipeline {text!r}: observed {type(exc).__name__}: {exc}; required: a warning, document still built")
    bad = True
sys.exit(1 if bad else 0)
