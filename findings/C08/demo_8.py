"""C08 finding 8: several unknown options produce ONE combined warning, not one warning each."""
import sys

from docutils.parsers.rst.directives.admonitions import Note

from myst_parser.parsers.directives import parse_directive_text

content = ":class: a\n:foo: 1\n:bar: 2\n:baz: 3\n\nbody\n"
res = parse_directive_text(Note, "", content)
msgs = [w.msg for w in res.warnings]
print(f"content={content!r}")
print(f"  observed: options={res.options} {len(msgs)} warning(s): {msgs}")
print("  required: options={'class': ['a']} and 3 warnings (one per dropped option: foo, bar, baz)")
# invalid values do get one warning each - the two kinds of rejected options are treated differently
from docutils.parsers.rst.directives.images import Image

res2 = parse_directive_text(Image, "x.png", ":width: x\n:height: y\n:scale: z\n")
print(f"  (for comparison, 3 invalid values -> {len(res2.warnings)} warnings)")
sys.exit(0 if len(msgs) == 3 and res.options == {"class": ["a"]} else 1)
