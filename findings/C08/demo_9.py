"""C08 finding 9: an option written twice in the block: the first value is silently discarded
(no warning), in both option styles. docutils rejects this ('duplicate option')."""
import sys

from docutils.parsers.rst.directives.admonitions import Note

from myst_parser.parsers.directives import parse_directive_text

bad = False
for content in (":class: first\n:class: second\n\nbody\n", "---\nclass: first\nclass: second\n---\nbody\n"):
    res = parse_directive_text(Note, "", content)
    msgs = [w.msg for w in res.warnings]
    print(f"content={content!r}")
    print(f"  observed: options={res.options} warnings={msgs}")
    print("  required: nothing lost silently: a warning for the dropped duplicate (or both values kept)")
    if not msgs and res.options.get("class") != ["first", "second"]:
        bad = True
sys.exit(1 if bad else 0)
