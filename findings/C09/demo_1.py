"""C09 finding 1: an empty-text link (or <project:#x> autolink) to a missing target ends up with no text."""
import sys

# ---- helpers (docutils front end) ----
import io
import re

from docutils import nodes
from docutils.core import publish_doctree

from myst_parser.parsers.docutils_ import Parser

EXTS = ["attrs_inline", "attrs_block", "colon_fence", "deflist", "fieldlist", "substitution"]


def parse(text, source_path=None, **overrides):
    ws = io.StringIO()
    so = {
        "myst_enable_extensions": EXTS,
        "myst_heading_anchors": 3,
        "warning_stream": ws,
        "halt_level": 5,
    }
    so.update(overrides)
    doc = publish_doctree(text, source_path=source_path, parser=Parser(), settings_overrides=so)
    return doc, ws.getvalue()


def id_links(doc):
    return [r for r in doc.findall(nodes.reference) if r.get("id_link")]


def link_text(ref):
    """Visible text of a reference, ignoring system messages put inside it."""
    return "".join(c.astext() for c in ref.children if not isinstance(c, nodes.system_message))


def missing_warnings(stream):
    """[(source, line, target)] of the xref_missing warnings in a docutils warning stream."""
    out = []
    for line in stream.splitlines():
        m = re.match(r"(.*?):(\d+)?:? ?\(WARNING/2\) 'myst' reference target not found: (.*) \[myst\.xref_missing\]", line)
        if m:
            out.append((m.group(1), int(m.group(2)) if m.group(2) else None, m.group(3)))
    return out
# ---- end helpers ----

text = "[](#missing) and <project:#missing> and [shown](#missing)\n"
doc, warns = parse(text)
refs = id_links(doc)
texts = [link_text(r) for r in refs]
print("input:", repr(text))
print("observed link texts :", texts)
print("required link texts :", ["#missing", "#missing", "shown"], "(link kept, empty text shows '#name')")
print("xref_missing warnings:", missing_warnings(warns))
bad = texts != ["#missing", "#missing", "shown"]
print("DEFECT PRESENT" if bad else "ok")
sys.exit(1 if bad else 0)
