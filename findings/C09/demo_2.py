"""C09 finding 2: an {#id} attribute put on a link is an explicit target that '#id' links cannot find."""
import sys

# ---- helpers (docutils front end) ----
import io
import re

from docutils import nodes
from docutils.core import publish_doctree

from myst_parser.parsers.docutils_ import Parser

EXTS = ["attrs_inline", "attrs_block", "colon_fence", "deflist", "fieldlist", "substitution"]


def parse(text, source_path=None, **overrides):
    ws = io.StringIO()
    so = {
        "myst_enable_extensions": EXTS,
        "myst_heading_anchors": 3,
        "warning_stream": ws,
        "halt_level": 5,
    }
    so.update(overrides)
    doc = publish_doctree(text, source_path=source_path, parser=Parser(), settings_overrides=so)
    return doc, ws.getvalue()


def id_links(doc):
    return [r for r in doc.findall(nodes.reference) if r.get("id_link")]


def link_text(ref):
    """Visible text of a reference, ignoring system messages put inside it."""
    return "".join(c.astext() for c in ref.children if not isinstance(c, nodes.system_message))


def missing_warnings(stream):
    """[(source, line, target)] of the xref_missing warnings in a docutils warning stream."""
    out = []
    for line in stream.splitlines():
        m = re.match(r"(.*?):(\d+)?:? ?\(WARNING/2\) 'myst' reference target not found: (.*) \[myst\.xref_missing\]", line)
        if m:
            out.append((m.group(1), int(m.group(2)) if m.group(2) else None, m.group(3)))
    return out
# ---- end helpers ----

cases = {
    "external link": "[ext](https://example.com){#lid}\n\n[go](#lid)\n",
    "autolink": "<https://example.com>{#lid}\n\n[go](#lid)\n",
    "local link": "(tgt)=\npara\n\n[int](#tgt){#lid}\n\n[go](#lid)\n",
    "span (control)": "[span]{#lid}\n\n[go](#lid)\n",
}
bad = False
for name, text in cases.items():
    doc, warns = parse(text)
    go = [r for r in id_links(doc) if link_text(r) == "go"][0]
    carrier = doc.ids.get("lid")
    miss = missing_warnings(warns)
    ok = not miss and go.get("refid") == "lid" and carrier is not None
    print(f"{name:16s} carrier of id 'lid': {carrier.tagname if carrier is not None else None};"
          f" [go](#lid) -> refid={go.get('refid')!r}, warnings={miss}")
    print(f"{'':16s} required: resolves to the node carrying id 'lid', no warning -> {'ok' if ok else 'VIOLATED'}")
    bad |= not ok
print("DEFECT PRESENT" if bad else "ok")
sys.exit(1 if bad else 0)
