"""C09 finding 4: links in directive title arguments and in substitutions are reported one line late."""
import sys

# ---- helpers (docutils front end) ----
import io
import re

from docutils import nodes
from docutils.core import publish_doctree

from myst_parser.parsers.docutils_ import Parser

EXTS = ["attrs_inline", "attrs_block", "colon_fence", "deflist", "fieldlist", "substitution"]


def parse(text, source_path=None, **overrides):
    ws = io.StringIO()
    so = {
        "myst_enable_extensions": EXTS,
        "myst_heading_anchors": 3,
        "warning_stream": ws,
        "halt_level": 5,
    }
    so.update(overrides)
    doc = publish_doctree(text, source_path=source_path, parser=Parser(), settings_overrides=so)
    return doc, ws.getvalue()


def id_links(doc):
    return [r for r in doc.findall(nodes.reference) if r.get("id_link")]


def link_text(ref):
    """Visible text of a reference, ignoring system messages put inside it."""
    return "".join(c.astext() for c in ref.children if not isinstance(c, nodes.system_message))


def missing_warnings(stream):
    """[(source, line, target)] of the xref_missing warnings in a docutils warning stream."""
    out = []
    for line in stream.splitlines():
        m = re.match(r"(.*?):(\d+)?:? ?\(WARNING/2\) 'myst' reference target not found: (.*) \[myst\.xref_missing\]", line)
        if m:
            out.append((m.group(1), int(m.group(2)) if m.group(2) else None, m.group(3)))
    return out
# ---- end helpers ----

L = "[x](#missing)"
cases = {
    "admonition title": (":::{admonition} Title %s\nbody\n:::\n" % L, 1, {}),
    "table title": (":::{table} Title %s\n\n| a | b |\n|---|---|\n| c | d |\n:::\n" % L, 1, {}),
    "sidebar title": ("```{sidebar} Title %s\nbody\n```\n" % L, 1, {}),
    "rubric": ("```{rubric} Title %s\n```\n" % L, 1, {}),
    "inline substitution": ("a\n\nx {{ s }} y\n", 3, {"myst_substitutions": {"s": L}}),
    "block substitution": ("a\n\n{{ s }}\n", 3, {"myst_substitutions": {"s": L}}),
    "directive body (control)": (":::{note}\n%s\n:::\n" % L, 2, {}),
}
bad = False
for name, (text, line, kw) in cases.items():
    doc, warns = parse(text, **kw)
    got = [w[1] for w in missing_warnings(warns)]
    ok = got == [line]
    print(f"{name:26s} link on line {line}; warning lines observed {got}; required [{line}] -> {'ok' if ok else 'VIOLATED'}")
    bad |= not ok
print("DEFECT PRESENT" if bad else "ok")
sys.exit(1 if bad else 0)
