"""C09 finding 5: a broken link inside an {include}d file is reported against the including file."""
import os
import sys
import tempfile

# ---- helpers (docutils front end) ----
import io
import re

from docutils import nodes
from docutils.core import publish_doctree

from myst_parser.parsers.docutils_ import Parser

EXTS = ["attrs_inline", "attrs_block", "colon_fence", "deflist", "fieldlist", "substitution"]


def parse(text, source_path=None, **overrides):
    ws = io.StringIO()
    so = {
        "myst_enable_extensions": EXTS,
        "myst_heading_anchors": 3,
        "warning_stream": ws,
        "halt_level": 5,
    }
    so.update(overrides)
    doc = publish_doctree(text, source_path=source_path, parser=Parser(), settings_overrides=so)
    return doc, ws.getvalue()


def id_links(doc):
    return [r for r in doc.findall(nodes.reference) if r.get("id_link")]


def link_text(ref):
    """Visible text of a reference, ignoring system messages put inside it."""
    return "".join(c.astext() for c in ref.children if not isinstance(c, nodes.system_message))


def missing_warnings(stream):
    """[(source, line, target)] of the xref_missing warnings in a docutils warning stream."""
    out = []
    for line in stream.splitlines():
        m = re.match(r"(.*?):(\d+)?:? ?\(WARNING/2\) 'myst' reference target not found: (.*) \[myst\.xref_missing\]", line)
        if m:
            out.append((m.group(1), int(m.group(2)) if m.group(2) else None, m.group(3)))
    return out
# ---- end helpers ----

tmp = tempfile.mkdtemp(prefix="c09demo5")
child = os.path.join(tmp, "child.md")
main = os.path.join(tmp, "main.md")
with open(child, "w") as f:
    f.write("c1\n\nc3\n\nc5 [x](#missing)\n")          # the link is on child.md line 5
main_text = "# Main\n\n```{include} child.md\n```\n\nmain line 6, no link here\n"
with open(main, "w") as f:
    f.write(main_text)
doc, warns = parse(main_text, source_path=main)
got = [(os.path.basename(s), l) for s, l, _ in missing_warnings(warns)]
print("observed warning locations:", got)
print("required                  : [('child.md', 5)]  (the link's own line, in the file that contains it)")
# the line number inside the included file has a separate, test-pinned off-by-one: only the file is judged here
bad = [s for s, _ in got] != ["child.md"]
print("DEFECT PRESENT" if bad else "ok")
sys.exit(1 if bad else 0)
