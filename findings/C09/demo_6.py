"""C09 finding 6: the warning carries the first line of the enclosing block, not the link's own line."""
import sys

# ---- helpers (docutils front end) ----
import io
import re

from docutils import nodes
from docutils.core import publish_doctree

from myst_parser.parsers.docutils_ import Parser

EXTS = ["attrs_inline", "attrs_block", "colon_fence", "deflist", "fieldlist", "substitution"]


def parse(text, source_path=None, **overrides):
    ws = io.StringIO()
    so = {
        "myst_enable_extensions": EXTS,
        "myst_heading_anchors": 3,
        "warning_stream": ws,
        "halt_level": 5,
    }
    so.update(overrides)
    doc = publish_doctree(text, source_path=source_path, parser=Parser(), settings_overrides=so)
    return doc, ws.getvalue()


def id_links(doc):
    return [r for r in doc.findall(nodes.reference) if r.get("id_link")]


def link_text(ref):
    """Visible text of a reference, ignoring system messages put inside it."""
    return "".join(c.astext() for c in ref.children if not isinstance(c, nodes.system_message))


def missing_warnings(stream):
    """[(source, line, target)] of the xref_missing warnings in a docutils warning stream."""
    out = []
    for line in stream.splitlines():
        m = re.match(r"(.*?):(\d+)?:? ?\(WARNING/2\) 'myst' reference target not found: (.*) \[myst\.xref_missing\]", line)
        if m:
            out.append((m.group(1), int(m.group(2)) if m.group(2) else None, m.group(3)))
    return out
# ---- end helpers ----

cases = {
    "2nd line of paragraph": ("line one\nline two [x](#missing)\n", 2),
    "after hard break": ("a\\\n[x](#missing)\n", 2),
    "2nd line of list item": ("- a\n- b\n  c [x](#missing)\n", 3),
    "1st line (control)": ("[x](#missing) line one\nline two\n", 1),
}
bad = False
for name, (text, line) in cases.items():
    doc, warns = parse(text)
    got = [w[1] for w in missing_warnings(warns)]
    ok = got == [line]
    print(f"{name:24s} link on line {line}; warning lines observed {got}; required [{line}] -> {'ok' if ok else 'VIOLATED'}")
    bad |= not ok
print("DEFECT PRESENT" if bad else "ok")
sys.exit(1 if bad else 0)
