"""C09 finding 7 (Sphinx front end): the pending_xref built for an unresolved '#x' link loses the link's
line, so the 'target not found' warning has the line of some ancestor - or no line at all (table cell)."""
import io
import os
import re
import shutil
import sys
import tempfile

from sphinx.application import Sphinx
from sphinx.util.docutils import docutils_namespace


def build(text):
    tmp = tempfile.mkdtemp(prefix="c09demo7")
    src = os.path.join(tmp, "src")
    os.makedirs(src)
    with open(os.path.join(src, "conf.py"), "w") as f:
        f.write("extensions = ['myst_parser']\nmyst_heading_anchors = 3\n")
    with open(os.path.join(src, "index.md"), "w") as f:
        f.write(text)
    warn = io.StringIO()
    with docutils_namespace():
        app = Sphinx(src, src, os.path.join(tmp, "out"), os.path.join(tmp, "dt"), "html",
                     status=io.StringIO(), warning=warn, freshenv=True)
        app.build()
    out = []
    for line in warn.getvalue().splitlines():
        line = re.sub(r"\x1b\[[0-9;]*m", "", line)
        if "xref_missing" in line:
            m = re.match(r".*?index\.md:?(\d+)?", line)
            out.append(int(m.group(1)) if m.group(1) else None)
    shutil.rmtree(tmp, ignore_errors=True)
    return out


cases = {
    "table cell": ("# Top\n\n| a | b |\n|---|---|\n| c | [x](#missing) |\n", 5),
    "versionadded body": ("# Top\n\n```{versionadded} 1.0\n[x](#missing)\n```\n", 4),
    "plain paragraph (control)": ("# Top\n\n[x](#missing)\n", 3),
}
bad = False
for name, (text, line) in cases.items():
    got = build(text)
    ok = got == [line]
    print(f"{name:28s} link on line {line}; warning lines observed {got}; required [{line}] -> {'ok' if ok else 'VIOLATED'}")
    bad |= not ok
print("DEFECT PRESENT" if bad else "ok")
sys.exit(1 if bad else 0)
