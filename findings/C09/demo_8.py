"""C09 finding 8: an explicit target whose name contains '%' can never be reached by a '#name' link."""
import sys

# ---- helpers (docutils front end) ----
import io
import re

from docutils import nodes
from docutils.core import publish_doctree

from myst_parser.parsers.docutils_ import Parser

EXTS = ["attrs_inline", "attrs_block", "colon_fence", "deflist", "fieldlist", "substitution"]


def parse(text, source_path=None, **overrides):
    ws = io.StringIO()
    so = {
        "myst_enable_extensions": EXTS,
        "myst_heading_anchors": 3,
        "warning_stream": ws,
        "halt_level": 5,
    }
    so.update(overrides)
    doc = publish_doctree(text, source_path=source_path, parser=Parser(), settings_overrides=so)
    return doc, ws.getvalue()


def id_links(doc):
    return [r for r in doc.findall(nodes.reference) if r.get("id_link")]


def link_text(ref):
    """Visible text of a reference, ignoring system messages put inside it."""
    return "".join(c.astext() for c in ref.children if not isinstance(c, nodes.system_message))


def missing_warnings(stream):
    """[(source, line, target)] of the xref_missing warnings in a docutils warning stream."""
    out = []
    for line in stream.splitlines():
        m = re.match(r"(.*?):(\d+)?:? ?\(WARNING/2\) 'myst' reference target not found: (.*) \[myst\.xref_missing\]", line)
        if m:
            out.append((m.group(1), int(m.group(2)) if m.group(2) else None, m.group(3)))
    return out
# ---- end helpers ----

text = "(100%)=\nTarget paragraph\n\n[a](#100%) [b](<#100%>) [c](#100%25)\n"
doc, warns = parse(text)
carrier = [n for n in doc.findall() if getattr(n, "get", None) and "100%" in n.get("names", [])]
print("explicit target '100%' is carried by:", [(c.tagname, c["ids"]) for c in carrier])
miss = missing_warnings(warns)
for r in id_links(doc):
    print(f"  link {link_text(r)!r}: refid={r.get('refid')!r}")
print("observed warnings:", miss)
print("required: at least the literal spelling [a](#100%) resolves to that paragraph, without warning")
a = [r for r in id_links(doc) if link_text(r) == "a"][0]
bad = not carrier or a.get("refid") not in carrier[0]["ids"]
print("DEFECT PRESENT" if bad else "ok")
sys.exit(1 if bad else 0)
