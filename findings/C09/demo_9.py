"""C09 finding 9: a footnote label that equals the name of a (name)= target makes the '#name' link fail."""
import sys

# ---- helpers (docutils front end) ----
import io
import re

from docutils import nodes
from docutils.core import publish_doctree

from myst_parser.parsers.docutils_ import Parser

EXTS = ["attrs_inline", "attrs_block", "colon_fence", "deflist", "fieldlist", "substitution"]


def parse(text, source_path=None, **overrides):
    ws = io.StringIO()
    so = {
        "myst_enable_extensions": EXTS,
        "myst_heading_anchors": 3,
        "warning_stream": ws,
        "halt_level": 5,
    }
    so.update(overrides)
    doc = publish_doctree(text, source_path=source_path, parser=Parser(), settings_overrides=so)
    return doc, ws.getvalue()


def id_links(doc):
    return [r for r in doc.findall(nodes.reference) if r.get("id_link")]


def link_text(ref):
    """Visible text of a reference, ignoring system messages put inside it."""
    return "".join(c.astext() for c in ref.children if not isinstance(c, nodes.system_message))


def missing_warnings(stream):
    """[(source, line, target)] of the xref_missing warnings in a docutils warning stream."""
    out = []
    for line in stream.splitlines():
        m = re.match(r"(.*?):(\d+)?:? ?\(WARNING/2\) 'myst' reference target not found: (.*) \[myst\.xref_missing\]", line)
        if m:
            out.append((m.group(1), int(m.group(2)) if m.group(2) else None, m.group(3)))
    return out
# ---- end helpers ----

text = "Text with a footnote[^intro].\n\n[^intro]: The footnote.\n\n(intro)=\nTarget paragraph\n\n[go](#intro)\n"
doc, warns = parse(text)
print(warns)
go = id_links(doc)[0]
target_par = [p for p in doc.findall() if getattr(p, "astext", None) and p.tagname == "paragraph" and p.astext() == "Target paragraph"][0]
miss = missing_warnings(warns)
print(f"observed: [go](#intro) -> refid={go.get('refid')!r}; target paragraph ids={target_par['ids']}; xref_missing={miss}")
print("required: the document has exactly one explicit target 'intro' ((intro)=); the link resolves to it, no warning")
bad = bool(miss) or go.get("refid") not in target_par["ids"]
print("DEFECT PRESENT" if bad else "ok")
sys.exit(1 if bad else 0)
