"""C11 finding 1: a footnote whose label equals the name of an earlier heading/target is dropped as a 'duplicate'."""
import sys, os, io

# ---- helpers (real project code only) ----
import io
from docutils import nodes
from docutils.core import publish_doctree
from myst_parser.parsers.docutils_ import Parser


def parse(text, sort=True, transition=True, ext=()):
    ws = io.StringIO()
    doc = publish_doctree(
        text,
        parser=Parser(),
        settings_overrides={
            "myst_enable_extensions": list(ext),
            "myst_footnote_sort": sort,
            "myst_footnote_transition": transition,
            "warning_stream": ws,
            "halt_level": 5,
        },
    )
    return doc, ws.getvalue()


def footnotes(doc):
    return list(doc.findall(nodes.footnote))


def refs(doc):
    return list(doc.findall(nodes.footnote_reference))


def describe(doc, warnings):
    for r in refs(doc):
        print(f"  ref {r.rawsource}: refid={r.get('refid')!r} text={r.astext()!r}")
    for p in doc.findall(nodes.problematic):
        print(f"  problematic (unresolved) reference: {p.astext()!r}")
    for f in footnotes(doc):
        lab = f.children[0].astext() if f.children and isinstance(f.children[0], nodes.label) else None
        print(f"  footnote names={f['names']} dupnames={f['dupnames']} label={lab!r} ids={f['ids']} backrefs={f['backrefs']}")
    print("  top-level children:", [c.tagname for c in doc.children])
    print("  messages:", warnings.strip().replace("\n", "\n            ") or "(none)")


def check_linked(doc, label):
    """statement: the reference [^label] points at the definition, shows its number, and is back-referenced."""
    fns = [f for f in footnotes(doc) if label in f["names"]]
    rs = [r for r in refs(doc) if r.rawsource == f"[^{label}]"]
    if len(fns) != 1 or not rs:
        return False
    f = fns[0]
    return all(
        r.get("refid") == f["ids"][0]
        and r.astext() == f.children[0].astext()
        and r["ids"][0] in f["backrefs"]
        for r in rs
    )
# ---- demo ----

bad = False
for title, text in [
    ("heading 'Intro' + footnote [^intro]", "# Intro\n\ntext[^intro]\n\n[^intro]: the note text\n"),
    ("target (a)= + footnote [^a]", "(a)=\npara\n\ntext[^a]\n\n[^a]: the note text\n"),
    ("heading '1' + footnote [^1]", "# 1\n\ntext[^1]\n\n[^1]: the note text\n"),
]:
    label = text.split("[^")[1].split("]")[0]
    print(f"--- {title}\ninput: {text!r}")
    doc, w = parse(text)
    describe(doc, w)
    ok = check_linked(doc, label) and "the note text" in doc.astext() and "[ref.footnote]" not in w
    print("required: one footnote for the (only) definition, reference linked to it, text kept, no [ref.footnote] warning")
    print("observed:", "OK" if ok else "VIOLATION (definition dropped / reference not linked to a footnote)")
    bad |= not ok
sys.exit(1 if bad else 0)
