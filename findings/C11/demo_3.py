"""C11 finding 3: headings/targets whose name is a number steal numbers from the auto-numbering."""
import sys, os, io

# ---- helpers (real project code only) ----
import io
from docutils import nodes
from docutils.core import publish_doctree
from myst_parser.parsers.docutils_ import Parser


def parse(text, sort=True, transition=True, ext=()):
    ws = io.StringIO()
    doc = publish_doctree(
        text,
        parser=Parser(),
        settings_overrides={
            "myst_enable_extensions": list(ext),
            "myst_footnote_sort": sort,
            "myst_footnote_transition": transition,
            "warning_stream": ws,
            "halt_level": 5,
        },
    )
    return doc, ws.getvalue()


def footnotes(doc):
    return list(doc.findall(nodes.footnote))


def refs(doc):
    return list(doc.findall(nodes.footnote_reference))


def describe(doc, warnings):
    for r in refs(doc):
        print(f"  ref {r.rawsource}: refid={r.get('refid')!r} text={r.astext()!r}")
    for p in doc.findall(nodes.problematic):
        print(f"  problematic (unresolved) reference: {p.astext()!r}")
    for f in footnotes(doc):
        lab = f.children[0].astext() if f.children and isinstance(f.children[0], nodes.label) else None
        print(f"  footnote names={f['names']} dupnames={f['dupnames']} label={lab!r} ids={f['ids']} backrefs={f['backrefs']}")
    print("  top-level children:", [c.tagname for c in doc.children])
    print("  messages:", warnings.strip().replace("\n", "\n            ") or "(none)")


def check_linked(doc, label):
    """statement: the reference [^label] points at the definition, shows its number, and is back-referenced."""
    fns = [f for f in footnotes(doc) if label in f["names"]]
    rs = [r for r in refs(doc) if r.rawsource == f"[^{label}]"]
    if len(fns) != 1 or not rs:
        return False
    f = fns[0]
    return all(
        r.get("refid") == f["ids"][0]
        and r.astext() == f.children[0].astext()
        and r["ids"][0] in f["backrefs"]
        for r in rs
    )
# ---- demo ----

text = "# Doc\n\n## 1\n\ntext[^x]\n\n## 2\n\nmore[^y]\n\n[^x]: first note\n\n[^y]: second note\n"
print(f"input: {text!r}")
doc, w = parse(text)
describe(doc, w)
labels = {f["names"][0]: f.children[0].astext() for f in footnotes(doc)}
print("required: no manually numbered footnote exists, so auto-numbered footnotes are 1, 2 in order of first reference: {'x': '1', 'y': '2'}")
print("observed:", labels)
sys.exit(0 if labels == {"x": "1", "y": "2"} else 1)
