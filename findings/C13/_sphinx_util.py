"""Helper for the Sphinx demos: build a throw-away project in-process."""
import io
import os
import re
import shutil
import tempfile

from sphinx.application import Sphinx
from sphinx.util.docutils import docutils_namespace, patch_docutils

ANSI = re.compile(r"\x1b\[[0-9;]*m")


def build(files, conf="", builder="html"):
    d = tempfile.mkdtemp(prefix="c13demo")
    src = os.path.join(d, "src")
    os.makedirs(src)
    try:
        with open(os.path.join(src, "conf.py"), "w") as f:
            f.write("extensions=['myst_parser']\n" + conf)
        for n, t in files.items():
            with open(os.path.join(src, n), "w") as f:
                f.write(t)
        st, wn = io.StringIO(), io.StringIO()
        with patch_docutils(src), docutils_namespace():
            app = Sphinx(src, src, os.path.join(d, "out"), os.path.join(d, "dt"), builder,
                         status=st, warning=wn, freshenv=True)
            app.build()
            html = {}
            for n in files:
                p = os.path.join(d, "out", os.path.splitext(n)[0] + ".html")
                if os.path.exists(p):
                    with open(p) as f:
                        html[os.path.splitext(n)[0]] = f.read()
            cfg = app.env.myst_config
        warnings = ANSI.sub("", wn.getvalue()).replace(src + os.sep, "")
        return {"warnings": warnings, "html": html, "cfg": cfg, "status": ANSI.sub("", st.getvalue())}
    finally:
        shutil.rmtree(d, ignore_errors=True)
