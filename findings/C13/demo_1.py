"""C13 finding 1: an invalid front-matter 'heading_slug_func' is NOT ignored.

`heading_slug_func: os.sep` names something importable but not callable.  The
validator stores the imported object on the config copy *before* it raises, and
merge_file_level only emits the warning - the broken value stays in the
document's configuration.
"""
import io
import sys

from docutils.core import publish_doctree

from myst_parser.config.main import MdParserConfig, merge_file_level
from myst_parser.parsers.docutils_ import Parser

failed = False

# --- unit level -------------------------------------------------------------
glob = MdParserConfig()
warns = []
new = merge_file_level(
    glob, {"myst": {"heading_slug_func": "os.sep"}}, lambda t, m: warns.append(m)
)
print("topmatter warnings      :", warns)
print("observed heading_slug_func:", repr(new.heading_slug_func))
print("required heading_slug_func:", repr(glob.heading_slug_func), "(invalid value ignored)")
if new.as_dict() != glob.as_dict() or len(warns) != 1:
    failed = True

# --- document level ---------------------------------------------------------
BODY = "# Title\n\n## Sub\n\n[x](#sub)\n"


def run(front, **ov):
    ws = io.StringIO()
    s = {"warning_stream": ws, "halt_level": 5}
    s.update({"myst_" + k: v for k, v in ov.items()})
    doc = publish_doctree(front + BODY, parser=Parser(), settings_overrides=s)
    return doc, ws.getvalue()


bad, bad_w = run("---\nmyst:\n  heading_anchors: 2\n  heading_slug_func: os.sep\n---\n")
ref, ref_w = run("---\nmyst:\n  heading_anchors: 2\n---\n")
print("\nwarnings with the invalid value in front matter:\n" + bad_w)
print("warnings when the value is absent (what 'ignored' must look like, plus ONE topmatter warning):\n" + ref_w)
n_top = bad_w.count("[myst.topmatter]")
other = [l for l in bad_w.splitlines() if "[myst.topmatter]" not in l]
if n_top != 1 or other != ref_w.splitlines():
    failed = True
from docutils import nodes  # noqa: E402

slugs_bad = [n.get("slug") for n in bad.findall(nodes.Element) if "slug" in n or n.tagname == "section"]
slugs_ref = [n.get("slug") for n in ref.findall(nodes.Element) if "slug" in n or n.tagname == "section"]
print("section slugs observed:", slugs_bad, " required:", slugs_ref)
if slugs_bad != slugs_ref:
    failed = True

print("\nDEFECT PRESENT" if failed else "\nOK")
sys.exit(1 if failed else 0)
