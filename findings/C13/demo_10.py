"""C13 finding 10: read_topmatter (which decides what configuration a document gets)
and the Markdown front-matter rule (which decides what the front matter is) disagree,
and read_topmatter lets non-YAMLError exceptions escape.

 a) closing fence indented by one space: the Markdown rule accepts it, read_topmatter
    does not -> "Malformed YAML" internally, the valid `myst:` block is dropped
    and NO warning is given.
 b) opening `----`, closing `---`: not a front-matter block for the Markdown rule (it
    is rendered as body text) but read_topmatter applies its `myst:` settings.
 c) `a: !!timestamp x`: yaml raises AttributeError, which escapes read_topmatter and
    aborts the parse (other malformed YAML gives one 'Malformed YAML' warning).
"""
import io
import sys

from docutils.core import publish_doctree

from myst_parser.parsers.docutils_ import Parser

BODY = "\nTerm\n: Definition\n"


def run(text):
    ws = io.StringIO()
    doc = publish_doctree(text, parser=Parser(), settings_overrides={"warning_stream": ws, "halt_level": 5})
    return doc.pformat(), ws.getvalue()


failed = False

tree, warn = run("---\nmyst:\n  enable_extensions: [deflist]\n ---\n" + BODY)
applied, shown = "<definition_list" in tree, "enable_extensions" in tree
print("a) closer ' ---': front matter consumed as front matter: %s, setting applied: %s, warnings: %r" % (not shown, applied, warn))
print("   required: consumed as front matter => setting applied (or one topmatter warning)")
if (not shown) and not applied and "[myst.topmatter]" not in warn:
    failed = True

tree, warn = run("----\nmyst:\n  enable_extensions: [deflist]\n---\n" + BODY)
applied, shown = "<definition_list" in tree, "enable_extensions" in tree
print("b) opener '----': block rendered as body text: %s, setting applied: %s" % (shown, applied))
print("   required: a block that is not front matter does not configure the document")
if shown and applied:
    failed = True

try:
    tree, warn = run("---\na: !!timestamp x\n---\n# T\n")
    print("c) '!!timestamp x': warnings: %r" % warn)
    if warn.count("[myst.topmatter]") != 1:
        failed = True
except Exception as exc:  # noqa: BLE001
    print("c) '!!timestamp x': PARSE ABORTED %s: %s" % (type(exc).__name__, exc))
    failed = True
print("   required: one [myst.topmatter] 'Malformed YAML' warning")

print("\nDEFECT PRESENT" if failed else "\nOK")
sys.exit(1 if failed else 0)
