"""C13 finding 11 (Sphinx): a documented, accepted value of myst_heading_slug_func - a
function defined in conf.py - makes the build abort.

docs/syntax/optional.md: "set myst_heading_slug_func in your conf.py to a function that
accepts a string and returns a string".  The validated MdParserConfig (holding the
function object) is stored as app.env.myst_config; Sphinx pickles the environment at the
end of the read phase and a function defined in conf.py (exec'd, not importable) cannot
be pickled.  The same function given as an import path, or through docutils, works.
"""
import os
import sys

sys.path.insert(0, os.path.dirname(os.path.abspath(__file__)))
from _sphinx_util import build  # noqa: E402

CONF = "def slug(text):\n    return text.upper()\n\nmyst_heading_slug_func = slug\nmyst_heading_anchors = 2\n"
failed = False
try:
    r = build({"index.md": "# T\n\n## Sub\n\n[x](#SUB)\n"}, conf=CONF)
    print("build finished; warnings:", repr(r["warnings"]))
    print("config:", r["cfg"].heading_slug_func)
    if "xref_missing" in r["warnings"]:
        failed = True
except Exception as exc:  # noqa: BLE001
    print("observed: BUILD ABORTED %s: %s" % (type(exc).__name__, exc))
    failed = True
print("required: the value is a Callable[[str], str], it is accepted, the build succeeds and '## Sub' gets the slug 'SUB'")
print("\nDEFECT PRESENT" if failed else "\nOK")
sys.exit(1 if failed else 0)
