"""C13 finding 2: repeating the global 'heading_slug_func' import path in the
front matter stores the raw *string* in the document configuration.

merge_file_level decides "the validator normalised the value" by comparing object
identity between the copy and the global config.  For heading_slug_func the
validator resolves the dotted path to the very same function object the global
config already holds, so the identity test says "not normalised" and the raw
string is assigned over the function.
"""
import io
import sys

from docutils.core import publish_doctree

from myst_parser.config.main import MdParserConfig, merge_file_level
from myst_parser.parsers.docutils_ import Parser

PATH = "myst_parser.config.main._test_slug_func"
failed = False

glob = MdParserConfig(heading_slug_func=PATH)
warns = []
new = merge_file_level(glob, {"myst": {"heading_slug_func": PATH}}, lambda t, m: warns.append(m))
print("global   heading_slug_func:", glob.heading_slug_func)
print("observed heading_slug_func:", repr(new.heading_slug_func), " warnings:", warns)
print("required heading_slug_func:", glob.heading_slug_func, "(same effect as the same value set globally)")
if new.heading_slug_func is not glob.heading_slug_func or warns:
    failed = True

BODY = "# Title\n\n## Sub\n\n[x](#buS)\n"


def run(front):
    ws = io.StringIO()
    doc = publish_doctree(
        front + BODY,
        parser=Parser(),
        settings_overrides={
            "warning_stream": ws,
            "halt_level": 5,
            "myst_heading_anchors": 2,
            "myst_heading_slug_func": PATH,
        },
    )
    return doc.pformat(), ws.getvalue()


fm_tree, fm_w = run("---\nmyst:\n  heading_slug_func: %s\n---\n" % PATH)
gl_tree, gl_w = run("---\nmyst:\n  html_meta: {}\n---\n")
print("\nwarnings, value repeated in front matter:\n" + (fm_w or "(none)\n"))
print("warnings, value only global:\n" + (gl_w or "(none)\n"))
if fm_tree != gl_tree or fm_w != gl_w:
    failed = True
    print("doctrees equal:", fm_tree == gl_tree)

print("\nDEFECT PRESENT" if failed else "\nOK")
sys.exit(1 if failed else 0)
