"""C13 finding 3 (Sphinx): 'ref_domains' set in the front matter has no effect.

docs/syntax/cross-referencing.md: "the domains searched for all Markdown references
can be restricted globally or per-document using the myst_ref_domains configuration".
The resolver reads app.config.myst_ref_domains (the raw global value), never the
document's merged configuration.
"""
import os
import sys

sys.path.insert(0, os.path.dirname(os.path.abspath(__file__)))
from _sphinx_util import build  # noqa: E402

BODY = """
# Title

```{py:function} dup
```

```{js:function} dup
```

[link](dup)
"""

fm = build({"index.md": "---\nmyst:\n  ref_domains: [py]\n---\n" + BODY})
gl = build({"index.md": "---\nmyst:\n  html_meta: {}\n---\n" + BODY}, conf="myst_ref_domains=['py']\n")

print("global myst_ref_domains=['py']      -> warnings:", repr(gl["warnings"]))
print("front matter ref_domains: [py]      -> warnings:", repr(fm["warnings"]))
print("required: identical (the 'js' domain is not searched, so no ambiguity warning)")
failed = fm["warnings"] != gl["warnings"]
print("\nDEFECT PRESENT" if failed else "\nOK")
sys.exit(1 if failed else 0)
