"""C13 finding 4 (Sphinx): enabling 'amsmath' / 'dollarmath' in the front matter does
not have the effect of enabling them globally.

sphinx_ext/mathjax.py::override_mathjax runs once at builder-inited and looks at
app.config["myst_enable_extensions"] only.  A document that enables the extensions in
its front matter gets its top-level section marked `mathjax_ignore` (from the merged
config) but MathJax is never told to process the `math` class, and amsmath blocks are
written by the stock visitor instead of the MyST one (no equation number, no \\[ \\]).
"""
import os
import re
import sys

sys.path.insert(0, os.path.dirname(os.path.abspath(__file__)))
from _sphinx_util import build  # noqa: E402

BODY = """
# Title

Inline $a=1$ math

\\begin{equation}
b=2
\\end{equation}
"""
UUID = re.compile(r"[0-9a-f]{8}-[0-9a-f]{4}-[0-9a-f]{4}-[0-9a-f]{4}-[0-9a-f]{12}")


def interesting(html):
    html = UUID.sub("UUID", html)
    lines = [l.strip() for l in html.splitlines()]
    return [l for l in lines if "MathJax" in l or "mathjax" in l.lower() or "begin{equation}" in l or "<section" in l]


fm = build({"index.md": "---\nmyst:\n  enable_extensions: [dollarmath, amsmath]\n---\n" + BODY})
gl = build({"index.md": "---\nmyst:\n  html_meta: {}\n---\n" + BODY},
           conf="myst_enable_extensions=['dollarmath', 'amsmath']\n")
a, b = interesting(fm["html"]["index"]), interesting(gl["html"]["index"])
print("--- set globally (required output):")
print("\n".join("   " + l for l in b))
print("--- set in front matter (observed):")
print("\n".join("   " + l for l in a))
failed = UUID.sub("UUID", fm["html"]["index"]) != UUID.sub("UUID", gl["html"]["index"])
print("\nDEFECT PRESENT" if failed else "\nOK")
sys.exit(1 if failed else 0)
