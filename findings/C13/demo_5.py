"""C13 finding 5 (docutils): parsing a document modifies the global configuration.

DocutilsRenderer writes the *merged, file-level* values of footnote_sort and
footnote_transition into document.settings (the docutils global configuration object,
which create_myst_config reads the global MyST config from).  When one settings object
is used for more than one document (the documented `settings=` argument of
docutils.core.publish_*), the front matter of the first document becomes the global
configuration of the next one.
"""
import io
import sys
import warnings

from docutils.core import publish_doctree
from docutils.frontend import OptionParser

from myst_parser.parsers.docutils_ import Parser, create_myst_config

warnings.simplefilter("ignore")

A = "---\nmyst:\n  footnote_sort: false\n  footnote_transition: false\n---\n# A\n"
B = "# B\n\ntext[^b] [^a]\n\n[^a]: fa\n[^b]: fb\n\nafter\n"

settings = OptionParser(components=(Parser,), read_config_files=False).get_default_values()
settings.warning_stream = io.StringIO()

before = create_myst_config(settings).as_dict()
print("global config before parsing A: footnote_sort=%s footnote_transition=%s"
      % (before["footnote_sort"], before["footnote_transition"]))
publish_doctree(A, parser=Parser(), settings=settings)
after = create_myst_config(settings).as_dict()
print("global config after  parsing A: footnote_sort=%s footnote_transition=%s"
      % (after["footnote_sort"], after["footnote_transition"]))
print("required: unchanged")

fresh = publish_doctree(B, parser=Parser(), settings_overrides={"warning_stream": io.StringIO()}).pformat()
reused = publish_doctree(B, parser=Parser(), settings=settings).pformat()
print("document B rendered the same as with a fresh global config:", fresh == reused)

failed = before != after or fresh != reused
print("\nDEFECT PRESENT" if failed else "\nOK")
sys.exit(1 if failed else 0)
