"""C13 finding 6: options that only work globally are accepted in the front matter
silently - neither the same effect as the global setting nor a topmatter warning.

 * docutils: `suppress_warnings` (create_warning reads document.settings, not the
   merged config)
 * Sphinx: `mathjax_classes` / `update_mathjax` (override_mathjax reads the global
   config at builder-inited)
"""
import io
import os
import sys

from docutils.core import publish_doctree

from myst_parser.parsers.docutils_ import Parser

sys.path.insert(0, os.path.dirname(os.path.abspath(__file__)))
failed = False

# ---- docutils: suppress_warnings --------------------------------------------------
BODY = "# T\n\n[x](#nowhere)\n"


def run(front, **ov):
    ws = io.StringIO()
    s = {"warning_stream": ws, "halt_level": 5}
    s.update({"myst_" + k: v for k, v in ov.items()})
    doc = publish_doctree(front + BODY, parser=Parser(), settings_overrides=s)
    return doc.pformat(), ws.getvalue()


fm = run("---\nmyst:\n  suppress_warnings: [myst.xref_missing]\n---\n")
gl = run("---\nmyst:\n  html_meta: {}\n---\n", suppress_warnings=["myst.xref_missing"])
print("[docutils] suppress_warnings=['myst.xref_missing']")
print("   global       -> warnings:", repr(gl[1]))
print("   front matter -> warnings:", repr(fm[1]))
print("   required: same as global, or exactly one [myst.topmatter] warning saying the value is ignored")
same = fm == gl
one_topmatter = fm[1].count("[myst.topmatter]") == 1
if not (same or one_topmatter):
    failed = True

# ---- Sphinx: mathjax_classes -------------------------------------------------------
from _sphinx_util import build  # noqa: E402

SBODY = "\n# Title\n\nInline $a=1$ math\n"
conf = "myst_enable_extensions=['dollarmath']\n"
sfm = build({"index.md": "---\nmyst:\n  mathjax_classes: foo\n---\n" + SBODY}, conf=conf)
sgl = build({"index.md": "---\nmyst:\n  html_meta: {}\n---\n" + SBODY}, conf=conf + "myst_mathjax_classes='foo'\n")


def mj(html):
    return [l.strip() for l in html.splitlines() if "window.MathJax" in l]


print("[sphinx] mathjax_classes='foo'")
print("   global       ->", mj(sgl["html"]["index"]), "warnings:", repr(sgl["warnings"]))
print("   front matter ->", mj(sfm["html"]["index"]), "warnings:", repr(sfm["warnings"]))
same = sfm["html"]["index"] == sgl["html"]["index"]
one_topmatter = sfm["warnings"].count("[myst.topmatter]") == 1
if not (same or one_topmatter):
    failed = True

print("\nDEFECT PRESENT" if failed else "\nOK")
sys.exit(1 if failed else 0)
