"""C13 finding 7 (Sphinx): wrongly typed / unloadable global values abort the build
instead of being rejected like every other invalid value ("myst configuration
invalid: ..." is logged and the defaults are used).

 a) myst_heading_slug_func = 'os.nonexistent'  (module exists, attribute does not):
    check_heading_slug_func only converts ImportError, the AttributeError escapes
    sphinx_ext/main.py::create_myst_config, which only catches (TypeError, ValueError).
 b) myst_enable_extensions = 5: the value is rejected (error logged) but
    sphinx_ext/mathjax.py::override_mathjax then evaluates
    `"amsmath" in app.config["myst_enable_extensions"]` on the raw, rejected value.
The docutils front end reports both as "Global myst configuration invalid" and carries on.
"""
import io
import os
import sys

from docutils.core import publish_doctree

from myst_parser.parsers.docutils_ import Parser

sys.path.insert(0, os.path.dirname(os.path.abspath(__file__)))
from _sphinx_util import build  # noqa: E402

failed = False
for conf, key, val in [
    ("myst_heading_slug_func='os.nonexistent'\n", "myst_heading_slug_func", "os.nonexistent"),
    ("myst_enable_extensions=5\n", "myst_enable_extensions", 5),
]:
    ws = io.StringIO()
    publish_doctree("# T\n", parser=Parser(), settings_overrides={"warning_stream": ws, "halt_level": 5, key: val})
    print(conf.strip())
    print("   docutils:", ws.getvalue().strip())
    try:
        r = build({"index.md": "# T\n"}, conf=conf)
        print("   sphinx  : build finished; warnings:", r["warnings"].strip())
        if "myst configuration invalid" not in r["warnings"]:
            failed = True
    except Exception as exc:  # noqa: BLE001
        print("   sphinx  : BUILD ABORTED %s: %s" % (type(exc).__name__, str(exc)[:160]))
        failed = True
    print("   required: 'myst configuration invalid: ...' is logged and the build continues with defaults")

print("\nDEFECT PRESENT" if failed else "\nOK")
sys.exit(1 if failed else 0)
