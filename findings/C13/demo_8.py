"""C13 finding 8 (docutils option strings): the comma-delimited spelling of
`url_schemes` is not normalised like every other comma-delimited MyST option.

 * the empty string (= the empty list, a valid value that works as `url_schemes: []`
   globally/in front matter and as '' for every other list option) is rejected;
 * empty items are kept: "http,https," and "http,,https" produce an extra '' scheme,
   so the configuration differs from MdParserConfig(url_schemes=["http", "https"]).
"""
import sys
import warnings

from docutils.frontend import OptionParser

from myst_parser.config.main import MdParserConfig
from myst_parser.parsers.docutils_ import Parser, create_myst_config

warnings.simplefilter("ignore")


def from_string(flag):
    op = OptionParser(components=(Parser,), read_config_files=False)

    def error(msg):
        raise ValueError(" ".join(msg.split()))

    op.error = error
    return create_myst_config(op.parse_args([flag]))


failed = False
for string, python_value in [("", []), ("http,https,", ["http", "https"]), ("http,,https", ["http", "https"])]:
    required = MdParserConfig(url_schemes=python_value).url_schemes
    try:
        observed = from_string("--myst-url-schemes=" + string).url_schemes
    except Exception as exc:  # noqa: BLE001
        observed = "REJECTED: %s" % exc
    print("--myst-url-schemes=%r" % string)
    print("   observed:", observed)
    print("   required:", required, "(as for url_schemes=%r)" % (python_value,))
    if observed != required:
        failed = True
    # the same spelling for another comma-delimited option, for comparison
    other = from_string("--myst-disable-syntax=" + string.replace("http", "emphasis").replace("emphasiss", "table")).disable_syntax
    print("   (same spelling for --myst-disable-syntax gives %r)" % (other,))

print("\nDEFECT PRESENT" if failed else "\nOK")
sys.exit(1 if failed else 0)
