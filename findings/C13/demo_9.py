"""C13 finding 9: acceptance does not follow the documented type, and accepted values
are not brought to one canonical form.

 * heading_anchors (documented `int`) accepts None, True and 2.0 and keeps them as is;
   words_per_minute (documented `int`) accepts True.
 * sub_delimiters (documented `tuple[str, str]`) and inventories values (documented
   `tuple[str, str | None]`) keep a list when given a list, so two spellings of the
   same value give unequal configurations (and the front matter can only spell lists).
"""
import sys

from myst_parser.config.main import MdParserConfig, merge_file_level

failed = False


def accepted(**kw):
    try:
        return True, getattr(MdParserConfig(**kw), next(iter(kw)))
    except (TypeError, ValueError) as exc:
        return False, str(exc)


print("-- documented type int")
for name, value in [("heading_anchors", None), ("heading_anchors", True), ("heading_anchors", 2.0), ("words_per_minute", True)]:
    ok, out = accepted(**{name: value})
    bad = ok and not (type(out) is int)
    print("   %s=%r -> %s %r   required: rejected, or normalised to an int" % (name, value, "accepted as" if ok else "rejected:", out))
    failed |= bad

print("-- one canonical form")
pairs = [
    ("sub_delimiters", ["{", "}"], ("{", "}")),
    ("inventories", {"k": ["https://x", None]}, {"k": ("https://x", None)}),
]
for name, a, b in pairs:
    ca, cb = MdParserConfig(**{name: a}), MdParserConfig(**{name: b})
    print("   %s: %r vs %r -> stored %r vs %r, configs equal: %s   required: equal"
          % (name, a, b, getattr(ca, name), getattr(cb, name), ca == cb))
    failed |= ca != cb

glob = MdParserConfig()
new = merge_file_level(glob, {"myst": {"sub_delimiters": ["{", "}"]}}, lambda *a: None)
print("   front matter sub_delimiters: ['{', '}'] (the default value) -> config equal to the global one: %s   required: True" % (new == glob))
failed |= new != glob

print("\nDEFECT PRESENT" if failed else "\nOK")
sys.exit(1 if failed else 0)
