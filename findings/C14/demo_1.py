"""C14 finding 1: suppressing myst.xref_missing (docutils) changes the reference's content.

run as: PYTHONPATH=<tree> /venv/bin/python demo_1.py
"""
import io
import re
import sys

from docutils import nodes
from docutils.core import publish_doctree

from myst_parser.parsers.docutils_ import Parser

TEXT = "[](#nope)\n"
TAG = "myst.xref_missing"


def run(suppress):
    stream = io.StringIO()
    doc = publish_doctree(
        TEXT,
        parser=Parser(),
        settings_overrides={
            "warning_stream": stream,
            "halt_level": 5,
            "myst_suppress_warnings": suppress,
        },
    )
    return stream.getvalue(), doc


def without_tagged_messages(doc, tag):
    doc = doc.deepcopy()
    for sm in list(doc.findall(nodes.system_message)):
        if sm.astext().rstrip().endswith(f"[{tag}]"):
            sm.parent.remove(sm)
    return doc.pformat()


log0, doc0 = run([])
log1, doc1 = run([TAG])
required = without_tagged_messages(doc0, TAG)
observed = doc1.pformat()
print("input:", repr(TEXT))
print("log without suppression:", log0.strip())
print("log with suppression   :", repr(log1.strip()))
print("--- required doctree under suppression (= unsuppressed doctree minus the tagged system_message):")
print(required)
print("--- observed doctree under suppression:")
print(observed)
if required != observed:
    print("DEFECT: suppressing the warning changed the rest of the doctree")
    sys.exit(1)
print("OK")
sys.exit(0)
