"""C14 finding 10 (docutils): including a Markdown file from reStructuredText with
`.. include:: x.md` + `:parser: myst_parser.docutils_` (documented in docs/docutils.md) crashes with
AttributeError in create_warning as soon as the Markdown triggers any MyST warning, because the host
document's settings have no `myst_suppress_warnings`.

run as: PYTHONPATH=<tree> /venv/bin/python demo_10.py
"""
import io
import shutil
import sys
import tempfile
import traceback
from pathlib import Path

from docutils.core import publish_doctree

import myst_parser.parsers.docutils_  # noqa: F401

tmp = Path(tempfile.mkdtemp(prefix="c14demo10"))
bad = False
try:
    (tmp / "inc.md").write_text("# a\n\n### b\n")  # H1 -> H3: [myst.header]
    rst = f".. include:: {tmp / 'inc.md'}\n   :parser: myst_parser.docutils_\n"
    print("input (rst):", repr(rst), " with inc.md =", repr((tmp / "inc.md").read_text()))
    print("required: the log contains 'Non-consecutive header level increase; H1 to H3 [myst.header]'")
    stream = io.StringIO()
    try:
        publish_doctree(rst, settings_overrides={"warning_stream": stream, "halt_level": 5})
    except Exception as exc:  # noqa: BLE001
        tb = traceback.format_exc().strip().splitlines()
        print("observed: exception", type(exc).__name__ + ":", exc)
        print("   ", "\n    ".join(tb[-5:]))
        bad = True
    else:
        print("observed log:", stream.getvalue().strip())
        if "[myst.header]" not in stream.getvalue():
            bad = True
finally:
    shutil.rmtree(tmp, ignore_errors=True)
if bad:
    print("DEFECT: the warning is not emitted (crash in create_warning)")
    sys.exit(1)
print("OK")
sys.exit(0)
