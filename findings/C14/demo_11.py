"""C14 finding 11 (docutils, low confidence): `suppress_warnings` placed in the file-level `myst:` front matter
passes validation silently (no 'Unknown field' / topmatter warning) but has no effect at all,
because create_warning only looks at document.settings.myst_suppress_warnings.

run as: PYTHONPATH=<tree> /venv/bin/python demo_11.py
"""
import io
import sys

from docutils.core import publish_doctree

from myst_parser.parsers.docutils_ import Parser

TEXT = '---\nmyst:\n  suppress_warnings: ["myst.header"]\n---\n\n# a\n\n### b\n'
stream = io.StringIO()
publish_doctree(TEXT, parser=Parser(), settings_overrides={"warning_stream": stream, "halt_level": 5})
log = stream.getvalue()
print("input:", repr(TEXT))
print("observed log:", log.strip())
print("required: either the tag placed in the setting removes the [myst.header] warning, "
      "or the file-level setting is rejected with a [myst.topmatter] warning")
if "[myst.header]" in log and "[myst.topmatter]" not in log:
    print("DEFECT: setting accepted silently and ignored")
    sys.exit(1)
print("OK")
sys.exit(0)
