"""C14 finding 2: a warning raised while rendering heading text is inserted in the <title>,
so the section's ids/names (and everything derived from the title) change when the tag is suppressed.

run as: PYTHONPATH=<tree> /venv/bin/python demo_2.py
"""
import io
import shutil
import sys
import tempfile
from pathlib import Path

from docutils import nodes
from docutils.core import publish_doctree

from myst_parser.parsers.docutils_ import Parser

TEXT = "# Title ~~old~~\n\ntext\n\n# Other\n"
TAG = "myst.strikethrough"
bad = False

# ---------------- docutils front end
def run(suppress):
    stream = io.StringIO()
    doc = publish_doctree(
        TEXT,
        parser=Parser(),
        settings_overrides={
            "warning_stream": stream,
            "halt_level": 5,
            "myst_enable_extensions": ["strikethrough"],
            "myst_suppress_warnings": suppress,
        },
    )
    return stream.getvalue(), doc


log0, doc0 = run([])
log1, doc1 = run([TAG])
ids0 = [s["ids"] for s in doc0.findall(nodes.section)]
ids1 = [s["ids"] for s in doc1.findall(nodes.section)]
print("input:", repr(TEXT))
print("[docutils] log without suppression:", log0.strip())
print("[docutils] section ids, not suppressed:", ids0)
print("[docutils] section ids, suppressed    :", ids1)
print("[docutils] required: identical ids in both runs")
if ids0 != ids1:
    bad = True

# ---------------- Sphinx front end
from sphinx.application import Sphinx
from sphinx.util.docutils import docutils_namespace, patch_docutils
from sphinx.util.console import nocolor

nocolor()

tmp = Path(tempfile.mkdtemp(prefix="c14demo2"))
try:
    src = tmp / "src"
    src.mkdir()
    (src / "index.md").write_text(TEXT)

    def build(suppress, n):
        (src / "conf.py").write_text(
            "extensions=['myst_parser']\nmyst_enable_extensions=['strikethrough']\n"
            f"suppress_warnings={suppress!r}\n"
        )
        warn = io.StringIO()
        with docutils_namespace(), patch_docutils():
            app = Sphinx(str(src), str(src), str(tmp / f"out{n}"), str(tmp / f"dt{n}"), "html",
                         status=io.StringIO(), warning=warn, freshenv=True)
            app.build()
            doc = app.env.get_doctree("index")
            html = (tmp / f"out{n}" / "index.html").read_text()
        return warn.getvalue(), [s["ids"] for s in doc.findall(nodes.section)], html

    w0, sids0, html0 = build([], 0)
    w1, sids1, html1 = build([TAG], 1)
    print("[sphinx] log without suppression:", w0.strip())
    print("[sphinx] section ids, not suppressed:", sids0)
    print("[sphinx] section ids, suppressed    :", sids1)
    import re
    t0 = re.search(r"<title>(.*?)</title>", html0, re.S).group(1)
    t1 = re.search(r"<title>(.*?)</title>", html1, re.S).group(1)
    print("[sphinx] html <title>, not suppressed:", t0)
    print("[sphinx] html <title>, suppressed    :", t1)
    print("[sphinx] required: identical ids and page title in both runs")
    if sids0 != sids1 or t0 != t1:
        bad = True
finally:
    shutil.rmtree(tmp, ignore_errors=True)

if bad:
    print("DEFECT: suppressing the warning changed section ids / titles")
    sys.exit(1)
print("OK")
sys.exit(0)
