"""C14 finding 3: the implicit text of a `[](#target)` link is computed with clean_astext() over a
title/caption/term that contains the warning's system_message, so the link text contains the
warning text - and changes when the tag is suppressed.

run as: PYTHONPATH=<tree> /venv/bin/python demo_3.py
"""
import io
import sys

from docutils import nodes
from docutils.core import publish_doctree

from myst_parser.parsers.docutils_ import Parser

TAG = "myst.strikethrough"
CASES = {
    "heading": "(x)=\n# T ~~a~~\n\n# other\n\n[](#x)\n",
    "table caption": "```{table} cap ~~a~~\n:name: x\n\n| a | b |\n|---|---|\n| 1 | 2 |\n```\n\n[](#x)\n",
    "rubric": "```{rubric} R ~~a~~\n:name: x\n```\n\n[](#x)\n",
    "definition term": "{#x}\nterm ~~a~~\n: def\n\n[](#x)\n",
}


def run(text, suppress):
    stream = io.StringIO()
    doc = publish_doctree(
        text,
        parser=Parser(),
        settings_overrides={
            "warning_stream": stream,
            "halt_level": 5,
            "myst_enable_extensions": ["strikethrough", "attrs_block", "deflist"],
            "myst_suppress_warnings": suppress,
        },
    )
    return stream.getvalue(), doc


def link_text(doc):
    return [r.astext() for r in doc.findall(nodes.reference) if r.get("id_link")]


bad = False
for name, text in CASES.items():
    log0, doc0 = run(text, [])
    log1, doc1 = run(text, [TAG])
    t0, t1 = link_text(doc0), link_text(doc1)
    print(f"== {name}: input {text!r}")
    print("   log without suppression:", log0.strip())
    print("   link text, not suppressed:", t0)
    print("   link text, suppressed    :", t1)
    print("   required: the same link text in both runs (suppression only removes the warning)")
    if t0 != t1:
        bad = True
if bad:
    print("DEFECT: the text of the link depends on whether the warning is suppressed")
    sys.exit(1)
print("OK")
sys.exit(0)
