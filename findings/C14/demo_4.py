"""C14 finding 4 (Sphinx): a warning raised inside a glossary term (`{.glossary}` definition list)
ends up in the term id and in the index entry; both change when the tag is suppressed.

run as: PYTHONPATH=<tree> /venv/bin/python demo_4.py
"""
import io
import shutil
import sys
import tempfile
from pathlib import Path

from docutils import nodes
from sphinx import addnodes
from sphinx.application import Sphinx
from sphinx.util.console import nocolor
from sphinx.util.docutils import docutils_namespace, patch_docutils

nocolor()
TEXT = "# T\n\n{.glossary}\nterm ~~a~~\n: definition\n"
TAG = "myst.strikethrough"

tmp = Path(tempfile.mkdtemp(prefix="c14demo4"))
try:
    src = tmp / "src"
    src.mkdir()
    (src / "index.md").write_text(TEXT)

    def build(suppress, n):
        (src / "conf.py").write_text(
            "extensions=['myst_parser']\n"
            "myst_enable_extensions=['strikethrough','deflist','attrs_block']\n"
            f"suppress_warnings={suppress!r}\n"
        )
        warn = io.StringIO()
        with docutils_namespace(), patch_docutils():
            app = Sphinx(str(src), str(src), str(tmp / f"out{n}"), str(tmp / f"dt{n}"), "html",
                         status=io.StringIO(), warning=warn, freshenv=True)
            app.build()
            doc = app.env.get_doctree("index")
            terms = [t["ids"] for t in doc.findall(nodes.term)]
            index = [e[1] for i in doc.findall(addnodes.index) for e in i["entries"]]
        return warn.getvalue().replace(str(src) + "/", ""), terms, index

    w0, terms0, idx0 = build([], 0)
    w1, terms1, idx1 = build([TAG], 1)
    print("input:", repr(TEXT))
    print("log without suppression:", w0.strip())
    print("term ids, not suppressed     :", terms0)
    print("term ids, suppressed         :", terms1)
    print("index entries, not suppressed:", idx0)
    print("index entries, suppressed    :", idx1)
    print("required: identical term ids and index entries in both runs")
    bad = terms0 != terms1 or idx0 != idx1
finally:
    shutil.rmtree(tmp, ignore_errors=True)
if bad:
    print("DEFECT: suppressing the warning changed the glossary term id / index entry")
    sys.exit(1)
print("OK")
sys.exit(0)
