"""C14 finding 5 (docutils): myst.duplicate_def (and myst.heading_slug) warnings are appended to the
document *after* the section, which blocks docutils' DocTitle promotion of a lone top-level section.
Suppressing the tag therefore restructures the whole doctree.

run as: PYTHONPATH=<tree> /venv/bin/python demo_5.py
"""
import io
import sys
import types

from docutils import nodes
from docutils.core import publish_doctree

from myst_parser.parsers.docutils_ import Parser


def bad_slug(text):
    raise ValueError("boom")


mod = types.ModuleType("c14_demo5_mod")
mod.bad_slug = bad_slug
sys.modules["c14_demo5_mod"] = mod

CASES = {
    "myst.duplicate_def": ("# Title\n\ntext\n\n[a]: b\n[a]: c\n", {}),
    "myst.heading_slug": (
        "# Title\n\ntext\n",
        {"myst_heading_anchors": 1, "myst_heading_slug_func": "c14_demo5_mod.bad_slug"},
    ),
}


def run(text, suppress, extra):
    stream = io.StringIO()
    doc = publish_doctree(
        text,
        parser=Parser(),
        settings_overrides={
            "warning_stream": stream,
            "halt_level": 5,
            "myst_suppress_warnings": suppress,
            **extra,
        },
    )
    return stream.getvalue(), doc


def without_tagged_messages(doc, tag):
    doc = doc.deepcopy()
    for sm in list(doc.findall(nodes.system_message)):
        if sm.astext().rstrip().endswith(f"[{tag}]"):
            sm.parent.remove(sm)
    return doc.pformat()


bad = False
for tag, (text, extra) in CASES.items():
    log0, doc0 = run(text, [], extra)
    log1, doc1 = run(text, [tag], extra)
    required = without_tagged_messages(doc0, tag)
    observed = doc1.pformat()
    print(f"== {tag}: input {text!r} {extra}")
    print("log without suppression:", log0.strip())
    print("--- required doctree under suppression (unsuppressed doctree minus the tagged message):")
    print(required)
    print("--- observed doctree under suppression:")
    print(observed)
    if required != observed:
        bad = True
if bad:
    print("DEFECT: suppressing the warning changed the document structure (title promotion)")
    sys.exit(1)
print("OK")
sys.exit(0)
