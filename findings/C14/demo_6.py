"""C14 finding 6 (Sphinx): the MathJax-override warning is logged without any type/subtype
(so it carries no '[myst.*]' tag), yet it is suppressible with the tag 'myst.mathjax',
which is NOT in the documented catalogue (myst_parser.warnings_.MystWarnings).

run as: PYTHONPATH=<tree> /venv/bin/python demo_6.py
"""
import io
import re
import shutil
import sys
import tempfile
from pathlib import Path

from sphinx.application import Sphinx
from sphinx.util.console import nocolor
from sphinx.util.docutils import docutils_namespace, patch_docutils

from myst_parser.warnings_ import MystWarnings

nocolor()
CATALOGUE = {f"myst.{w.value}" for w in MystWarnings}
tmp = Path(tempfile.mkdtemp(prefix="c14demo6"))
try:
    src = tmp / "src"
    src.mkdir()
    (src / "index.md").write_text("# T\n\n$x$\n")

    def build(suppress, n):
        (src / "conf.py").write_text(
            "extensions=['myst_parser']\nmyst_enable_extensions=['dollarmath']\n"
            "mathjax3_config={'options': {'processHtmlClass': 'other'}}\n"
            "show_warning_types=True\n"
            f"suppress_warnings={suppress!r}\n"
        )
        warn = io.StringIO()
        with docutils_namespace(), patch_docutils():
            app = Sphinx(str(src), str(src), str(tmp / f"out{n}"), str(tmp / f"dt{n}"), "html",
                         status=io.StringIO(), warning=warn, freshenv=True)
            app.build()
        return [l for l in warn.getvalue().splitlines() if "overridden by myst-parser" in l]

    lines = build([], 0)
    lines_sup = build(["myst.mathjax"], 1)
finally:
    shutil.rmtree(tmp, ignore_errors=True)

print("warning emitted by myst_parser/sphinx_ext/mathjax.py (no suppression):")
for l in lines:
    print("  ", l)
print("same build with suppress_warnings=['myst.mathjax']:", lines_sup or "(warning gone)")
print("'myst.mathjax' in documented catalogue:", "myst.mathjax" in CATALOGUE)
print("required: the warning ends in a '[myst.<subtype>]' tag of the catalogue, and the tag that suppresses it is in the catalogue")
bad = False
for l in lines:
    m = re.search(r"\[(myst\.[a-z_]+)\]\s*$", l)
    if not m or m.group(1) not in CATALOGUE:
        bad = True
if lines and not lines_sup and "myst.mathjax" not in CATALOGUE:
    bad = True
if bad:
    print("DEFECT: untagged MyST warning / suppression tag outside the catalogue")
    sys.exit(1)
print("OK")
sys.exit(0)
