"""C14 finding 7: the catalogue entry 'myst.directive_body' ("Issue parsing directive body") is never
emitted by any call site; problems with a directive's body are tagged 'myst.directive_parse'.

run as: PYTHONPATH=<tree> /venv/bin/python demo_7.py
"""
import ast
import io
import sys
from pathlib import Path

from docutils.core import publish_doctree

import myst_parser
from myst_parser.parsers.docutils_ import Parser
from myst_parser.warnings_ import MystWarnings

# static: which members of the catalogue are referenced anywhere in the package (outside the enum)?
pkg = Path(myst_parser.__file__).parent
used = set()
for path in pkg.rglob("*.py"):
    if path.name == "warnings_.py":
        continue
    tree = ast.parse(path.read_text())
    for node in ast.walk(tree):
        if (
            isinstance(node, ast.Attribute)
            and isinstance(node.value, ast.Name)
            and node.value.id == "MystWarnings"
        ):
            used.add(node.attr)
unused = [w for w in MystWarnings if w.name not in used]
print("catalogue members never referenced by a call site:", [f"myst.{w.value} ({w.name})" for w in unused])

# dynamic: body problems
CASES = {
    "content where none is permitted": "```{image} a.png\n\nbody text\n```\n",
    "content split over first line and body": "```{note} first\n:class: x\n\nbody\n```\n",
}
for name, text in CASES.items():
    stream = io.StringIO()
    publish_doctree(text, parser=Parser(), settings_overrides={"warning_stream": stream, "halt_level": 5})
    print(f"{name}: {text!r}\n   ->", stream.getvalue().strip())
print("required: every documented warning kind can be emitted under its own tag (body issues -> [myst.directive_body])")
if unused:
    print("DEFECT: documented tag(s) that no code path emits")
    sys.exit(1)
print("OK")
sys.exit(0)
