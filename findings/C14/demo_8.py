"""C14 finding 8 (docutils): three WARNING-level messages produced by myst_parser's own code are
logged without any 'type.subtype' tag and therefore cannot be suppressed with myst_suppress_warnings.

run as: PYTHONPATH=<tree> /venv/bin/python demo_8.py
"""
import io
import re
import sys

from docutils.core import publish_doctree

from myst_parser.parsers.docutils_ import Parser

CASES = [
    ("base.py create_highlighted_code_block", "```nopelang\ncode\n```\n", {}, "Cannot analyze code"),
    ("parsers/docutils_.py Parser.parse", "<b>raw html</b>\n", {"raw_enabled": False}, "Raw content disabled"),
    ("mocking.py MockIncludeDirective.run", "```{include} other.md\n```\n", {"file_insertion_enabled": False}, "disabled"),
]
TAG = re.compile(r"\[[a-z_]+\.[a-z_]+\]\s*$")
bad = False
for where, text, extra, needle in CASES:
    stream = io.StringIO()
    publish_doctree(
        text,
        parser=Parser(),
        settings_overrides={
            "warning_stream": stream,
            "halt_level": 5,
            # try to suppress everything MyST documents
            "myst_suppress_warnings": ["myst", "ref"],
            **extra,
        },
    )
    lines = [l for l in stream.getvalue().splitlines() if needle in l]
    print(f"== {where}: input {text!r} {extra}")
    for l in lines:
        tagged = bool(TAG.search(l))
        print("   ", l, "   <- tagged" if tagged else "   <- NO TAG, not suppressible")
        if "(WARNING/2)" in l and not tagged:
            bad = True
print("required: every warning emitted by the package carries a '[type.subtype]' tag (and obeys suppression)")
if bad:
    print("DEFECT: untyped warnings emitted by myst_parser call sites")
    sys.exit(1)
print("OK")
sys.exit(0)
