"""C14 finding 9: the warning call site in myst_parser/_docs.py (DirectiveDoc.run) is untyped and passes
a keyword (`line=`) that Sphinx's logger does not accept: instead of a tagged warning, the build dies
with TypeError.

run as: PYTHONPATH=<tree> /venv/bin/python demo_9.py
"""
import io
import re
import shutil
import sys
import tempfile
import traceback
from pathlib import Path

from sphinx.application import Sphinx
from sphinx.util.console import nocolor
from sphinx.util.docutils import docutils_namespace, patch_docutils

nocolor()
tmp = Path(tempfile.mkdtemp(prefix="c14demo9"))
error = None
lines = []
try:
    src = tmp / "src"
    src.mkdir()
    (src / "index.md").write_text("# T\n\n```{doc-directive} no-such-directive\ndescription\n```\n")
    (src / "conf.py").write_text(
        "extensions=['myst_parser']\nshow_warning_types=True\n"
        "def setup(app):\n"
        "    from myst_parser._docs import DirectiveDoc\n"
        "    app.add_directive('doc-directive', DirectiveDoc)\n"
    )
    warn = io.StringIO()
    try:
        with docutils_namespace(), patch_docutils():
            app = Sphinx(str(src), str(src), str(tmp / "out"), str(tmp / "dt"), "html",
                         status=io.StringIO(), warning=warn, freshenv=True)
            app.build()
    except Exception as exc:  # noqa: BLE001
        error = exc
        tb = traceback.format_exc().strip().splitlines()
    lines = [l for l in warn.getvalue().splitlines() if "not found" in l]
finally:
    shutil.rmtree(tmp, ignore_errors=True)

print("input: a `doc-directive` (myst_parser._docs.DirectiveDoc, as registered in the project's docs/conf.py) naming an unknown directive")
print("required: a warning 'Directive no-such-directive not found.' carrying a '[myst.<subtype>]' tag")
if error is not None:
    print("observed: the build raised", type(error).__name__ + ":", error)
    print("   ", "\n    ".join(tb[-6:]))
    print("DEFECT")
    sys.exit(1)
print("observed:", lines)
if not lines or not all(re.search(r"\[myst\.[a-z_]+\]\s*$", l) for l in lines):
    print("DEFECT: warning missing or untagged")
    sys.exit(1)
print("OK")
sys.exit(0)
