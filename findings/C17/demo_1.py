"""C17 finding 1: '#' inside an <img>/<div class=admonition> attribute value is read as a comment and truncates the value."""
import io, sys
from docutils import nodes
from docutils.core import publish_doctree
from myst_parser.parsers.docutils_ import Parser


def parse(text, exts):
    ws = io.StringIO()
    doc = publish_doctree(
        text,
        parser=Parser(),
        settings_overrides={
            "myst_enable_extensions": list(exts),
            "warning_stream": ws,
            "halt_level": 5,
            "report_level": 2,
        },
    )
    return doc, ws.getvalue()


def raws(doc):
    return [n.astext() for n in doc.findall(nodes.raw)]


FAIL = []


def check(label, ok, observed, required):
    print(f"[{'ok' if ok else 'DEFECT'}] {label}")
    print(f"     observed: {observed}")
    print(f"     required: {required}")
    if not ok:
        FAIL.append(label)


def finish():
    if FAIL:
        print(f"\n{len(FAIL)} violation(s) of C17 present")
        sys.exit(1)
    print("\nbehaviour matches the statement")
    sys.exit(0)

def img_attr(src_html, key):
    doc, w = parse(src_html, ["html_image"])
    imgs = list(doc.findall(nodes.image))
    return (imgs[0].get(key) if len(imgs) == 1 else "<no single image>"), w

for value in ["Figure 1 # overview", "#1 priority", "C # and F #"]:
    got, w = img_attr(f'<img src="a.png" alt="{value}">', "alt")
    check(f"img alt={value!r}", got == value, repr(got), repr(value))

# the directive spelling can carry the value (quoted), so an equivalent exists
doc, _ = parse('```{image} a.png\n:alt: "Figure 1 # overview"\n```', [])
print("     (directive spelling gives alt=%r)" % next(iter(doc.findall(nodes.image)))["alt"])

doc, w = parse('<div class="admonition" name="issue #12">body</div>', ["html_admonition"])
adm = list(doc.findall(nodes.admonition))
got = adm[0]["names"] if adm else None
check("admonition name='issue #12'", got == ["issue #12"], repr(got), repr(["issue #12"]))
finish()
