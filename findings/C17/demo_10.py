"""C17 finding 10: inner HTML of an HTML admonition is re-serialised, not carried over: attribute values are entity-decoded and re-quoted with double quotes without escaping, CDATA sections are mangled, stray end tags vanish."""
import io, sys
from docutils import nodes
from docutils.core import publish_doctree
from myst_parser.parsers.docutils_ import Parser


def parse(text, exts):
    ws = io.StringIO()
    doc = publish_doctree(
        text,
        parser=Parser(),
        settings_overrides={
            "myst_enable_extensions": list(exts),
            "warning_stream": ws,
            "halt_level": 5,
            "report_level": 2,
        },
    )
    return doc, ws.getvalue()


def raws(doc):
    return [n.astext() for n in doc.findall(nodes.raw)]


FAIL = []


def check(label, ok, observed, required):
    print(f"[{'ok' if ok else 'DEFECT'}] {label}")
    print(f"     observed: {observed}")
    print(f"     required: {required}")
    if not ok:
        FAIL.append(label)


def finish():
    if FAIL:
        print(f"\n{len(FAIL)} violation(s) of C17 present")
        sys.exit(1)
    print("\nbehaviour matches the statement")
    sys.exit(0)

def inner_raw_html(inner):
    doc, w = parse(f'<div class="admonition">\n{inner}\n</div>', ["html_admonition"])
    ad = next(iter(doc.findall(nodes.admonition)))
    return [r.astext() for r in ad.findall(nodes.raw)]

def inner_raw_directive(inner):
    doc, w = parse(f"```{{admonition}} Note\n:class: admonition\n\n{inner}\n```", [])
    ad = next(iter(doc.findall(nodes.admonition)))
    return [r.astext() for r in ad.findall(nodes.raw)]

for inner in [
    """see <a href="x" title='say "hi"'>link</a>""",
    """see <a href="x" title="say &quot;hi&quot;">link</a>""",
    """see <a href="?a=1&amp;lt=2">link</a>""",
    """a <![CDATA[x]]> b""",
    """a </span> b""",
]:
    got, exp = inner_raw_html(inner), inner_raw_directive(inner)
    check(f"inner {inner!r}", got == exp, got, f"{exp} (admonition directive with the same body)")
finish()
