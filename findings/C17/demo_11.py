"""C17 finding 11: an inline <div class="admonition"> start tag (paragraph, heading, table cell) is not a <div> block, yet it is run as an empty admonition directive: an ERROR replaces the raw tag."""
import io, sys
from docutils import nodes
from docutils.core import publish_doctree
from myst_parser.parsers.docutils_ import Parser


def parse(text, exts):
    ws = io.StringIO()
    doc = publish_doctree(
        text,
        parser=Parser(),
        settings_overrides={
            "myst_enable_extensions": list(exts),
            "warning_stream": ws,
            "halt_level": 5,
            "report_level": 2,
        },
    )
    return doc, ws.getvalue()


def raws(doc):
    return [n.astext() for n in doc.findall(nodes.raw)]


FAIL = []


def check(label, ok, observed, required):
    print(f"[{'ok' if ok else 'DEFECT'}] {label}")
    print(f"     observed: {observed}")
    print(f"     required: {required}")
    if not ok:
        FAIL.append(label)


def finish():
    if FAIL:
        print(f"\n{len(FAIL)} violation(s) of C17 present")
        sys.exit(1)
    print("\nbehaviour matches the statement")
    sys.exit(0)

for text in [
    'para <div class="admonition">inner</div> tail',
    '# head <div class="admonition note">x</div>',
    '| a |\n|---|\n| <div class="admonition">x</div> |',
]:
    base = raws(parse(text, [])[0])
    doc, w = parse(text, ["html_admonition"])
    got = raws(doc)
    errs = [m.astext().splitlines()[0] for m in doc.findall(nodes.system_message)]
    check(repr(text), got == base and not errs, f"raw={got} errors={errs}", f"raw={base}, no error (no admonition is produced either way)")
finish()
