"""C17 finding 2: a quote character at the start of an attribute value is read as YAML quoting: the value is de-quoted, or the whole option block is rejected and every attribute is lost."""
import io, sys
from docutils import nodes
from docutils.core import publish_doctree
from myst_parser.parsers.docutils_ import Parser


def parse(text, exts):
    ws = io.StringIO()
    doc = publish_doctree(
        text,
        parser=Parser(),
        settings_overrides={
            "myst_enable_extensions": list(exts),
            "warning_stream": ws,
            "halt_level": 5,
            "report_level": 2,
        },
    )
    return doc, ws.getvalue()


def raws(doc):
    return [n.astext() for n in doc.findall(nodes.raw)]


FAIL = []


def check(label, ok, observed, required):
    print(f"[{'ok' if ok else 'DEFECT'}] {label}")
    print(f"     observed: {observed}")
    print(f"     required: {required}")
    if not ok:
        FAIL.append(label)


def finish():
    if FAIL:
        print(f"\n{len(FAIL)} violation(s) of C17 present")
        sys.exit(1)
    print("\nbehaviour matches the statement")
    sys.exit(0)

def img(src_html):
    doc, w = parse(src_html, ["html_image"])
    imgs = list(doc.findall(nodes.image))
    if len(imgs) != 1:
        return None
    return {k: imgs[0].get(k) for k in ("alt", "width", "classes")}

cases = [
    ("""<img src="a.png" alt='"quoted"' width="10">""", '"quoted"'),
    ("""<img src="a.png" alt="'Hello' she said" width="10">""", "'Hello' she said"),
    ("""<img src="a.png" alt="'tis the season" width="10">""", "'tis the season"),
    ("""<img src="a.png" alt="'it''s'" width="10">""", "'it''s'"),
]
for html_, alt in cases:
    got = img(html_)
    ok = got is not None and got["alt"] == alt and got["width"] == "10"
    check(html_, ok, got, {"alt": alt, "width": "10"})
finish()
