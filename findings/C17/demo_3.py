"""C17 finding 3: an attribute value starting with '|' or '>' is read as a YAML block-scalar indicator: value emptied or every attribute lost."""
import io, sys
from docutils import nodes
from docutils.core import publish_doctree
from myst_parser.parsers.docutils_ import Parser


def parse(text, exts):
    ws = io.StringIO()
    doc = publish_doctree(
        text,
        parser=Parser(),
        settings_overrides={
            "myst_enable_extensions": list(exts),
            "warning_stream": ws,
            "halt_level": 5,
            "report_level": 2,
        },
    )
    return doc, ws.getvalue()


def raws(doc):
    return [n.astext() for n in doc.findall(nodes.raw)]


FAIL = []


def check(label, ok, observed, required):
    print(f"[{'ok' if ok else 'DEFECT'}] {label}")
    print(f"     observed: {observed}")
    print(f"     required: {required}")
    if not ok:
        FAIL.append(label)


def finish():
    if FAIL:
        print(f"\n{len(FAIL)} violation(s) of C17 present")
        sys.exit(1)
    print("\nbehaviour matches the statement")
    sys.exit(0)

def img(src_html):
    doc, w = parse(src_html, ["html_image"])
    imgs = list(doc.findall(nodes.image))
    if len(imgs) != 1:
        return None
    return {k: imgs[0].get(k) for k in ("alt", "width")}

for alt in ["> 5 items", "|x| norm", ">", "|"]:
    html_ = f'<img src="a.png" alt="{alt}" width="10">'
    got = img(html_)
    ok = got is not None and got["alt"] == alt and got["width"] == "10"
    check(html_, ok, got, {"alt": alt, "width": "10"})
finish()
