"""C17 finding 4: a TAB inside an attribute value (a legal class separator) makes the option block unparsable: every attribute is lost."""
import io, sys
from docutils import nodes
from docutils.core import publish_doctree
from myst_parser.parsers.docutils_ import Parser


def parse(text, exts):
    ws = io.StringIO()
    doc = publish_doctree(
        text,
        parser=Parser(),
        settings_overrides={
            "myst_enable_extensions": list(exts),
            "warning_stream": ws,
            "halt_level": 5,
            "report_level": 2,
        },
    )
    return doc, ws.getvalue()


def raws(doc):
    return [n.astext() for n in doc.findall(nodes.raw)]


FAIL = []


def check(label, ok, observed, required):
    print(f"[{'ok' if ok else 'DEFECT'}] {label}")
    print(f"     observed: {observed}")
    print(f"     required: {required}")
    if not ok:
        FAIL.append(label)


def finish():
    if FAIL:
        print(f"\n{len(FAIL)} violation(s) of C17 present")
        sys.exit(1)
    print("\nbehaviour matches the statement")
    sys.exit(0)

doc, w = parse('<div class="admonition\tnote" name="nm">body</div>', ["html_admonition"])
adm = list(doc.findall(nodes.admonition))
got = (adm[0]["classes"], adm[0]["names"]) if adm else None
ref, _ = parse("```{admonition} Note\n:class: admonition note\n:name: nm\n\nbody\n```", [])
r = next(iter(ref.findall(nodes.admonition)))
exp = (r["classes"], r["names"])
check('<div class="admonition<TAB>note" name="nm">', got == exp, f"{got}  warnings: {w.strip()!r}", f"{exp} (as the admonition directive with :class: admonition note / :name: nm)")

doc, w = parse('<img src="a.png" alt="col1\tcol2" width="10">', ["html_image"])
im = list(doc.findall(nodes.image))
got = (im[0].get("alt"), im[0].get("width")) if im else None
check('<img alt="col1<TAB>col2" width="10">', got == ("col1\tcol2", "10"), got, ("col1\tcol2", "10"))
finish()
