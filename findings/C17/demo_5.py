"""C17 finding 5: a line break inside an attribute value ends the option line: the rest of the value becomes directive content or a new (injected) option."""
import io, sys
from docutils import nodes
from docutils.core import publish_doctree
from myst_parser.parsers.docutils_ import Parser


def parse(text, exts):
    ws = io.StringIO()
    doc = publish_doctree(
        text,
        parser=Parser(),
        settings_overrides={
            "myst_enable_extensions": list(exts),
            "warning_stream": ws,
            "halt_level": 5,
            "report_level": 2,
        },
    )
    return doc, ws.getvalue()


def raws(doc):
    return [n.astext() for n in doc.findall(nodes.raw)]


FAIL = []


def check(label, ok, observed, required):
    print(f"[{'ok' if ok else 'DEFECT'}] {label}")
    print(f"     observed: {observed}")
    print(f"     required: {required}")
    if not ok:
        FAIL.append(label)


def finish():
    if FAIL:
        print(f"\n{len(FAIL)} violation(s) of C17 present")
        sys.exit(1)
    print("\nbehaviour matches the statement")
    sys.exit(0)

# class list separated by a newline (legal HTML)
doc, w = parse('<div class="admonition\nnote" name="nm">body</div>', ["html_admonition"])
adm = list(doc.findall(nodes.admonition))
got = (adm[0]["classes"], adm[0]["names"], [p.astext() for p in adm[0].findall(nodes.paragraph)]) if adm else None
exp = (["admonition", "note"], ["nm"], ["body"])
check("div class='admonition\\nnote' name='nm'", got == exp, got, exp)

# multi-line alt text on an inline image
doc, w = parse('x <img src="a.png" alt="line one\nline two" width="10"> y', ["html_image"])
im = list(doc.findall(nodes.image))
got = (im[0].get("alt"), im[0].get("width")) if im else None
ok = got is not None and got[0] in ("line one\nline two", "line one line two") and got[1] == "10" and "Has content" not in w
check("img alt='line one\\nline two' width=10", ok, f"{got} warnings: {w.strip()!r}", "alt carries both lines, width=10, no warning")

# option injection through the value
doc, w = parse('x <img src="a.png" alt="a\n:width: 100"> y', ["html_image"])
im = list(doc.findall(nodes.image))
got = (im[0].get("alt"), im[0].get("width")) if im else None
check("img alt='a\\n:width: 100' (no width attribute)", got is not None and got[1] is None and ":width:" in (got[0] or ""), got, "alt keeps ':width: 100' as text; image has no width")

# other characters str.splitlines() treats as line ends
for ch in ["\x0b", "\x0c", "\x1c", "\x85", " "]:
    doc, w = parse(f'<img src="a.png" alt="a{ch}b" width="10">', ["html_image"])
    im = list(doc.findall(nodes.image))
    got = (im[0].get("alt"), im[0].get("width")) if im else None
    check(f"img alt='a{ch!r}b' width=10", got is not None and got[1] == "10" and (got[0] or "").startswith("a") and (got[0] or "").endswith("b"), got, "alt a..b, width 10")
finish()
