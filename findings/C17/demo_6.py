"""C17 finding 6: a valueless attribute (<img alt>, <div name>) is passed on as the literal string 'None'."""
import io, sys
from docutils import nodes
from docutils.core import publish_doctree
from myst_parser.parsers.docutils_ import Parser


def parse(text, exts):
    ws = io.StringIO()
    doc = publish_doctree(
        text,
        parser=Parser(),
        settings_overrides={
            "myst_enable_extensions": list(exts),
            "warning_stream": ws,
            "halt_level": 5,
            "report_level": 2,
        },
    )
    return doc, ws.getvalue()


def raws(doc):
    return [n.astext() for n in doc.findall(nodes.raw)]


FAIL = []


def check(label, ok, observed, required):
    print(f"[{'ok' if ok else 'DEFECT'}] {label}")
    print(f"     observed: {observed}")
    print(f"     required: {required}")
    if not ok:
        FAIL.append(label)


def finish():
    if FAIL:
        print(f"\n{len(FAIL)} violation(s) of C17 present")
        sys.exit(1)
    print("\nbehaviour matches the statement")
    sys.exit(0)

doc, w = parse('<img src="a.png" alt class name>', ["html_image"])
im = next(iter(doc.findall(nodes.image)))
got = {"alt": im.get("alt"), "classes": im["classes"], "names": im["names"]}
ok = got["alt"] in (None, "") and got["classes"] == [] and got["names"] == []
check("<img src=a.png alt class name>", ok, got, "no alt text (or empty), no classes, no names")

doc, w = parse('<div class="admonition" name>body</div>', ["html_admonition"])
ad = next(iter(doc.findall(nodes.admonition)))
check("<div class=admonition name>", ad["names"] == [] and ad["ids"] == [], {"names": ad["names"], "ids": ad["ids"]}, "no names/ids")

# the same None leaks into inner HTML that is re-serialised
doc, w = parse('<div class="admonition">x <input disabled> y</div>', ["html_admonition"])
got = raws(doc)
check("inner <input disabled>", got == ["<input disabled>"], got, ["<input disabled>"])
finish()
