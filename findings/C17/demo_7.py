"""C17 finding 7: an HTML block that contains more than <img>/<div.admonition> (a stray end tag, an unfinished tag, a bare '&') is converted anyway and the extra source text is dropped instead of the block passing through verbatim."""
import io, sys
from docutils import nodes
from docutils.core import publish_doctree
from myst_parser.parsers.docutils_ import Parser


def parse(text, exts):
    ws = io.StringIO()
    doc = publish_doctree(
        text,
        parser=Parser(),
        settings_overrides={
            "myst_enable_extensions": list(exts),
            "warning_stream": ws,
            "halt_level": 5,
            "report_level": 2,
        },
    )
    return doc, ws.getvalue()


def raws(doc):
    return [n.astext() for n in doc.findall(nodes.raw)]


FAIL = []


def check(label, ok, observed, required):
    print(f"[{'ok' if ok else 'DEFECT'}] {label}")
    print(f"     observed: {observed}")
    print(f"     required: {required}")
    if not ok:
        FAIL.append(label)


def finish():
    if FAIL:
        print(f"\n{len(FAIL)} violation(s) of C17 present")
        sys.exit(1)
    print("\nbehaviour matches the statement")
    sys.exit(0)

from markdown_it import MarkdownIt

def blocks(text):
    return [t.content for t in MarkdownIt("commonmark").parse(text) if t.type == "html_block"]

cases = [
    ('<p align="center">\n\n<img src="logo.png">\n</p>\n', ["html_image"]),
    ('<a href="x">\n\n<img src="a.png">\n</a>\n', ["html_image"]),
    ('<details>\n\n<div class="admonition">\nx\n</div>\n</details>\n', ["html_admonition"]),
    ('<img src="a.png">\n<b\n', ["html_image"]),
    ('<img src="a.png">\n&', ["html_image"]),
    ('<div class="admonition">x</div>\n<!-- unfinished\n', ["html_admonition"]),
]
for text, exts in cases:
    exp = blocks(text)
    doc, w = parse(text, exts)
    got = raws(doc)
    base = raws(parse(text, [])[0])
    assert base == exp
    check(repr(text), got == exp, f"raw nodes {got}", f"raw nodes {exp} (as with the extension off)")
finish()
