"""C17 finding 8: one <img> without src among several images makes html_to_nodes return only an error: the other images and the source HTML disappear."""
import io, sys
from docutils import nodes
from docutils.core import publish_doctree
from myst_parser.parsers.docutils_ import Parser


def parse(text, exts):
    ws = io.StringIO()
    doc = publish_doctree(
        text,
        parser=Parser(),
        settings_overrides={
            "myst_enable_extensions": list(exts),
            "warning_stream": ws,
            "halt_level": 5,
            "report_level": 2,
        },
    )
    return doc, ws.getvalue()


def raws(doc):
    return [n.astext() for n in doc.findall(nodes.raw)]


FAIL = []


def check(label, ok, observed, required):
    print(f"[{'ok' if ok else 'DEFECT'}] {label}")
    print(f"     observed: {observed}")
    print(f"     required: {required}")
    if not ok:
        FAIL.append(label)


def finish():
    if FAIL:
        print(f"\n{len(FAIL)} violation(s) of C17 present")
        sys.exit(1)
    print("\nbehaviour matches the statement")
    sys.exit(0)

text = '<img src="a.png" alt="first">\n<img alt="no source">\n<img src="c.png">\n'
doc, w = parse(text, ["html_image"])
uris = [i["uri"] for i in doc.findall(nodes.image)]
got_raw = raws(doc)
ok = got_raw == [text] or ("a.png" in uris and "c.png" in uris)
check(repr(text), ok, f"images={uris} raw={got_raw} messages={w.strip()!r}",
      "either the block verbatim as one raw node, or images a.png and c.png (plus a message for the bad one)")

text = 'see <img alt="x"> here'
doc, w = parse(text, ["html_image"])
check(repr(text), raws(doc) == ['<img alt="x">'], f"raw={raws(doc)} messages={w.strip()!r}",
      "not convertible (no image directive without argument) -> raw node '<img alt=\"x\">'")
finish()
