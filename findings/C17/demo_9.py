"""C17 finding 9: inner Markdown of an HTML admonition is changed: every '&name' / '&#n' without a semicolon gets one appended (AT&T -> AT&T;), and such references are then decoded."""
import io, sys
from docutils import nodes
from docutils.core import publish_doctree
from myst_parser.parsers.docutils_ import Parser


def parse(text, exts):
    ws = io.StringIO()
    doc = publish_doctree(
        text,
        parser=Parser(),
        settings_overrides={
            "myst_enable_extensions": list(exts),
            "warning_stream": ws,
            "halt_level": 5,
            "report_level": 2,
        },
    )
    return doc, ws.getvalue()


def raws(doc):
    return [n.astext() for n in doc.findall(nodes.raw)]


FAIL = []


def check(label, ok, observed, required):
    print(f"[{'ok' if ok else 'DEFECT'}] {label}")
    print(f"     observed: {observed}")
    print(f"     required: {required}")
    if not ok:
        FAIL.append(label)


def finish():
    if FAIL:
        print(f"\n{len(FAIL)} violation(s) of C17 present")
        sys.exit(1)
    print("\nbehaviour matches the statement")
    sys.exit(0)

def body_html(inner):
    doc, w = parse(f'<div class="admonition">\n{inner}\n</div>', ["html_admonition"])
    ad = next(iter(doc.findall(nodes.admonition)))
    return [p.astext() for p in ad.findall(nodes.paragraph)]

def body_directive(inner):
    doc, w = parse(f"```{{admonition}} Note\n:class: admonition\n\n{inner}\n```", [])
    ad = next(iter(doc.findall(nodes.admonition)))
    return [p.astext() for p in ad.findall(nodes.paragraph)]

for inner in ["AT&T and R&D", "Q&A session", "use &nbsp to pad", "x &#35 y", "a &amp; b"]:
    got, exp = body_html(inner), body_directive(inner)
    check(f"inner text {inner!r}", got == exp, got, f"{exp} (admonition directive with the same body)")
finish()
