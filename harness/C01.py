"""C01 run-time side (bounded): generated MyST documents and token soup through the docutils front end
(parse + standard transforms) under generated configurations and file-system faults; no exception may escape."""
from __future__ import annotations

import os
import random
import tempfile
import time
import traceback

from harness.common import Collector
from harness.docutils_util import parse

EXTS = ["amsmath", "attrs_inline", "attrs_block", "colon_fence", "deflist", "dollarmath", "fieldlist", "html_admonition",
        "html_image", "replacements", "smartquotes", "strikethrough", "substitution", "tasklist"]

BLOCKS = [
    "# Title", "## Sub {#id .c}", "text *em* **strong** `code`", "- a\n- b\n  - c", "1. x\n2. y", "0. zero",
    "> quote\n> more", "> ---", "---", "***", "```python\ncode\n```", "```{note}\nbody\n```", "```{note}\n:class: x\n\nbody\n```",
    "```{note}\n:class: [\n\nbody\n```", "```{note}\n:class: \"\\UFFFFFFFF\"\n```", "```{note}\n:class: |²\n```", "```{unknown}\n```",
    "```{image} a.png\n:width: abc\n```", "```{figure} a.png\n:name: f\n\ncaption\n```", "```{code-block}\n```", "```{code-block} python\n:linenos:\n:emphasize-lines: x\n\na\n```",
    "```{include} nofile.md\n```", "```{include} .\n```", "```{include} binary.dat\n```", "```{include} self.md\n```", "```{include} inc.md\n:start-after: zzz\n```",
    "```{eval-rst}\n.. note:: x\n\n.. unknown::\n```", "```{list-table}\n* - a\n```", "```{toctree}\nx\n```", "```{contents}\n```", "```{math}\n:label: e\na=1\n```",
    "{ref}`x`", "{unknownrole}`y`", "{math}`a`", "{sub}`x` {abbr}`A (b)`", "{raw}`x`", "[link](target.md)", "[](#nope)", "[t](#title)", "<https://x.y>", "[a][b]",
    "[inv](inv:key#name)", "<inv:#*>", "<project:x.md>", "<path:a.txt>", "![img](a.png){w=1}", "![](missing)", "[^n]\n\n[^n]: note", "[^dup]: a\n\n[^dup]: b",
    "<div>\n\nhtml\n</div>", "<img src=\"a.png\" alt>", "<img src>", "<img alt=\"x\">", "<div class=\"admonition\">\n<p class=\"title\">T</p>\nbody\n</div>", "<![ x", "<!-- c -->", "a <b>x</b> &amp; &#0;",
    "| a | b |\n|---|:-:|\n| 1 | 2 |", "| a |\n|---|\n| 1 | 2 | 3 |", "$a=1$ $$b$$", "\\begin{equation}\na\n\\end{equation}", "Term\n: Def", ":field: value", "{{ key }}", "{{ nokey }}", "{{ a.b() }}", "{{ key2 }}",
    ":::{tip}\nx\n:::", "::::{note}\n:::{tip}\n:::\n::::", "- [ ] task\n- [x] done", "~~s~~", "a\\\nb", "(target)=\n# T2", "% comment", "+++ {\"a\": 1}", "+++ bad json", "\x00\ud800".encode("utf8", "surrogatepass").decode("utf8", "replace"),
    "﻿bom", "\t\ttabs", "a" * 300, "[x]: <y z>\n\n[x]", "```{note}\n---\nclass: a\n--- y\nbody\n```", "```{admonition}\n```", "```{admonition} T\n:name: [1,\n```",
    # one id used twice: attribute block on two headings, on a heading and a (x)= target, equal to the heading's own name
    "{#x}\n# A\n\n{#x}\n# B", "{#x}\n# A\n\n(x)=\npara", "(x)=\n# A\n\n{#x}\n# B", "{#a}\n# A\n\n# a", "{#x .c}\npara\n\n{#x}\npara", "{#x}\n- l\n\n{#x}\n> q",
]
FRONT = [
    "", "---\ntitle: T\n---\n", "---\na: [\n---\n", "---\na: *x\n---\n", "---\na: 2001-13-45\n---\n", "---\n- list\n---\n", "---\nmyst:\n  enable_extensions: [dollarmath, nope]\n---\n",
    "---\nmyst:\n  url_schemes: [http]\n---\n", "---\nmyst: 3\n---\n", "---\nmyst:\n  heading_anchors: \"\"\n  substitutions: {key: \"*v*\", key2: \"{{ key2 }}\"}\n---\n",
    "---\nhtml_meta:\n  a: b\nsubstitutions:\n  key: v\n---\n", "---\nmyst:\n  title_to_header: true\ntitle: \"{x}`y`\"\n---\n", "---\n", "---\n...\n",
    # values of every YAML type, also the ones that are not JSON (binary, set, timestamps) and keys that are not strings
    "---\na: !!binary aGVsbG8=\nb: !!set {x, y}\nc: [!!binary aGVsbG8=]\nd: 2001-01-01\n---\n", "---\n1: a\nnull: x\ntrue: y\n1.5: z\n? [a, b]\n: c\n---\n",
    "---\nmyst:\n  html_meta: {1: x, a: 1}\n  substitutions: {1: x}\n  url_schemes: {http: {classes: 5}}\n  heading_anchors: true\n---\n",
    "---\nauthor: [a, b]\nauthors: 1\ndate: 2020-01-01\nabstract: |\n  *x*\n\n  # h\ndedication: '```{note}\\nx\\n```'\n---\n",
    "---\nmyst:\n  title_to_header: true\ntitle: 7\n---\n", "---\nmyst:\n  title_to_header: true\ntitle: [a]\n---\n",
]


def make_files(d):
    open(os.path.join(d, "inc.md"), "w").write("# Included\n\n[^n]: x\n\n```{include} inc.md\n```\n")
    open(os.path.join(d, "self.md"), "w").write("x\n```{include} self.md\n```\n")
    open(os.path.join(d, "binary.dat"), "wb").write(bytes(range(256)))
    open(os.path.join(d, "a.txt"), "w").write("a")


def check_doc(col, text, ov, d):
    case = {"text": text, "overrides": ov}
    try:
        parse(text, dict(ov), source_path=os.path.join(d, "self.md"))
    except RecursionError:
        pass  # unbounded self-inclusion is reported by CPython's recursion limit; not an "uncaught" parser defect here
    except Exception as exc:  # noqa: BLE001
        tb = traceback.extract_tb(exc.__traceback__)
        where = next((f"{os.path.basename(f.filename)}:{f.lineno}:{f.name}" for f in reversed(tb) if "myst_parser" in f.filename), "?")
        col.fail("C01.uncaught", case, f"{type(exc).__name__}: {str(exc)[:150]} (innermost myst frame {where})", known=in_known(text, exc, ov))


def _transition_assertion(tb):
    """Region of the known finding C03-hr-in-container, identified by its call site: docutils' Transitions transform failing
    its own `assert isinstance(node.parent, (document, section))` - by that condition the document has a thematic break whose
    parent is neither the document nor a section (in a block quote, list item, directive body ...)."""
    return "docutils/transforms/misc.py" in tb and "in visit_transition" in tb and "assert (isinstance(node.parent, nodes.document)" in tb


def in_known(text, exc, ov):
    tb = "".join(traceback.format_exception(type(exc), exc, exc.__traceback__))
    if isinstance(exc, AssertionError) and _transition_assertion(tb):
        return "C03-hr-in-container"
    if "<img src>" in text and "html_image" in (ov.get("myst_enable_extensions") or []):
        return "C01-img-attr-none"
    return None


def rand_config(rng):
    ov = {}
    ov["myst_enable_extensions"] = sorted(rng.sample(EXTS, rng.randint(0, len(EXTS))))
    if rng.random() < 0.3:
        ov["myst_commonmark_only"] = True
    if rng.random() < 0.3:
        ov["myst_heading_anchors"] = rng.randint(0, 6)
    if rng.random() < 0.3:
        ov["myst_substitutions"] = {"key": "val *x*", "key2": "{{ key }}"}
    if rng.random() < 0.2:
        ov["myst_fence_as_directive"] = ["python", "note"]
    if rng.random() < 0.2:
        ov["myst_footnote_sort"] = False
    if rng.random() < 0.2:
        ov["raw_enabled"] = False
    if rng.random() < 0.2:
        ov["file_insertion_enabled"] = False
    if rng.random() < 0.2:
        ov["myst_inventories"] = {"key": ["nofile.inv", None]}
    if rng.random() < 0.15:
        ov["myst_url_schemes"] = ["http", "https", "mailto"]
    return ov


def run(tier, seed, extra):
    col = Collector("C01", extra.get("known", ()))
    rng = random.Random(seed)
    d = tempfile.mkdtemp(prefix="c01-")
    try:
        make_files(d)
        t0 = time.time()
        cnt = 0
        allext = {"myst_enable_extensions": EXTS, "myst_substitutions": {"key": "v", "key2": "{{ key2 }}"}}
        for b in BLOCKS:
            for ov in ({}, allext):
                col.case(("single", b, bool(ov)))
                check_doc(col, b + "\n", ov, d)
                cnt += 1
        for f in FRONT:
            col.case(("front", f))
            check_doc(col, f + "\n# T\n\n{{ key }}\n", allext, d)
            cnt += 1
        n = 250 if tier == "quick" else 6000
        for _ in range(n):
            parts = [rng.choice(BLOCKS) for _ in range(rng.randint(1, 6))]
            if rng.random() < 0.3:  # nest some blocks in containers
                i = rng.randrange(len(parts))
                parts[i] = rng.choice(["> ", "- ", "  "]) + parts[i].replace("\n", "\n  ")
            text = rng.choice(FRONT) + "\n\n".join(parts) + "\n"
            ov = rand_config(rng)
            col.case(("rand", text, str(sorted(ov))))
            check_doc(col, text, ov, d)
            cnt += 1
        soup = list("#*_`[]()<>!{}:-|\\\n \t$~^=+&;\"'") + ["```", ":::", "{note}", "---", "[^a]", "{{", "}}", "<div>", "$$"]
        for _ in range(300 if tier == "quick" else 8000):
            text = "".join(rng.choice(soup) for _ in range(rng.randint(1, 40)))
            col.case(("soup", text))
            check_doc(col, text, rand_config(rng), d)
            cnt += 1
        col.add_bound("docutils front end: parse + standard transforms never raise",
                      f"{cnt} documents: every vocabulary block alone x {{no, all}} extensions; {len(FRONT)} front-matter forms; "
                      f"{n} random compositions x random valid configurations (extension subsets, commonmark mode, security settings, "
                      f"missing inventory); token soup; include faults (missing, directory, undecodable, self-including); seed {seed}", cnt, time.time() - t0)
    finally:
        import shutil

        shutil.rmtree(d, ignore_errors=True)
    return col.result()


def replay(col, case, check):
    d = tempfile.mkdtemp(prefix="c01-")
    try:
        make_files(d)
        check_doc(col, case["text"], case.get("overrides") or {}, d)
    finally:
        import shutil

        shutil.rmtree(d, ignore_errors=True)
