"""C01 run-time side (bounded): generated MyST documents and token soup through the docutils front end
(parse + standard transforms) under generated configurations and file-system faults; no exception may escape."""
from __future__ import annotations

import os
import random
import tempfile
import time
import traceback

from harness.common import Collector
from harness.docutils_util import parse

EXTS = ["amsmath", "attrs_inline", "attrs_block", "colon_fence", "deflist", "dollarmath", "fieldlist", "html_admonition",
        "html_image", "replacements", "smartquotes", "strikethrough", "substitution", "tasklist"]

BLOCKS = [
    "# Title", "## Sub {#id .c}", "text *em* **strong** `code`", "- a\n- b\n  - c", "1. x\n2. y", "0. zero",
    "> quote\n> more", "> ---", "---", "***", "```python\ncode\n```", "```{note}\nbody\n```", "```{note}\n:class: x\n\nbody\n```",
    "```{note}\n:class: [\n\nbody\n```", "```{note}\n:class: \"\\UFFFFFFFF\"\n```", "```{note}\n:class: |²\n```", "```{unknown}\n```",
    "```{image} a.png\n:width: abc\n```", "```{figure} a.png\n:name: f\n\ncaption\n```", "```{code-block}\n```", "```{code-block} python\n:linenos:\n:emphasize-lines: x\n\na\n```",
    "```{include} nofile.md\n```", "```{include} .\n```", "```{include} binary.dat\n```", "```{include} self.md\n```", "```{include} inc.md\n:start-after: zzz\n```",
    "```{eval-rst}\n.. note:: x\n\n.. unknown::\n```", "```{list-table}\n* - a\n```", "```{toctree}\nx\n```", "```{contents}\n```", "```{math}\n:label: e\na=1\n```",
    "{ref}`x`", "{unknownrole}`y`", "{math}`a`", "{sub}`x` {abbr}`A (b)`", "{raw}`x`", "[link](target.md)", "[](#nope)", "[t](#title)", "<https://x.y>", "[a][b]",
    "[inv](inv:key#name)", "<inv:#*>", "<project:x.md>", "<path:a.txt>", "![img](a.png){w=1}", "![](missing)", "[^n]\n\n[^n]: note", "[^dup]: a\n\n[^dup]: b",
    "<div>\n\nhtml\n</div>", "<img src=\"a.png\" alt>", "<img src>", "<img alt=\"x\">", "<div class=\"admonition\">\n<p class=\"title\">T</p>\nbody\n</div>", "<![ x", "<!-- c -->", "a <b>x</b> &amp; &#0;",
    "| a | b |\n|---|:-:|\n| 1 | 2 |", "| a |\n|---|\n| 1 | 2 | 3 |", "$a=1$ $$b$$", "\\begin{equation}\na\n\\end{equation}", "Term\n: Def", ":field: value", "{{ key }}", "{{ nokey }}", "{{ a.b() }}", "{{ key2 }}",
    ":::{tip}\nx\n:::", "::::{note}\n:::{tip}\n:::\n::::", "- [ ] task\n- [x] done", "~~s~~", "a\\\nb", "(target)=\n# T2", "% comment", "+++ {\"a\": 1}", "+++ bad json", "\x00\ud800".encode("utf8", "surrogatepass").decode("utf8", "replace"),
    "﻿bom", "\t\ttabs", "a" * 300, "[x]: <y z>\n\n[x]", "```{note}\n---\nclass: a\n--- y\nbody\n```", "```{admonition}\n```", "```{admonition} T\n:name: [1,\n```",
    # one id used twice: attribute block on two headings, on a heading and a (x)= target, equal to the heading's own name
    # (repaired defects, kept as regression inputs) valueless / invalid attributes, odd footnote labels, blank-leading directive bodies
    "<div class>x</div>", "<div class=\"admonition\" name>\nx\n</div>", "![a](b){w=abc}", "![a](b){a=abc h=1}", "a[^²] b[^1]\n\n[^²]: x\n[^1]: y",
    "a[^10] b[^x] c[^2]\n\n[^x]: x\n[^10]: y\n[^2]: z", "```{line-block}\n\n\nx\n```", "```{line-block}\n\n  a\nb\n```", "```{figure} x\n\n\n\n```", "```{target-notes}\n:name: n\n```",
    "{#x}\n# A\n\n{#x}\n# B", "{#x}\n# A\n\n(x)=\npara", "(x)=\n# A\n\n{#x}\n# B", "{#a}\n# A\n\n# a", "{#x .c}\npara\n\n{#x}\npara", "{#x}\n- l\n\n{#x}\n> q",
]
FRONT = [
    "", "---\ntitle: T\n---\n", "---\na: [\n---\n", "---\na: *x\n---\n", "---\na: 2001-13-45\n---\n", "---\n- list\n---\n", "---\nmyst:\n  enable_extensions: [dollarmath, nope]\n---\n",
    "---\nmyst:\n  url_schemes: [http]\n---\n", "---\nmyst: 3\n---\n", "---\nmyst:\n  heading_anchors: \"\"\n  substitutions: {key: \"*v*\", key2: \"{{ key2 }}\"}\n---\n",
    "---\nhtml_meta:\n  a: b\nsubstitutions:\n  key: v\n---\n", "---\nmyst:\n  title_to_header: true\ntitle: \"{x}`y`\"\n---\n", "---\n", "---\n...\n",
    # values of every YAML type, also the ones that are not JSON (binary, set, timestamps) and keys that are not strings
    "---\na: !!binary aGVsbG8=\nb: !!set {x, y}\nc: [!!binary aGVsbG8=]\nd: 2001-01-01\n---\n", "---\n1: a\nnull: x\ntrue: y\n1.5: z\n? [a, b]\n: c\n---\n",
    "---\nmyst:\n  html_meta: {1: x, a: 1}\n  substitutions: {1: x}\n  url_schemes: {http: {classes: 5}}\n  heading_anchors: true\n---\n",
    "---\nauthor: [a, b]\nauthors: 1\ndate: 2020-01-01\nabstract: |\n  *x*\n\n  # h\ndedication: '```{note}\\nx\\n```'\n---\n",
    "---\na: {2001-01-01: x}\nb: {[1, 2]: y}\n---\n", "---\nmyst:\n  heading_anchors: null\n---\n", "---\nmyst:\n  words_per_minute: 0\n---\n",
    "---\nmyst:\n  title_to_header: true\ntitle: 7\n---\n", "---\nmyst:\n  title_to_header: true\ntitle: [a]\n---\n",
]


def make_files(d):
    open(os.path.join(d, "inc.md"), "w").write("# Included\n\n[^n]: x\n\n```{include} inc.md\n```\n")
    open(os.path.join(d, "self.md"), "w").write("x\n```{include} self.md\n```\n")
    open(os.path.join(d, "binary.dat"), "wb").write(bytes(range(256)))
    open(os.path.join(d, "a.txt"), "w").write("a")


def check_doc(col, text, ov, d):
    case = {"text": text, "overrides": ov}
    try:
        parse(text, dict(ov), source_path=os.path.join(d, "self.md"))
    except RecursionError:
        pass  # unbounded self-inclusion is reported by CPython's recursion limit; not an "uncaught" parser defect here
    except Exception as exc:  # noqa: BLE001
        tb = traceback.extract_tb(exc.__traceback__)
        where = next((f"{os.path.basename(f.filename)}:{f.lineno}:{f.name}" for f in reversed(tb) if "myst_parser" in f.filename), "?")
        col.fail("C01.uncaught", case, f"{type(exc).__name__}: {str(exc)[:150]} (innermost myst frame {where})", known=in_known(text, exc, ov))


def _transition_assertion(tb):
    """Region of the known finding C03-hr-in-container, identified by its call site: docutils' Transitions transform failing
    its own `assert isinstance(node.parent, (document, section))` - by that condition the document has a thematic break whose
    parent is neither the document nor a section (in a block quote, list item, directive body ...)."""
    return "docutils/transforms/misc.py" in tb and "in visit_transition" in tb and "assert (isinstance(node.parent, nodes.document)" in tb


def in_known(text, exc, ov):
    tb = "".join(traceback.format_exception(type(exc), exc, exc.__traceback__))
    if isinstance(exc, AssertionError) and _transition_assertion(tb):
        return "C03-hr-in-container"
    # a directive whose body is blank lines only: docutils' Figure.run indexes the (empty) result of parsing its content
    if isinstance(exc, IndexError) and "directives/images.py" in tb and "first_node = node[0]" in tb:
        return "C01-figure-blank-body"
    # docutils' own defect (the rst parser fails the same way): a target-notes directive with a :name: option
    if isinstance(exc, AssertionError) and 'Losing "ids" attribute' in tb and "target-notes" in text:
        return "C01-docutils-target-notes-name"
    # the same cause under the block-quote directives: docutils loses the directive's class on the empty block quote
    import re

    if isinstance(exc, AssertionError) and 'Losing "classes" attribute' in tb and re.search(r"\{(epigraph|highlights|pull-quote)\}[^\n]*\n(\s*\n)+\s*```", text):
        return "C01-blockquote-blank-body"
    return None


CFG_VALS = ["null", "0", "-1", "1", "7", "true", "''", "x", "[]", "{}", "[1]", "[x]", "{a: b}", "1.5", "[null]", "{1: 2}", "2001-01-01", "[[x]]", "{a: [1]}",
            "{a: null}", "99999999999999999999"]
CFG_BODY = "\n# T\n\ntext {{ k }} [l](x.md) <https://x.y> $a$ ~~s~~ [^1]\n\n[^1]: n\n\n## S\n\n- [ ] t\n\nTerm\n: def\n\n:f: v\n"
FRONT_KEYS = ["title", "author", "authors", "date", "abstract", "dedication", "html_meta", "substitutions", "myst", "tocdepth", "orphan", "kernelspec"]
ATTR_KEYS = ["class", "id", "w", "h", "a", "width", "height", "align", "title", "name", "start", "style", "lineno-start", "emphasize-lines", "attribution", "x"]
ATTR_VALS = ["abc", "10", "10px", '""', "-1", "50%", "left", "1,2", "é", "0", "1-", "#"]
ATTR_TARGETS = ["![a](b){%s}", "[s]{%s}", "`c`{%s}", "{%s}\n# H", "{%s}\npara", "{%s}\n- l", "{%s}\n1. l", "{%s}\n> q", "{%s}\n```python\nc\n```", "{%s}\n    code",
                "{%s}\n| a |\n|---|\n| b |", "<https://x.y>{%s}", "[l](x){%s}", "{%s}\n$$a$$", "{%s}\n:::{note}\nx\n:::", "{%s}\n---", "{%s}\nTerm\n: d", "{%s}\n:f: v"]
DIR_BODIES = ["", "x", "\nx", "\n\nx", "\n\n\nx", ":name: n\n\nx", ":class: c\nx", "---\nclass: c\n---\nx", "x\n\ny", "  x\n    y\n  z", "- a\n- b", "a | b\n--|--\nc | d",
              "* - a\n  - b", "# H", "[^1]\n\n[^1]: n", ":unknown: 1\n\nx", "\n\n", "  ", ":name:\n", "a.txt", "| a\n|  b"]
DIR_ARGS = ["", "x", "a.txt", "inc.md", "1", "x y z", "python", "https://x.y/i.png"]
LABEL_CH = ["1", "²", "٣", "a", "A", "-", "_", " ", "é", "10", "007", "#", "*", "1a", "①", "Ⅷ", "½", ""]
HTML_ATTRS = ["", " class", ' class=""', ' class="admonition"', " class=admonition", ' class="admonition note"', " src", ' src=""', ' src="a.png"', " alt", ' height="x"',
              " width", " name", ' align="up"', " title", ' class="admonition" name', " src=a.png alt"]
HTML_INNER = ["", "x", '<p class="title">T</p>x', "<p class>T</p>", '<div class="title"></div>', "<img src>", "\n\n# h\n\n"]


def grid_cases():
    """-> [(key, text, overrides)]: the one-factor grids (see `systematic`); also used by other properties' stand-ins."""
    import dataclasses
    import itertools

    from docutils.parsers.rst import directives as rst_directives

    from myst_parser.config.main import MdParserConfig

    allext = {"myst_enable_extensions": EXTS}
    cases = []
    for f in dataclasses.fields(MdParserConfig):
        if f.name == "gfm_only":
            continue  # (needs linkify-it-py, which is not installed here: a deliberate ModuleNotFoundError)
        for v in CFG_VALS:
            cases.append((("config", f.name, v), f"---\nmyst:\n  {f.name}: {v}\n---\n" + CFG_BODY, allext))
    for k in FRONT_KEYS:
        for v in CFG_VALS:
            cases.append((("front", k, v), f"---\n{k}: {v}\n---\n" + CFG_BODY, dict(allext, myst_title_to_header=True)))
    for t in ATTR_TARGETS:
        for k in ATTR_KEYS:
            for v in ATTR_VALS:
                cases.append((("attr", t, k, v), (t % f"{k}={v}") + "\n", allext))
        for a in ["#i", ".c", "#i .c k=v", "#", ".", "k", "=", "k=", "#i #i", "% c"]:
            cases.append((("attr", t, a), (t % a) + "\n", allext))
    for n in sorted(rst_directives._directive_registry):
        for arg in DIR_ARGS:
            for b in DIR_BODIES:
                cases.append((("directive", n, arg, b), f"```{{{n}}} {arg}\n{b}\n```\n", allext))
    for a, b in itertools.product(LABEL_CH, LABEL_CH):
        cases.append((("fn", a, b), f"x[^{a}] y[^{b}]\n\n[^{a}]: p\n[^{b}]: q\n", allext))
        cases.append((("tgt", a, b), f"({a})=\n# {b}\n\n[](#{a}) [](#{b})\n", dict(allext, myst_heading_anchors=2)))
    for tag in ["img", "div", "p", "span"]:
        for a1 in HTML_ATTRS:
            for inner in HTML_INNER:
                cases.append((("html", tag, a1, inner), f"<{tag}{a1}>{inner}</{tag}>\n", allext))
                cases.append((("htmli", tag, a1, inner), f"a <{tag}{a1}>{inner}</{tag}> b\n", allext))
    return cases


def systematic(col, tier, rng, d):
    """Families that vary ONE thing over a value grid (each found a defect that the vocabulary had missed): every configuration field
    and front-matter key x YAML values of every type; every attribute key x value on every construct that takes attributes; every
    registered docutils directive x argument x body shape (leading / trailing blank lines, option blocks, nested syntax); pairs of
    footnote / target labels over odd characters; HTML elements x attribute forms (valueless, empty, unquoted)."""
    quick = tier == "quick"
    cases = grid_cases()
    # the same grid through the Sphinx front end (all extensions are in its conf.py): a seeded sample
    sample = rng.sample(cases, 400 if quick else 1200)
    t1 = time.time()
    conf = f"myst_enable_extensions = {EXTS!r}\nmyst_heading_anchors = 2\nmyst_title_to_header = True\n"
    nb = sphinx_pass(col, [text for _k, text, _ov in sample], conf)
    col.add_bound("one-factor grids through the Sphinx front end", f"{len(sample)} documents sampled (seeded) from the grids below, one Sphinx project, "
                  f"{nb} build(s) (bisection when a build raises)", len(sample), time.time() - t1)
    # a seeded sample of the grid (the vocabulary holds one regression input per defect these families found; the whole grid -
    # 13 321 documents - was run once through each front end when the families were written, see DESIGN 15.7)
    cases = rng.sample(cases, 1500 if quick else 7000)
    for key, text, ov in cases:
        col.case(key)
        check_doc(col, text, ov, d)
    col.add_bound("one-factor grids through the docutils front end",
                  f"{len(cases)} documents (seeded sample of the grid): configuration fields and front-matter keys x "
                  f"{len(CFG_VALS)} YAML values; {len(ATTR_TARGETS)} attribute-taking constructs x {len(ATTR_KEYS)} keys x {len(ATTR_VALS)} values; every registered docutils "
                  f"directive x {len(DIR_ARGS)} arguments x {len(DIR_BODIES)} body shapes; {len(LABEL_CH)}^2 footnote / target label pairs; HTML elements x attribute forms",
                  len(cases), 0.0)
    return len(cases) + len(sample)


def sphinx_pass(col, docs, conf):
    """The same documents through the Sphinx front end: one project, one document per text; when the build raises, the
    culprits are found by bisection (a build that raises says nothing about the other documents)."""
    from harness.sphinx_util import build

    def attempt(chunk):
        files = {"index.md": "# Index\n\n```{toctree}\n:glob:\n\nd*\n```\n"}
        for i, text in chunk:
            files[f"d{i:05d}.md"] = text
        try:
            build(files, conf=conf, builder="dummy")
            return None
        except RecursionError:
            return None if len(chunk) > 1 else None
        except BaseException as exc:  # noqa: BLE001 (Sphinx also raises SystemExit-free errors of its own: all count)
            if isinstance(exc, (KeyboardInterrupt, MemoryError)):
                raise
            return exc

    # (projects of at most 400 documents: a build keeps every doctree in memory)
    allc = list(enumerate(docs))
    todo = [allc[i:i + 400] for i in range(0, len(allc), 400)]
    n_builds = 0
    while todo:
        chunk = todo.pop()
        exc = attempt(chunk)
        n_builds += 1
        if exc is None:
            continue
        if len(chunk) == 1:
            i, text = chunk[0]
            tb = traceback.extract_tb(exc.__traceback__)
            where = next((f"{os.path.basename(f.filename)}:{f.lineno}:{f.name}" for f in reversed(tb) if "myst_parser" in f.filename), "?")
            inner = exc.__cause__ or exc.__context__ or exc
            col.fail("C01.uncaught-sphinx", {"text": text, "overrides": {}, "sphinx_conf": conf}, f"{type(exc).__name__}: {str(exc)[:150]} (innermost myst frame {where})",
                     known=in_known(text, inner, {"myst_enable_extensions": EXTS}) or in_known(text, exc, {"myst_enable_extensions": EXTS}))
            continue
        mid = len(chunk) // 2
        todo.append(chunk[:mid])
        todo.append(chunk[mid:])
    return n_builds


def rand_config(rng):
    ov = {}
    ov["myst_enable_extensions"] = sorted(rng.sample(EXTS, rng.randint(0, len(EXTS))))
    if rng.random() < 0.3:
        ov["myst_commonmark_only"] = True
    if rng.random() < 0.3:
        ov["myst_heading_anchors"] = rng.randint(0, 6)
    if rng.random() < 0.3:
        ov["myst_substitutions"] = {"key": "val *x*", "key2": "{{ key }}"}
    if rng.random() < 0.2:
        ov["myst_fence_as_directive"] = ["python", "note"]
    if rng.random() < 0.2:
        ov["myst_footnote_sort"] = False
    if rng.random() < 0.2:
        ov["raw_enabled"] = False
    if rng.random() < 0.2:
        ov["file_insertion_enabled"] = False
    if rng.random() < 0.2:
        ov["myst_inventories"] = {"key": ["nofile.inv", None]}
    if rng.random() < 0.15:
        ov["myst_url_schemes"] = ["http", "https", "mailto"]
    if rng.random() < 0.3:
        # suppress lists of every shape a user may write (entries without a dot, with several dots, wildcards, empty)
        ov["myst_suppress_warnings"] = rng.choice([["myst.header"], ["a.b.c"], ["myst.*"], ["x"], ["myst.xref_missing.extra", "myst"], [""], ["."], ["a..b", "..."],
                                                    ["autosectionlabel.guide.intro", "myst.strikethrough"]])
    return ov


def run(tier, seed, extra):
    col = Collector("C01", extra.get("known", ()))
    rng = random.Random(seed)
    d = tempfile.mkdtemp(prefix="c01-")
    try:
        make_files(d)
        t0 = time.time()
        cnt = 0
        allext = {"myst_enable_extensions": EXTS, "myst_substitutions": {"key": "v", "key2": "{{ key2 }}"}}
        for sup in (["a.b.c"], ["myst.header.x", "."], ["", "x"], ["myst.*", "a.*.b"]):
            col.case(("suppress", tuple(sup)))
            check_doc(col, "# T\n\n### skipped level\n\n[](#nope) ~~s~~ {unknownrole}`x`\n", dict(allext, myst_suppress_warnings=sup), d)
            cnt += 1
        for b in BLOCKS:
            for ov in ({}, allext):
                col.case(("single", b, bool(ov)))
                check_doc(col, b + "\n", ov, d)
                cnt += 1
        for f in FRONT:
            col.case(("front", f))
            check_doc(col, f + "\n# T\n\n{{ key }}\n", allext, d)
            cnt += 1
        cnt += systematic(col, tier, rng, d)
        n = 250 if tier == "quick" else 6000
        for _ in range(n):
            parts = [rng.choice(BLOCKS) for _ in range(rng.randint(1, 6))]
            if rng.random() < 0.3:  # nest some blocks in containers
                i = rng.randrange(len(parts))
                parts[i] = rng.choice(["> ", "- ", "  "]) + parts[i].replace("\n", "\n  ")
            text = rng.choice(FRONT) + "\n\n".join(parts) + "\n"
            ov = rand_config(rng)
            col.case(("rand", text, str(sorted(ov))))
            check_doc(col, text, ov, d)
            cnt += 1
        soup = list("#*_`[]()<>!{}:-|\\\n \t$~^=+&;\"'") + ["```", ":::", "{note}", "---", "[^a]", "{{", "}}", "<div>", "$$"]
        for _ in range(300 if tier == "quick" else 8000):
            text = "".join(rng.choice(soup) for _ in range(rng.randint(1, 40)))
            col.case(("soup", text))
            check_doc(col, text, rand_config(rng), d)
            cnt += 1
        t1 = time.time()
        sdocs = [b + "\n" for b in BLOCKS] + [f + "\n# T\n\n{{ key }}\n" for f in FRONT]
        conf = f"myst_enable_extensions = {EXTS!r}\nmyst_substitutions = {{'key': 'v', 'key2': '{{{{ key2 }}}}'}}\nmyst_heading_anchors = 3\n"
        nb = sphinx_pass(col, sdocs, conf)
        col.add_bound("Sphinx front end: reading the same vocabulary never raises",
                      f"{len(sdocs)} documents (every vocabulary block and front-matter form, all extensions) in one Sphinx project, dummy builder; "
                      f"{nb} build(s) (bisection when a build raises)", len(sdocs), time.time() - t1)
        cnt += len(sdocs)
        col.add_bound("docutils front end: parse + standard transforms never raise",
                      f"{cnt} documents: every vocabulary block alone x {{no, all}} extensions; {len(FRONT)} front-matter forms; "
                      f"{n} random compositions x random valid configurations (extension subsets, commonmark mode, security settings, "
                      f"missing inventory); token soup; include faults (missing, directory, undecodable, self-including); seed {seed}", cnt, time.time() - t0)
    finally:
        import shutil

        shutil.rmtree(d, ignore_errors=True)
    return col.result()


def replay(col, case, check):
    if case.get("sphinx_conf") is not None:
        sphinx_pass(col, [case["text"]], case["sphinx_conf"])
        return
    d = tempfile.mkdtemp(prefix="c01-")
    try:
        make_files(d)
        check_doc(col, case["text"], case.get("overrides") or {}, d)
    finally:
        import shutil

        shutil.rmtree(d, ignore_errors=True)
