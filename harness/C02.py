"""C02 run-time side (bounded): doctree vs the markdown-it token tree - leaves once, in order, identical content,
containers one-to-one, attributes carried over; docutils vs Sphinx back end."""
from __future__ import annotations

import io
import random
import time

from harness.common import Collector
from harness.docgen import gen_doc
from harness.docutils_util import parse

ALLOW = ["para", "para", "para", "bullet", "ordered", "quote", "fence", "indented", "html", "table", "heading", "hr"]
CONT = {"paragraph_open": "paragraph", "bullet_list_open": "bullet_list", "ordered_list_open": "enumerated_list", "list_item_open": "list_item",
        "blockquote_open": "block_quote", "em_open": "emphasis", "strong_open": "strong", "link_open": "reference", "tr_open": "row",
        "th_open": "entry", "td_open": "entry", "heading_open": "title", "table_open": "table"}
CLOSE = {k.replace("_open", "_close") for k in CONT}


def tokens_of(text, commonmark):
    from markdown_it.renderer import RendererHTML

    from myst_parser.config.main import MdParserConfig
    from myst_parser.parsers.mdit import create_md_parser

    md = create_md_parser(MdParserConfig(commonmark_only=commonmark), RendererHTML)
    return md.parse(text)


def token_view(tokens):
    """-> (leaves [(kind, content, path)], container counts, attrs)"""
    leaves, counts, attrs = [], {}, []
    path = []

    def walk(toks):
        for t in toks:
            if t.type in CONT:
                path.append(CONT[t.type])
                counts[CONT[t.type]] = counts.get(CONT[t.type], 0) + 1
                if t.type == "link_open":
                    attrs.append(("link", t.attrGet("href")))
                if t.type == "ordered_list_open":
                    attrs.append(("olist", t.attrGet("start"), t.markup))
                if t.type in ("th_open", "td_open"):
                    st = t.attrGet("style") or ""
                    attrs.append(("cell", st.replace("text-align:", "") or None))
            elif t.type in CLOSE:
                path.pop()
            elif t.type == "inline":
                walk(t.children or [])
            elif t.type == "text":
                if t.content:
                    leaves.append(("text", t.content, tuple(path)))
            elif t.type == "softbreak":
                leaves.append(("text", "\n", tuple(path)))
            elif t.type == "hardbreak":
                leaves.append(("break", "", tuple(path)))
            elif t.type == "code_inline":
                leaves.append(("code", t.content, tuple(path)))
            elif t.type in ("fence", "code_block"):
                leaves.append(("codeblock", t.content, tuple(path)))
                if t.type == "fence":
                    attrs.append(("lang", (t.info or "").strip().split()[0] if (t.info or "").strip() else ""))
            elif t.type in ("html_inline", "html_block"):
                leaves.append(("html", t.content, tuple(path)))
            elif t.type == "image":
                alt = alt_text(t.children or [])  # markdown-it's own renderInlineAsText rule
                leaves.append(("image", (t.attrGet("src"), alt), tuple(path)))
            elif t.type == "hr":
                leaves.append(("hr", "", tuple(path)))

    walk(tokens)
    return merge(leaves), counts, attrs


def alt_text(children):
    out = ""
    for c in children:
        if c.type == "text":
            out += c.content
        elif c.type == "softbreak":
            out += "\n"
        else:
            out += alt_text(c.children or [])
    return out


def merge(leaves):
    out = []
    for k, c, p in leaves:
        if k == "text" and out and out[-1][0] == "text" and out[-1][2] == p:
            out[-1] = ("text", out[-1][1] + c, p)
        else:
            out.append((k, c, p))
    return out


KEEP = set(CONT.values())


def doc_view(doc):
    from docutils import nodes

    leaves, counts, attrs = [], {}, []

    def path_of(n):
        p = []
        a = n.parent
        while a is not None:
            if a.tagname in KEEP and not (a.tagname == "paragraph" and isinstance(a.parent, nodes.entry)):
                p.append(a.tagname)
            a = a.parent
        return tuple(reversed(p))

    for n in doc.findall():
        anc = list(_anc(n))
        if isinstance(n, nodes.system_message) or any(isinstance(a, nodes.system_message) for a in anc):
            continue
        if any(isinstance(a, nodes.literal_block) for a in anc):
            continue  # the whole block is one leaf (pygments may have split it into coloured pieces)
        if isinstance(n, nodes.literal_block):
            t = n.astext()
            leaves.append(("codeblock", t + ("\n" if not t.endswith("\n") else ""), path_of(n)))
            lang = n.get("language", None)
            if lang is None:
                lang = next((c for c in n.get("classes", []) if c not in ("code",)), "")
            attrs.append(("lang_block", lang))
        elif isinstance(n, nodes.Text):
            par = n.parent
            if isinstance(par, nodes.literal):
                leaves.append(("code", n.astext(), path_of(par)))
            elif isinstance(par, nodes.raw):
                if "latex" in par.get("format", ""):
                    continue
                if n.astext().strip() == "<br />":
                    leaves.append(("break", "", path_of(par)))
                else:
                    leaves.append(("html", n.astext(), path_of(par)))
            else:
                leaves.append(("text", n.astext(), path_of(n)))
        elif isinstance(n, nodes.image):
            leaves.append(("image", (n.get("uri"), n.get("alt", "")), path_of(n)))
        elif isinstance(n, nodes.transition):
            leaves.append(("hr", "", path_of(n)))
        elif isinstance(n, nodes.Element):
            if n.tagname in KEEP and not (n.tagname == "paragraph" and isinstance(n.parent, nodes.entry)):
                counts[n.tagname] = counts.get(n.tagname, 0) + 1
            if isinstance(n, nodes.reference) and n.get("refuri"):
                attrs.append(("link", n.get("refuri")))
            if isinstance(n, nodes.enumerated_list):
                attrs.append(("olist", n.get("start"), n.get("suffix")))
            if isinstance(n, nodes.entry):
                cl = [c.replace("text-", "") for c in n.get("classes", []) if c.startswith("text-")]
                attrs.append(("cell", cl[0] if cl else None))
    return merge(leaves), counts, attrs


def _anc(n):
    a = n.parent
    while a is not None:
        yield a
        a = a.parent


def norm_codeblock(leaves):
    return [(k, (c if k != "html" else c.rstrip("\n")), p) for k, c, p in leaves]


def compare(col, text, commonmark, doc, where, case):
    tl, tc, ta = token_view(tokens_of(text, commonmark))
    dl, dc, da = doc_view(doc)
    tl, dl = norm_codeblock(tl), norm_codeblock(dl)
    if [(k, c) for k, c, p in tl] != [(k, c) for k, c, p in dl]:
        i = next((i for i, (a, b) in enumerate(zip(tl, dl)) if a[:2] != b[:2]), min(len(tl), len(dl)))
        col.fail("C02.leaves", case, f"{where}: leaf #{i} differs: token tree {tl[i][:2] if i < len(tl) else None!r} vs doctree {dl[i][:2] if i < len(dl) else None!r} "
                                     f"({len(tl)} vs {len(dl)} leaves)", function="myst_parser.mdit_to_docutils.base:DocutilsRenderer.render_children")
        return
    for (k, c, p), (k2, c2, p2) in zip(tl, dl):
        if p != p2:
            col.fail("C02.nesting", case, f"{where}: leaf {k} {str(c)[:30]!r} sits under {p2} in the doctree, under {p} in the syntax tree")
            return
    for kind in sorted(set(tc) | set(dc)):
        if tc.get(kind, 0) != dc.get(kind, 0):
            col.fail("C02.containers", case, f"{where}: {dc.get(kind, 0)} <{kind}> nodes for {tc.get(kind, 0)} syntax containers")
            return
    tlinks, dlinks = [a[1] for a in ta if a[0] == "link"], [a[1] for a in da if a[0] == "link"]
    if tlinks != dlinks:
        col.fail("C02.link-destination", case, f"{where}: link destinations {dlinks!r}, source has {tlinks!r}")
    tol = [(int(a[1]) if a[1] is not None else None, a[2]) for a in ta if a[0] == "olist"]
    dol = [(a[1], a[2]) for a in da if a[0] == "olist"]
    if [(s if s is not None else 1, m) for s, m in tol] != [(s if s is not None else 1, m) for s, m in dol]:
        col.fail("C02.list-start", case, f"{where}: ordered lists (start, suffix) {dol!r}, source has {tol!r}",
                 function="myst_parser.mdit_to_docutils.base:DocutilsRenderer.render_ordered_list")
    tcell, dcell = [a[1] for a in ta if a[0] == "cell"], [a[1] for a in da if a[0] == "cell"]
    if tcell != dcell:
        col.fail("C02.table-align", case, f"{where}: cell alignments {dcell!r}, source has {tcell!r}")
    tlang, dlang = [a[1] for a in ta if a[0] == "lang"], [a[1] for a in da if a[0] == "lang_block"]
    if [x for x in tlang if x] != [x for x in dlang if x and x != "default" and x != "none"]:
        col.fail("C02.code-language", case, f"{where}: code languages {dlang!r}, source has {tlang!r}")


def check_doc(col, text, commonmark):
    case = {"text": text, "commonmark_only": commonmark}
    try:
        doc, lines = parse(text, {"myst_commonmark_only": commonmark, "doctitle_xform": False})
    except Exception as exc:  # noqa: BLE001
        col.fail("C02.parse", case, f"{type(exc).__name__}: {exc}")
        return
    compare(col, text, commonmark, doc, "docutils", case)


DESTS = ["other.md", "Other.md", "API/Reference.md", "./sub/File.MD#Sec", "../Up/x.md", "https://Example.COM/A?b=C", "mailto:Me@X.org",
         "path/with%20space.md", "#Local-Target", "docs/a_b-c.Md", "x.txt", "Caf\u00e9.md", "a/b/../C.md"]


def check_destinations(col, commonmark):
    """Link destinations are carried over unchanged: the doctree straight out of the renderer (before docutils resolves or
    reports references) against the href of the markdown-it link token, for destination spellings with upper case, dots,
    fragments, percent-encoding and non-ASCII characters."""
    from docutils import nodes
    from docutils.frontend import get_default_settings
    from docutils.utils import new_document

    from myst_parser.parsers.docutils_ import Parser

    for i, dest in enumerate(DESTS):
        text = f"para [text {i}]({dest}) end\n"
        case = {"text": text, "commonmark_only": commonmark, "pre_transform": True}
        col.case(("dest", dest, commonmark))
        try:
            settings = get_default_settings(Parser)
            settings.myst_commonmark_only = commonmark
            settings.warning_stream = io.StringIO()
            doc = new_document("<src>/index.md", settings)
            Parser().parse(text, doc)
        except Exception as exc:  # noqa: BLE001
            col.fail("C02.parse", case, f"{type(exc).__name__}: {exc}")
            continue
        hrefs = [t.attrGet("href") for tok in tokens_of(text, commonmark) for t in ([tok] + (tok.children or [])) if t.type == "link_open"]
        from markdown_it import MarkdownIt

        want = [MarkdownIt().normalizeLinkText(h) for h in hrefs]
        got = []
        for n in doc.findall(nodes.reference):
            got.append(n.get("refuri") if n.get("refuri") is not None else n.get("refname", n.get("reftarget")))
        norm = [MarkdownIt().normalizeLinkText(g) if isinstance(g, str) else g for g in got]
        if norm != want:
            col.fail("C02.link-destination", case, f"docutils (before transforms): link destinations {got!r}, source has {hrefs!r}")


def check_sphinx(col, texts):
    from harness.sphinx_util import build

    files = {"index.md": "# Index\n\n```{toctree}\n:glob:\n*\n```\n"}
    for i, t in enumerate(texts):
        files[f"d{i}.md"] = "# T\n\n" + t
    res = build(files, extract=doc_view, conf="suppress_warnings=['image.not_readable', 'myst.header', 'toc.not_included']\n")
    for i, t in enumerate(texts):
        case = {"text": "# T\n\n" + t, "sphinx": True}
        d, _l = parse("# T\n\n" + t, {"doctitle_xform": False})
        want = doc_view(d)
        got = res["extracted"].get(f"d{i}")
        col.case(("sphinx", t))
        if got is None:
            col.fail("C02.backends", case, "no doctree from the Sphinx back end")
            continue
        gl = [(k, c if k != "image" else (str(c[0]).split("/")[-1], c[1])) for k, c, p in got[0]]
        wl = [(k, c if k != "image" else (str(c[0]).split("/")[-1], c[1])) for k, c, p in want[0]]
        if gl != wl or got[1] != want[1]:
            col.fail("C02.backends", case, f"Sphinx and docutils back ends disagree: leaves {len(gl)} vs {len(wl)}, containers {got[1]} vs {want[1]}")


def run(tier, seed, extra):
    col = Collector("C02", extra.get("known", ()))
    rng = random.Random(seed)
    t0 = time.time()
    cnt = 0
    fixed = ["0. zero\n1. one\n", "3) three\n4) four\n", "1. a\n\n   2. b\n", "| a | b |\n|:--|--:|\n| 1 | 2 |\n", "a  \nb\\\nc\n", "`` ` `` and ` x `\n",
             "[t](<https://a.b/c?d=e&f> \"ti\") ![a *b* `c`](i.png \"t\")\n", "```\n\n  keep  \n\n```\n", "    indented\n\n\n    after\n", "* * *\n", "<p>&amp;</p>\n\ntext &amp; &#35;\n"]
    texts = []
    for t in fixed:
        for cm in (False, True):
            col.case((t, cm))
            check_doc(col, t, cm)
            cnt += 1
    import itertools

    for cm in (False, True):
        check_destinations(col, cm)
        cnt += len(DESTS)
    for levels in itertools.product((1, 2, 3, 4), repeat=5 if tier == "quick" else 6):
        t = "".join("#" * lv + f" H{i}\n\npara {i}\n\n" for i, lv in enumerate(levels))
        col.case(("levels", levels))
        check_doc(col, t, False)
        cnt += 1
    for _ in range(200 if tier == "quick" else 5000):
        d = gen_doc(rng, allow=ALLOW)
        cm = rng.random() < 0.4
        col.case((d.text, cm))
        check_doc(col, d.text, cm)
        texts.append(d.text)
        cnt += 1
    col.add_bound("doctree vs markdown-it token tree (leaves, order, content, nesting path, container counts, link/list/table/code attributes)",
                  f"{cnt} documents in MyST and strict CommonMark mode (seed {seed})", cnt, time.time() - t0)
    t0 = time.time()
    sub = fixed + texts[: (12 if tier == "quick" else 150)]
    check_sphinx(col, sub)
    col.add_bound("docutils vs Sphinx back end on non-Sphinx-specific syntax", f"{len(sub)} documents in one Sphinx project", len(sub), time.time() - t0)
    return col.result()


def replay(col, case, check):
    if case.get("pre_transform"):
        return check_destinations(col, case.get("commonmark_only", False))
    if case.get("sphinx"):
        return check_sphinx(col, [case["text"][len("# T\n\n"):]])
    check_doc(col, case["text"], case.get("commonmark_only", False))
