"""C03 run-time side (bounded): every produced document is a well-formed docutils tree."""
from __future__ import annotations

import random
import time

from harness.common import Collector
from harness.docgen import gen_doc
from harness.docutils_util import parse
from harness.wellformed import check_tree

EXTRA = [
    "text[^1] more[^n] again[^1]\n\n[^1]: first\n[^n]: named *note*\n", "[^u]: unreferenced\n", "[^d]: one\n\n[^d]: two\n\nref[^d]\n",
    "(tgt)=\n# Heading T\n\n[](#tgt) [t](#tgt) [](#heading-t) [](#nope)\n", "[](#tgt2) [](#tgt2)\n\n(tgt2)=\nPara target\n",
    "| a | b |\n|---|---|\n| 1 | 2 |\n| 3 |\n| 4 | 5 | 6 |\n", "> ---\n", "- ---\n", "---\n", "# A\n\n## B\n\n# A\n\n## B\n", "# a\n\n(a)=\n## other\n\n[](#a)\n",
    "```{figure} x.png\n:name: fig\n\ncaption\n```\n\n[](#fig)\n", "text [ref]\n\n[ref]: https://x.y\n", "Term\n: def\n\n:field: val\n", "{ref}`x` {doc}`y`\n",
    "```{note}\n# nested heading\n\n[^1]\n```\n\n[^1]: fn\n", "[^a]\n\n```{note}\n[^a]: inside directive\n```\n", "1. a\n\n   | x |\n   |---|\n   | y |\n", "<div>\n\n---\n\n</div>\n",
    # one id used twice (attribute blocks): docutils reports into the node that is being registered
    "{#x}\n# A\n\n{#x}\n# B\n\n[](#x)\n", "{#x}\n# A\n\n(x)=\npara\n", "(x)=\n# A\n\n{#x}\n## B\n", "{#a}\n# A\n\n## a\n", "{#x}\npara\n\n{#x}\n# H\n",
    # repeated heading texts and links to each of their slugs; nested line blocks; headings inside directive bodies
    "# Notes\n\n# Notes\n\n## Notes\n\n[a](#notes) [b](#notes-1) [c](#notes-2) [](#notes-1)\n", "```{line-block}\na\n  b\nc\n  d\n    e\nf\n```\n", "```{line-block}\n  a\nb\n  c\n```\n",
    "```{topic} T\n# in topic\n\ntext\n```\n\n# after\n\n[](#in-topic)\n", "# !!!\n\n# ???\n\n[](#) [x](#-1)\n",
    "# T\n\n[](#t) [](#t)\n", "```{contents}\n```\n\n# H1\n\n## H2\n", "a[^x][^y]\n\n[^y]: Y\n[^x]: X\n", "[^1]: a\n\n# Heading after footnote\n\ntext[^1]\n",
]
COLS = "| " + " | ".join(f"c{i}" for i in range(101)) + " |\n|" + "---|" * 101 + "\n| " + " | ".join("v" for i in range(101)) + " |\n"


def check_doc(col, text, ov, tag, crash_is_c01=False):
    case = {"text": text if len(text) < 3000 else text[:200] + "...(101 columns)", "overrides": ov, "wide": len(text) >= 3000}
    try:
        doc, lines = parse(text, dict(ov, doctitle_xform=False))
    except AssertionError as exc:
        import traceback

        tb = "".join(traceback.format_exception(type(exc), exc, exc.__traceback__))
        from harness.C01 import _transition_assertion

        if not _transition_assertion(tb):
            # some other assertion of docutils (e.g. its own target-notes defect): no document was produced - C01's question
            if not crash_is_c01:
                col.fail("C03.parse", case, f"{type(exc).__name__}: {exc}")
            return
        known = "C03-hr-in-container"
        col.fail("C03.transition-parent", case, "docutils' Transitions transform asserts: a transition is not directly under the document or a section", known=known,
                 function="myst_parser.mdit_to_docutils.base:DocutilsRenderer.render_hr")
        return
    except RecursionError:
        return
    except Exception as exc:  # noqa: BLE001
        if not crash_is_c01:
            col.fail("C03.parse", case, f"{type(exc).__name__}: {exc}")
        return
    for rule, msg in check_tree(doc, lines):
        known = None
        if rule == "transition-parent":
            known = "C03-hr-in-container"
        col.fail(f"C03.{rule}", case, msg, known=known)


def run(tier, seed, extra):
    col = Collector("C03", extra.get("known", ()))
    rng = random.Random(seed)
    t0 = time.time()
    cnt = 0
    ovs = [{}, {"myst_heading_anchors": 3, "myst_enable_extensions": ["colon_fence", "deflist", "fieldlist", "attrs_block", "attrs_inline"]}, {"myst_footnote_sort": False}, {"myst_footnote_transition": False}]
    for t in EXTRA + [COLS]:
        for ov in ovs:
            col.case((t[:100], str(ov)))
            check_doc(col, t, ov, "extra")
            cnt += 1
    for _ in range(200 if tier == "quick" else 5000):
        d = gen_doc(rng)
        text = d.text
        if rng.random() < 0.5:
            text += "\n" + rng.choice(EXTRA)
        if rng.random() < 0.3:
            text = rng.choice(EXTRA) + "\n" + text
        col.case(text)
        check_doc(col, text, {"myst_enable_extensions": ["colon_fence", "deflist", "fieldlist", "attrs_block"], "myst_heading_anchors": rng.randint(0, 3)}, "gen")
        cnt += 1
    # the one-factor grids of C01's stand-in (every directive x body shape, attribute keys x values, odd labels, HTML forms):
    # whenever a document IS produced it must be well formed (whether one is produced is C01's question)
    from harness.C01 import grid_cases

    grid = grid_cases()
    sample = rng.sample(grid, 400 if tier == "quick" else 8000)
    t1 = time.time()
    for key, text, ov in sample:
        col.case(("grid",) + tuple(key))
        check_doc(col, text, ov, "grid", crash_is_c01=True)
    col.add_bound("well-formedness over the one-factor grids", f"{len(sample)} documents sampled (seeded) from {len(grid)}: directives x arguments x body shapes, "
                  "attribute keys x values, label pairs, HTML attribute forms, configuration values", len(sample), time.time() - t1)
    cnt += len(sample)
    col.add_bound("well-formedness of the doctree after the standard transforms",
                  f"{cnt} documents: footnote / target / reference / table / transition / nested-heading vocabulary x 4 configurations, a 101-column table, generated nested documents (seed {seed})", cnt, time.time() - t0)
    return col.result()


def replay(col, case, check):
    text = COLS if case.get("wide") else case["text"]
    check_doc(col, text, case.get("overrides") or {}, "replay")
