"""C04 run-time side (bounded): nodes and warnings carry the true 1-based source line at any nesting depth."""
from __future__ import annotations

import os
import random
import re
import tempfile
import time

from harness.common import Collector
from harness.docgen import gen_doc
from harness.docutils_util import parse

OV = {"myst_enable_extensions": ["colon_fence"], "doctitle_xform": False}


def node_for(doc, marker, kinds):
    from docutils import nodes

    best = None
    for n in doc.findall(lambda x: isinstance(x, nodes.Element)):
        if n.tagname in kinds and marker in n.astext():
            best = n  # the deepest (last in pre-order among ancestors) node of that kind containing the marker
    return best


KIND_TAG = {"item-para": ("paragraph",), "para": ("paragraph",), "heading": ("title",), "fence": ("literal_block",), "indented": ("literal_block",), "html": ("raw",),
            "item": ("list_item",), "table": ("table",)}


def in_known(d, block):
    # a directive whose content ends in blank lines before the closing fence is never generated; body offset defect (C08)
    return None


def check_doc(col, d, extra_case=None):
    text = d.text
    case = dict(extra_case or {}, text=text)
    try:
        doc, lines = parse(text, OV)
    except Exception as exc:  # noqa: BLE001
        col.fail("C04.parse", case, f"{type(exc).__name__}: {exc}")
        return
    blocks = list(d.blocks) + [dict(b, kind="item-para") for b in d.blocks if b["kind"] == "item"]
    for b in blocks:
        tags = KIND_TAG.get(b["kind"])
        if not tags:
            continue
        n = node_for(doc, b["marker"], tags)
        if n is None:
            continue
        line = n.line if n.line is not None else (n.parent.line if n.tagname == "title" else None)
        if n.tagname == "title":
            line = n.parent.line if n.parent.line is not None else n.line
        if line != b["line"]:
            known = None
            lines_ = text.split("\n")
            # a colon directive whose body STARTS with a nested colon fence: render_colon_fence prepends a newline to the
            # content (to tell the fence from an ':option:' line), which shifts every nested line by one
            for i, ln in enumerate(lines_[:-1]):
                if re.match(r"^[> ]*(:{3,}|`{3,})\{", ln) and re.match(r"^[> ]*:{3,}", lines_[i + 1]) and i + 1 < b["line"]:
                    known = "C04-colon-fence-leading-nested"
            col.fail("C04.node-line", dict(case, marker=b["marker"]), known=known, msg=f"{n.tagname} containing {b['marker']} has line {line}, the construct starts on line {b['line']} (nesting {b['path']})",
                     function="myst_parser.mdit_to_docutils.base:DocutilsRenderer.nested_render_text")


def leading_colon_known(text, line):
    lines_ = text.split("\n")
    for i, ln in enumerate(lines_[:-1]):
        if re.match(r"^[> ]*(:{3,}|`{3,})\{", ln) and re.match(r"^[> ]*:{3,}", lines_[i + 1]) and i + 1 < line:
            return "C04-colon-fence-leading-nested"
    return None


def check_warning_lines(col, rng):
    """An unknown role inside a paragraph at a known line: the warning must carry that line."""
    d = gen_doc(rng, allow=["para", "quote", "bullet", "directive", "colon"])
    # plant a warning-producing role into every plain paragraph line that carries a marker
    want = {}
    for b in d.blocks:
        if b["kind"] == "para":
            i = b["line"] - 1
            d.lines[i] = d.lines[i] + " {nosuchrole}`" + b["marker"] + "`"
            want[b["marker"]] = b["line"]
    case = {"text": d.text, "warnings": True}
    try:
        doc, lines = parse(d.text, OV)
    except Exception as exc:  # noqa: BLE001
        col.fail("C04.parse", case, f"{type(exc).__name__}: {exc}")
        return
    from docutils import nodes

    for sm in doc.findall(nodes.system_message):
        if "myst.role_unknown" not in sm.astext():
            continue
        par = sm.parent
        while par is not None and par.tagname != "paragraph":
            par = par.parent
        if par is None:
            continue
        m = re.search(r"M\d+x", par.astext())
        if m and m.group(0) in want and sm.get("line") != want[m.group(0)]:
            col.fail("C04.warning-line", dict(case, marker=m.group(0)), f"warning for the role on line {want[m.group(0)]} carries line {sm.get('line')}",
                     known=leading_colon_known(d.text, want[m.group(0)]),
                     function="myst_parser.mdit_to_docutils.base:DocutilsRenderer.nested_render_text")
    for ln in lines:
        mm = re.match(r".*?:(\d+): \(WARNING/2\) Unknown interpreted text role", ln)
        if mm and int(mm.group(1)) not in want.values():
            col.fail("C04.warning-line", case, f"logged warning line {mm.group(1)} is not the line of any construct with the role: {sorted(want.values())}",
                     known=leading_colon_known(d.text, int(mm.group(1))))


def check_include(col, rng):
    from docutils import nodes

    d = tempfile.mkdtemp(prefix="c04-")
    try:
        inc = gen_doc(rng, allow=["para", "bullet", "fence", "quote"])
        # the part of the file that is included: all of it, from a start line, or after a marker text (the lines of the
        # included nodes stay relative to the FILE)
        mode = rng.choice(["all", "all", "start-line", "start-after"])
        lead = ["lead para one", "", "lead para two", "", "MARKC04", ""] if mode != "all" else []
        shift = len(lead)
        inc_text = ("\n".join(lead) + "\n" if lead else "") + inc.text
        inc_opts = {"all": "", "start-line": ":start-line: 4\n", "start-after": ":start-after: MARKC04\n"}[mode]
        open(os.path.join(d, "inc.md"), "w").write(inc_text)
        pre = rng.randint(0, 3)
        # (with and without a heading / other directive in front of the include: the include may be the first directive of
        #  the document; a warning raised by the HOST file after the include must name the host file and its own line)
        head = rng.choice(["# Main\n\n", "", "```{note}\nn\n```\n\n"])
        main = head + "filler\n\n" * pre + "```{include} inc.md\n" + inc_opts + "```\n\nafter marker\n\nhost {nosuchrole_c04}`x` warns\n"
        src = os.path.join(d, "index.md")
        doc, lines = parse(main, OV, source_path=src)
        case = {"include": inc_text, "main": main}
        host_line = main.count("\n", 0, main.index("host {nosuchrole_c04}")) + 1
        for ln in lines:
            if "nosuchrole_c04" in ln:
                mm = re.match(r"(.*?):(\d+): \(", ln)
                if mm and (not mm.group(1).endswith("index.md") or int(mm.group(2)) != host_line):
                    col.fail("C04.after-include-warning", case, f"warning of the host file after the include is reported at {mm.group(1)}:{mm.group(2)}; expected index.md:{host_line}")
        for b in inc.blocks:
            tags = KIND_TAG.get(b["kind"])
            if not tags:
                continue
            n = node_for(doc, b["marker"], tags)
            if n is None:
                continue
            true_line = b["line"] + shift
            if n.line != true_line:
                # the recorded finding is exactly "one line late"; any other difference is a different violation
                col.fail("C04.include-line", dict(case, marker=b["marker"]), f"included {n.tagname} has line {n.line}, it starts on line {true_line} of the included file",
                         known="C04-include-line-plus-one" if n.line == true_line + 1 else None, function="myst_parser.mocking:MockIncludeDirective.run")
            if n.source is None or not str(n.source).endswith("inc.md"):
                col.fail("C04.include-source", dict(case, marker=b["marker"]), f"included node source is {n.source!r}, expected the included file")
        aft = node_for(doc, "after marker", ("paragraph",))
        want = main.count("\n", 0, main.index("after marker")) + 1
        if aft is not None and (aft.line != want or not str(aft.source).endswith("index.md")):
            col.fail("C04.after-include", case, f"paragraph after the include has line {aft.line} source {aft.source}; expected line {want} of index.md")
    finally:
        import shutil

        shutil.rmtree(d, ignore_errors=True)


def check_substitution(col):
    text = "---\nmyst:\n  substitutions:\n    k: \"{nosuchrole}`x`\"\n---\n\npara\n\n\n\n\n\nline twelve {{ k }}\n"
    doc, lines = parse(text, dict(OV, myst_enable_extensions=["substitution"]))
    got = [int(m.group(1)) for ln in lines for m in [re.match(r".*?:(\d+): \(WARNING", ln)] if m]
    if got and got != [13]:
        col.fail("C04.warning-line", {"text": text, "substitution": True}, f"warning for the role substituted on line 13 carries line {got}",
                 known="C04-nested-text-on-own-line", function="myst_parser.mdit_to_docutils.base:DocutilsRenderer.render_substitution")


def run(tier, seed, extra):
    col = Collector("C04", extra.get("known", ()))
    rng = random.Random(seed)
    t0 = time.time()
    cnt = 0
    for _ in range(250 if tier == "quick" else 6000):
        d = gen_doc(rng)
        col.case(d.text)
        check_doc(col, d)
        cnt += 1
    col.add_bound("block nodes carry the first source line of their construct", f"{cnt} generated documents (nesting in quotes / lists / backtick+colon directives with both option styles; seed {seed})", cnt, time.time() - t0)
    t0 = time.time()
    n2 = 0
    for _ in range(80 if tier == "quick" else 2000):
        check_warning_lines(col, rng)
        n2 += 1
        col.case(("warn", n2))
    for _ in range(25 if tier == "quick" else 400):
        check_include(col, rng)
        n2 += 1
        col.case(("inc", n2))
    check_substitution(col)
    col.add_bound("warning lines at depth; included files (line relative to the file, source path = file); substitution", f"{n2} generated documents", n2, time.time() - t0)
    return col.result()


def replay(col, case, check):
    from harness.docgen import Doc

    if case.get("substitution"):
        return check_substitution(col)
    if "include" in case:
        return check_include(col, random.Random(0))
    # re-parse the recorded text and re-check every marker by searching its line in the text
    text = case["text"]
    d = Doc()
    d.lines = text.rstrip("\n").split("\n")
    for i, ln in enumerate(d.lines):
        m = re.search(r"(M\d+x)", ln)
        if m and re.match(r"^[> ]*(\d+[.)] |[-*+] )*", ln) and "{note}" not in ln:
            kind = "heading" if re.match(r"^[> ]*#", ln) else "para"
            if not any(b["marker"] == m.group(1) for b in d.blocks):
                d.blocks.append({"kind": kind, "marker": m.group(1), "line": i + 1, "depth": 0, "path": ()})
    check_doc(col, d)
