"""C05 run-time side: section nesting vs a reference model of 'closest preceding still-open heading of lower level'."""
from __future__ import annotations

import itertools
import random
import time

from harness.common import Collector
from harness.docutils_util import parse


def model(levels):
    """-> (parent index per heading (-1 = document), number of non-consecutive warnings)."""
    open_ = {0: -1}
    parents, warns = [], 0
    for i, lv in enumerate(levels):
        pl = max(k for k in open_ if k < lv)
        parents.append(open_[pl])
        if pl + 1 != lv:
            warns += 1
        open_ = {k: v for k, v in open_.items() if k < lv}
        open_[lv] = i
    return parents, warns


def observed(doc):
    from docutils import nodes

    secs = list(doc.findall(nodes.section))
    idx = {id(s): i for i, s in enumerate(secs)}
    # sections in document order = heading order (findall is pre-order; a section is created per heading)
    order = sorted(range(len(secs)), key=lambda i: int(secs[i][0].astext()[1:]))
    pos = {id(secs[i]): n for n, i in enumerate(order)}
    parents = [None] * len(secs)
    for s in secs:
        p = s.parent
        parents[pos[id(s)]] = pos[id(p)] if isinstance(p, nodes.section) else (-1 if isinstance(p, nodes.document) else "other:" + p.tagname)
    return parents


_fn_counter = itertools.count(1)
CONTAINERS = {
    "quote": lambda h: "> " + h + "\n>\n> text\n",
    "list": lambda h: "- " + h + "\n\n  text\n",
    "directive": lambda h: "```{note}\n" + h + "\n\nbody\n```\n",
    "colon": lambda h: ":::{tip}\n" + h + "\n:::\n",
    # directives whose own node is a structural / body element of another kind: still no section inside
    "topic": lambda h: "```{topic} T\n" + h + "\n\nbody\n```\n",
    "sidebar": lambda h: "```{sidebar} T\n" + h + "\n\nbody\n```\n",
    "admonition": lambda h: "```{admonition} T\n" + h + "\n\nbody\n```\n",
    "container": lambda h: "```{container} c\n" + h + "\n\nbody\n```\n",
    "epigraph": lambda h: "```{epigraph}\n" + h + "\n\nbody\n```\n",
    "compound": lambda h: "```{compound}\n" + h + "\n\nbody\n```\n",
    "table-cell": lambda h: "```{list-table}\n* - x\n  - " + h + "\n```\n",
    "footnote": lambda h: (lambda n: f"fn[^f{n}]\n\n[^f{n}]: note\n\n    " + h + "\n")(next(_fn_counter)),   # (a label of its own per use)
    "deflist-like": lambda h: "1. item\n\n   " + h + "\n",
}


def check_levels(col, levels, extra_blocks=None):
    from docutils import nodes

    text = ""
    for i, lv in enumerate(levels):
        text += "#" * lv + f" h{i}\n\npara {i}\n\n"
        if extra_blocks and i in extra_blocks:
            text += extra_blocks[i] + "\n"
    case = {"levels": list(levels), "blocks": {str(k): v for k, v in (extra_blocks or {}).items()}}
    doc, lines = parse(text, {"doctitle_xform": False, "myst_enable_extensions": ["colon_fence"]})
    want_par, want_warn = model(levels)
    import re as _re

    stray = [s_[0].astext() for s_ in doc.findall(nodes.section) if not (len(s_) and _re.fullmatch(r"h\d+", s_[0].astext()))]
    if stray:
        col.fail("C05.nested-heading", case, f"a heading that is not at document level opened a section: {stray!r}",
                 function="myst_parser.mdit_to_docutils.base:DocutilsRenderer.render_heading")
        return
    got = observed(doc)
    if got != want_par:
        col.fail("C05.nesting", case, f"section parents {got!r}, reference model {want_par!r}",
                 function="myst_parser.mdit_to_docutils.base:DocutilsRenderer.update_section_level_state")
    nwarn = sum(1 for ln in lines if "[myst.header]" in ln)
    if nwarn != want_warn:
        col.fail("C05.warnings", case, f"{nwarn} [myst.header] warnings, expected {want_warn}: {lines!r}",
                 function="myst_parser.mdit_to_docutils.base:DocutilsRenderer.update_section_level_state")
    # order of headings = source order
    titles = [s[0].astext() for s in doc.findall(nodes.section)]
    if titles != [f"h{i}" for i in range(len(levels))]:
        col.fail("C05.order", case, f"section titles in document order {titles!r}")
    if extra_blocks:
        rubs = list(doc.findall(nodes.rubric))
        nsec = len(list(doc.findall(nodes.section)))
        if nsec != len(levels):
            col.fail("C05.nested-heading", case, f"{nsec} sections for {len(levels)} document-level headings (a nested heading opened a section)")
        if len(rubs) != len(extra_blocks):
            col.fail("C05.nested-heading", case, f"{len(rubs)} rubrics for {len(extra_blocks)} nested headings")
        for r in rubs:
            if "level" not in r.attributes:
                col.fail("C05.nested-heading", case, f"rubric without level: {r.pformat()}")


_registered = []


def register_wrap():
    """A directive doing state.nested_parse(..., match_titles=True), exactly what Sphinx's `only` does."""
    if _registered:
        return
    from docutils import nodes
    from docutils.parsers.rst import Directive, directives

    class Wrap(Directive):
        has_content = True

        def run(self):
            node = nodes.container()
            self.state.nested_parse(self.content, self.content_offset, node, match_titles=True)
            return [node]

    directives.register_directive("wrap", Wrap)
    _registered.append(1)


def check_match_titles(col, levels, at, inner_level):
    """Outer headings must nest identically whether or not a match_titles directive body holds a heading."""
    from docutils import nodes

    register_wrap()

    def doc_for(body):
        text = ""
        for i, lv in enumerate(levels):
            text += "#" * lv + f" h{i}\n\npara\n\n"
            if i == at:
                text += "```{wrap}\n" + body + "\n```\n\n"
        return parse(text, {"doctitle_xform": False})[0]

    def outer(doc):
        out = {}
        for sec in doc.findall(nodes.section):
            name = sec[0].astext()
            if name.startswith("h"):
                par = sec.parent
                out[name] = "doc" if isinstance(par, nodes.document) else (par[0].astext() if isinstance(par, nodes.section) else par.tagname)
        return out

    base = outer(doc_for("just text"))
    d2 = doc_for("#" * inner_level + " inner\n\ntext")
    got = outer(d2)
    case = {"levels": list(levels), "match_titles_at": at, "inner_level": inner_level}
    if any(sec[0].astext() == "inner" for sec in d2.findall(nodes.section)):
        col.fail("C05.nested-heading", case, "a heading inside a directive body (nested_parse with match_titles=True) opened a real section",
                 known="C05-match-titles", function="myst_parser.mdit_to_docutils.base:DocutilsRenderer.render_heading")
    if got != base:
        col.fail("C05.nested-structure-unaffected", case,
                 f"outer section parents with a heading in the directive body {got!r}, without {base!r}",
                 function="myst_parser.mdit_to_docutils.base:DocutilsRenderer.nested_render_text")


def check_include_offset(col, levels, k, d):
    """An included file's headings, shifted by :heading-offset: k, nest like the shifted levels of the reference model (no clamping:
    a deeper level stays deeper)."""
    import os

    from docutils import nodes

    inc = ""
    for i, lv in enumerate(levels):
        inc += "#" * lv + f" h{i}\n\npara {i}\n\n"
    open(os.path.join(d, "inc.md"), "w").write(inc)
    text = "```{include} inc.md\n:heading-offset: %d\n```\n" % k
    case = {"include_levels": list(levels), "heading_offset": k}
    doc, lines = parse(text, {"doctitle_xform": False}, source_path=os.path.join(d, "index.md"))
    want_par, want_warn = model([lv + k for lv in levels])
    got = observed(doc)
    if got != want_par:
        col.fail("C05.include-offset-nesting", case, f"section parents {got!r}, reference model for the shifted levels {want_par!r}",
                 function="myst_parser.mdit_to_docutils.base:DocutilsRenderer.render_heading")
    nwarn = sum(1 for ln in lines if "[myst.header]" in ln)
    if nwarn != want_warn:
        col.fail("C05.include-offset-warnings", case, f"{nwarn} [myst.header] warnings, expected {want_warn}: {lines!r}",
                 function="myst_parser.mdit_to_docutils.base:DocutilsRenderer.render_heading")


def run(tier, seed, extra):
    col = Collector("C05", extra.get("known", ()))
    rng = random.Random(seed)
    t0 = time.time()
    cnt = 0
    n = 3 if tier == "quick" else 5
    for k in range(1, n + 1):
        for levels in itertools.product(range(1, 7), repeat=k):
            col.case(levels)
            check_levels(col, levels)
            cnt += 1
    col.add_bound("section nesting vs reference model", f"all level sequences of length <= {n} over 1..6", cnt, time.time() - t0)
    t0 = time.time()
    cnt = 0
    for _ in range(150 if tier == "quick" else 3000):
        levels = [rng.randint(1, 6) for _ in range(rng.randint(1, 9))]
        blocks = {}
        for i in range(len(levels)):
            if rng.random() < 0.3:
                kind = rng.choice(sorted(CONTAINERS))
                blocks[i] = CONTAINERS[kind]("#" * rng.randint(1, 6) + " nested")
        col.case((tuple(levels), tuple(sorted(blocks))))
        check_levels(col, levels, blocks)
        cnt += 1
    col.add_bound("random level sequences interleaved with headings nested in block quotes / list items / directive bodies",
                  f"{cnt} documents (seed {seed})", cnt, time.time() - t0)
    t0 = time.time()
    cnt = 0
    for kind in sorted(CONTAINERS):
        for lv in range(1, 7):
            col.case(("container", kind, lv))
            check_levels(col, [1, 2], {0: CONTAINERS[kind]("#" * lv + " nested")})
            cnt += 1
    col.add_bound("a heading inside every kind of container is a rubric, not a section", f"{len(CONTAINERS)} containers x levels 1..6", cnt, time.time() - t0)
    import shutil
    import tempfile

    t0 = time.time()
    cnt = 0
    d = tempfile.mkdtemp(prefix="c05-")
    try:
        for k in range(0, 6):
            for levels in itertools.product(range(1, 7), repeat=2):
                col.case(("include-offset", k, levels))
                check_include_offset(col, levels, k, d)
                cnt += 1
        for _ in range(40 if tier == "quick" else 1500):
            levels = [rng.randint(1, 6) for _ in range(rng.randint(1, 6))]
            k = rng.randint(0, 6)
            col.case(("include-offset", k, tuple(levels)))
            check_include_offset(col, levels, k, d)
            cnt += 1
    finally:
        shutil.rmtree(d, ignore_errors=True)
    col.add_bound("{include} :heading-offset: k nests the file's headings like the shifted levels", "all level pairs over 1..6 x offsets 0..5, plus random sequences", cnt, time.time() - t0)
    t0 = time.time()
    cnt = 0
    for levels in itertools.product(range(1, 4), repeat=3):
        for at in range(3):
            for inner in (1, 2, 3, 4):
                col.case(("mt", levels, at, inner))
                check_match_titles(col, levels, at, inner)
                cnt += 1
    col.add_bound("heading inside a match_titles=True directive body leaves the outer structure unaffected",
                  "all level triples over 1..3 x directive position x inner level 1..4", cnt, time.time() - t0)
    return col.result()


def replay(col, case, check):
    if "include_levels" in case:
        import shutil
        import tempfile

        d = tempfile.mkdtemp(prefix="c05-")
        try:
            return check_include_offset(col, case["include_levels"], case["heading_offset"], d)
        finally:
            shutil.rmtree(d, ignore_errors=True)
    if "match_titles_at" in case:
        return check_match_titles(col, case["levels"], case["match_titles_at"], case["inner_level"])
    check_levels(col, case["levels"], {int(k): v for k, v in (case.get("blocks") or {}).items()} or None)
