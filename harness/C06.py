"""C06 run-time side (bounded): nested parsing is transparent (directive bodies, fences, include, substitution)."""
from __future__ import annotations

import os
import random
import re
import tempfile
import time

from harness.common import Collector
from harness.docgen import gen_doc
from harness.docutils_util import parse

OV = {"myst_enable_extensions": ["colon_fence", "substitution"], "doctitle_xform": False}
ALLOW = ["para", "para", "bullet", "ordered", "quote", "fence", "indented", "html", "table"]


def body_format(nodes_list):
    out = "".join(n.pformat() for n in nodes_list)
    out = re.sub(r' (ids|backrefs|refid|names)="[^"]*"', "", out)
    out = re.sub(r'(source|line)="[^"]*"', "", out)
    return out


def top_level(text):
    doc, lines = parse(text, OV)
    return body_format(doc.children), lines


def wrap(text, fence, depth):
    for d in range(depth):
        f = fence * (8 - d if fence == "`" else 8 - d)
        text = f"{f}{{note}}\n{text.rstrip(chr(10))}\n{f}\n"
    return text


def check_wrap(col, text, fence, depth):
    from docutils import nodes

    case = {"text": text, "fence": fence, "depth": depth}
    want, _ = top_level(text)
    doc, lines = parse(wrap(text, fence, depth), OV)
    n = doc
    for _ in range(depth):
        notes = [c for c in n.children if isinstance(c, nodes.note)]
        if len(notes) != 1:
            col.fail("C06.directive-body", case, f"expected exactly one note at depth; got {[c.tagname for c in n.children]}")
            return
        n = notes[0]
    got = body_format(n.children)
    if got != want:
        import difflib

        col.fail("C06.directive-body", case, "nodes inside the directive body differ from the same Markdown at top level: "
                 + "".join(difflib.unified_diff(want.splitlines(True), got.splitlines(True)))[:600],
                 function="myst_parser.mdit_to_docutils.base:DocutilsRenderer.nested_render_text")


def check_include_subst(col, text):
    d = tempfile.mkdtemp(prefix="c06-")
    try:
        open(os.path.join(d, "inc.md"), "w").write(text)
        src = os.path.join(d, "index.md")
        want, _ = top_level("before\n\n" + text + "\nafter\n")
        doc, _l = parse("before\n\n```{include} inc.md\n```\n\nafter\n", OV, source_path=src)
        got = body_format(doc.children)
        case = {"text": text, "via": "include"}
        if got != want:
            import difflib

            col.fail("C06.include", case, "included file gives different nodes than the same text in place: "
                     + "".join(difflib.unified_diff(want.splitlines(True), got.splitlines(True)))[:600], function="myst_parser.mocking:MockIncludeDirective.run")
        # substitution (block level): same nodes as in place
        ov = dict(OV, myst_substitutions={"key": text})
        doc2, _l2 = parse("before\n\n{{ key }}\n\nafter\n", ov)
        got2 = body_format(doc2.children)
        if "{{" not in text and "{%" not in text and got2 != want:
            import difflib

            col.fail("C06.substitution", {"text": text, "via": "substitution"}, "substituted text gives different nodes than the same text in place: "
                     + "".join(difflib.unified_diff(want.splitlines(True), got2.splitlines(True)))[:600],
                     function="myst_parser.mdit_to_docutils.base:DocutilsRenderer.render_substitution")
    finally:
        import shutil

        shutil.rmtree(d, ignore_errors=True)


def check_nested_include(col):
    """An include INSIDE an included file is transparent for the rest of that file: what follows the inner include is
    rendered exactly as what precedes it (same relative-images / relative-docs treatment, same source path, same nodes as
    the three pieces written in place)."""
    from docutils import nodes

    for opts in ("", ":relative-images:\n"):
        d = tempfile.mkdtemp(prefix="c06-")
        try:
            os.makedirs(os.path.join(d, "sub"))
            open(os.path.join(d, "sub", "a.md"), "w").write("![one](img/one.png)\n\npara A1\n\n```{include} b.md\n```\n\n![two](img/two.png)\n\npara A2\n")
            open(os.path.join(d, "sub", "b.md"), "w").write("inner para B\n")
            main = "before\n\n```{include} sub/a.md\n" + opts + "```\n\nafter\n"
            case = {"nested_include": True, "options": opts}
            col.case(("nested-include", opts))
            doc, _l = parse(main, OV, source_path=os.path.join(d, "index.md"))
            uris = [n["uri"] for n in doc.findall(nodes.image)]
            if len(uris) != 2 or os.path.dirname(uris[0]) != os.path.dirname(uris[1]):
                col.fail("C06.nested-include", case, f"images before / after an include nested in the included file resolve differently: {uris!r}",
                         function="myst_parser.mocking:MockIncludeDirective.run")
            paras = [p.astext() for p in doc.findall(nodes.paragraph)]
            want = ["before", "para A1", "inner para B", "para A2", "after"]
            if [p for p in paras if p in want] != want:
                col.fail("C06.nested-include", case, f"paragraph order with a nested include is {paras!r}", function="myst_parser.mocking:MockIncludeDirective.run")
        finally:
            import shutil

            shutil.rmtree(d, ignore_errors=True)


SHARED = [
    # (definition text placed inside the container, use placed after it, what must appear)
    ("[site]: https://example.com/x\n", "see [the site][site]\n", 'refuri="https://example.com/x"'),
    ("[^fn]: the note text\n", "ref[^fn]\n", "the note text"),
    ("(tgt)=\npara target\n", "[go](#tgt)\n", 'refid="tgt"'),
]


def check_shared(col, container, definition, use, needle):
    d = tempfile.mkdtemp(prefix="c06-")
    try:
        src = os.path.join(d, "index.md")
        if container == "include":
            open(os.path.join(d, "inc.md"), "w").write(definition)
            first = "```{include} inc.md\n```\n"
        elif container == "backtick":
            first = "```{note}\n" + definition + "```\n"
        elif container == "colon":
            first = ":::{note}\n" + definition + ":::\n"
        else:
            first = definition
        for later in ("top", "directive"):
            text = first + "\n" + (use if later == "top" else "```{tip}\n" + use + "```\n")
            doc, lines = parse(text, OV, source_path=src)
            out = doc.pformat()
            case = {"container": container, "definition": definition, "use": use, "later": later}
            if needle not in out or any("not found" in ln or "Unknown target" in ln or "nreferenced" in ln for ln in lines):
                known = "C06-refdef-top-level" if (container != "top" and later == "top" and definition.startswith("[site]:")) else None
                col.fail("C06.shared-definitions", case, f"a definition inside {container} is not usable from {later}: {lines!r}", known=known,
                         function="myst_parser.mocking:MockIncludeDirective.run" if container == "include" else None)
    finally:
        import shutil

        shutil.rmtree(d, ignore_errors=True)


def run(tier, seed, extra):
    col = Collector("C06", extra.get("known", ()))
    rng = random.Random(seed)
    t0 = time.time()
    cnt = 0
    for _ in range(120 if tier == "quick" else 3000):
        text = gen_doc(rng, nblocks=rng.randint(1, 3), allow=ALLOW).text
        for fence in "`:":
            for depth in (1, 2, 3, 4):
                col.case((text, fence, depth))
                check_wrap(col, text, fence, depth)
                cnt += 1
    col.add_bound("body of a content directive = the same Markdown at top level", f"{cnt} (document, fence style, depth 1-4) triples (seed {seed})", cnt, time.time() - t0)
    t0 = time.time()
    n2 = 0
    for _ in range(60 if tier == "quick" else 1500):
        text = gen_doc(rng, nblocks=rng.randint(1, 3), allow=ALLOW).text
        col.case(("inc", text))
        check_include_subst(col, text)
        n2 += 1
    for container in ("include", "backtick", "colon", "top"):
        for definition, use, needle in SHARED:
            col.case(("shared", container, definition))
            check_shared(col, container, definition, use, needle)
            n2 += 1
    check_nested_include(col)
    n2 += 2
    col.add_bound("include / substitution = text in place; definitions inside stay usable outside; an include nested in an included file "
                  "(with / without relative-images)", f"{n2} cases", n2, time.time() - t0)
    return col.result()


def replay(col, case, check):
    if case.get("nested_include"):
        return check_nested_include(col)
    if "fence" in case:
        check_wrap(col, case["text"], case["fence"], case["depth"])
    elif "via" in case:
        check_include_subst(col, case["text"])
    else:
        for definition, use, needle in SHARED:
            if definition == case["definition"]:
                check_shared(col, case["container"], definition, use, needle)
