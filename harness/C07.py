"""C07 run-time oracle: options_to_items vs PyYAML's event stream (bounded stand-in) and totality replay."""
from __future__ import annotations

import random
import time

import yaml

from harness.common import Collector, strings_upto

ALPHABET = ["a", " ", "\n", ":", "#", "'", '"', "\\", "|", ">", "-", "+", "2", "\t"]


def yaml_pairs(text):
    """(key, value) pairs a conforming loader returns with all scalars as strings, or None when the
    text is outside the supported subset (not a single implicit block mapping of scalars) or invalid YAML."""
    try:
        evs = list(yaml.parse(text, Loader=yaml.SafeLoader))
    except yaml.YAMLError:
        return None
    except Exception:
        return None
    kinds = [type(e).__name__ for e in evs]
    if kinds[:2] != ["StreamStartEvent", "DocumentStartEvent"] or kinds[-2:] != ["DocumentEndEvent", "StreamEndEvent"]:
        return None
    if evs[1].explicit or evs[1].version or evs[1].tags or evs[-2].explicit:
        return None
    body = evs[2:-2]
    if not body or type(body[0]).__name__ != "MappingStartEvent" or type(body[-1]).__name__ != "MappingEndEvent":
        return None
    if body[0].flow_style or body[0].anchor or body[0].tag:
        return None
    sc = body[1:-1]
    if len(sc) % 2:
        return None
    vals = []
    for e in sc:
        if type(e).__name__ != "ScalarEvent" or e.anchor or e.tag:
            return None
        vals.append(e.value)
    # the supported subset is a block mapping *at column 0* (the tokenizer documents "expected key to
    # start at column 0" as its own error) ...
    if body[0].start_mark.column != 0:
        return None
    for k, v in zip(sc[0::2], sc[1::2]):
        if k.start_mark.column != 0:
            return None
        # ... and PyYAML is laxer than YAML 1.2 (s-separate(n+1)) in accepting a value that starts at
        # column 0 on a later line than its key; such texts are not in the conforming subset
        if v.start_mark.line > k.start_mark.line and v.start_mark.column == 0 and (v.value != "" or v.style):
            return None
    return list(zip(vals[0::2], vals[1::2]))


def check_total(col, text, function="myst_parser.parsers.options:options_to_items"):
    from myst_parser.parsers.options import TokenizeError, options_to_items

    try:
        out, _state = options_to_items(text)
    except TokenizeError as exc:
        ok = 0 <= exc.problem_mark.index <= len(text) and (
            exc.context_mark is None or 0 <= exc.context_mark.index <= len(text)
        )
        if not ok:
            col.fail("C07.total/position", text, f"TokenizeError position outside text: {exc.problem_mark}", function=function)
        return ("error", None)
    except Exception as exc:  # noqa: BLE001
        col.fail("C07.total/exception-type", text, f"raised {type(exc).__name__}: {exc}", function=function)
        return ("crash", None)
    if not all(isinstance(k, str) and isinstance(v, str) for k, v in out):
        col.fail("C07.total/result-type", text, f"non-string pair in {out!r}", function=function)
    return ("ok", out)


def in_known(text, got, want):
    return None


def check_yaml(col, text):
    kind, got = check_total(col, text)
    want = yaml_pairs(text)
    if want is None:
        return
    if kind == "error":
        col.fail("C07.yaml/rejects-valid", text, f"TokenizeError on text PyYAML loads as {want!r}",
                 known=in_known(text, None, want))
    elif kind == "ok" and got != want:
        col.fail("C07.yaml/differs", text, f"options_to_items={got!r} PyYAML={want!r}", known=in_known(text, got, want))


KEYS = ["a", "key", "'q k'", '"d\\tk"', "a b"]
VALUES = [
    "", "v", "plain text", "'single ''q'' x'", '"dq \\n \\x41 \\u00e9 \\\\"', "multi\n  line\n\n  plain", "x # c",
    "|\n  lit\n   more\n\n", ">\n  fold\n  ed\n\n  para\n", "|-\n  strip\n\n", "|+\n  keep\n\n", ">2\n   ind\n", "|1-\n  a\n",
    "# only comment", "'multi\n  line\n\n  q'", '"esc \\\n  cont"', "a: b", "- x", "[1, 2]", "{a: b}", "*x", "&a b", "!t v", "%d", "@x", "`x",
    "\"\\U0001F600\"", "\"\\UFFFFFFFF\"", "\"\\x4\"", "'unterminated", "|\n no\nindent", ">-\n\n  lead\n",
]


BLOCK_LINES = ["text", "  more", "\tTab", "", "   ", "trail  ", "# no comment", "k: v", "x\ty", "-", "  \tmix", "'q'"]
FLOW_LINES = ["word", "two words", "", "  lead", "trail  ", "\ttab", "tab\t", "esc\\n", "a''b", "\\", "x: y", "# c"]


def block_scalar(rng):
    style = rng.choice("|>")
    chomp = rng.choice(["", "-", "+"])
    ind = rng.choice(["", "", "1", "2", "3"])
    header = style + (chomp + ind if rng.random() < 0.5 else ind + chomp)
    if rng.random() < 0.15:
        header += rng.choice([" # comment", "  ", " #"])
    base = int(ind) if ind else rng.choice([1, 2, 4])
    lines = []
    for _ in range(rng.randint(0, 6)):
        ln = rng.choice(BLOCK_LINES)
        lines.append((" " * base + ln) if ln.strip(" ") or rng.random() < 0.5 else ln)
    return header + "\n" + "\n".join(lines) + rng.choice(["", "\n", "\n\n", "\n\n\n"])


def flow_scalar(rng):
    q = rng.choice("'\"")
    lines = [rng.choice(FLOW_LINES) for _ in range(rng.randint(1, 4))]
    body = ("\n" + rng.choice(["", " ", "  ", "\t"])).join(lines)
    if q == '"':
        body = body.replace("''", rng.choice(['\\"', "\\t", "\\x41", "\\u263A", "\\U0001F600", "\\\n", "\\/", "\\N"]))
    else:
        body = body.replace("\\", "/")
    return q + body + q


def plain_scalar(rng):
    lines = [rng.choice(["word", "two  words", "a:b", "x #y", "v # cut", "-dash", "q'uote", "t\tb", "c:", "1"])
             for _ in range(rng.randint(1, 4))]
    out = lines[0]
    for ln in lines[1:]:
        out += "\n" * rng.choice([1, 1, 2, 3]) + " " * rng.choice([1, 2, 3]) + ln
    return out


def rich_blocks(rng, n):
    """Option blocks exercising folding, chomping, indentation indicators, escapes and multi-line scalars."""
    for _ in range(n):
        lines = []
        for _k in range(rng.randint(1, 3)):
            r = rng.random()
            key = rng.choice(["a", "key", "'q k'", '"d k"', "k2"])
            if r < 0.45:
                v = block_scalar(rng)
            elif r < 0.7:
                v = flow_scalar(rng)
            elif r < 0.95:
                v = plain_scalar(rng)
            else:
                v = ""
            lines.append(f"{key}:{rng.choice([' ', '  ', ' '])}{v}" if v else f"{key}:")
            if rng.random() < 0.2:
                lines.append(rng.choice(["", "# comment", "  # indented comment"]))
        yield "\n".join(lines) + rng.choice(["", "\n"])


def grammar_blocks(rng, n):
    yield from rich_blocks(rng, n // 2)
    for _ in range(n - n // 2):
        lines = []
        for _k in range(rng.randint(1, 4)):
            r = rng.random()
            if r < 0.1:
                lines.append("")
            elif r < 0.2:
                lines.append("# comment")
            else:
                k, v = rng.choice(KEYS), rng.choice(VALUES)
                sep = rng.choice([": ", ":", ":  ", ": \t"]) if v else rng.choice([":", ": "])
                lines.append(f"{k}{sep}{v}")
        yield "\n".join(lines) + rng.choice(["", "\n", "\n\n"])


M = "myst_parser.parsers.options"
# function-level small scope: characters the scanners distinguish + non-ASCII digits / breaks
FN_ALPHABET = ["a", " ", "\n", ":", "#", "'", '"', "\\", "|", ">", "-", "+", "2", "0", "\t", "\r", "x", "u", "U", "F",
               "\u00b2", "\u0661", "\x85", "\u2028", "\ufeff", "\0"]


def fn_arg_sets(target, text, idx):
    """Argument dictionaries for one function at one stream position (requires filter them later)."""
    from myst_parser.parsers import options as O

    def stream():
        s = O.StreamBuffer(text)
        s.forward(idx)
        return s

    q = target.split(":")[1]
    if q.startswith("StreamBuffer."):
        meth = q.split(".")[1]
        if meth == "__init__":
            return []
        if meth in ("peek",):
            return [dict(self=stream(), index=k) for k in (0, 1, 2)]
        if meth in ("prefix", "forward"):
            return [dict(self=stream(), length=k) for k in (0, 1, 2, 3)]
        return [dict(self=stream())]
    if q in ("_tokenize",):
        return [dict(text=text, state=O.State())] if idx == 0 else []
    if q in ("_to_tokens", "options_to_items"):
        return [dict(text=text, **({"state": O.State()} if q == "_to_tokens" else {}), line_offset=lo, column_offset=0)
                for lo in (0, 3)] if idx == 0 else []
    if q == "TokenizeError.clone":
        return []
    _mod, fn = __import__("harness.funcheck", fromlist=["resolve"]).resolve(target)
    import inspect

    names = list(inspect.signature(fn).parameters)
    sets = [dict()]
    for n in names:
        if n == "stream":
            opts = [None]
        elif n == "state":
            opts = ["__state__"]
        elif n == "start_mark":
            opts = ["__pos__"]
        elif n in ("is_key", "double", "allow_newline"):
            opts = [True, False]
        elif n == "style":
            c = text[idx] if idx < len(text) else ""
            opts = [c] if c in "'\"|>" and c else []
        elif n == "indent":
            opts = [0, 1, 2]
        else:
            return []
        sets = [dict(d, **{n: o}) for d in sets for o in opts]
    out = []
    for d in sets:
        s = stream()
        d = dict(d)
        d["stream"] = s
        if d.get("state") == "__state__":
            d["state"] = O.State()
        if d.get("start_mark") == "__pos__":
            d["start_mark"] = s.get_position()
        out.append(d)
    return out


def _fn_level_chunk(col, targets, texts):
    from harness import funcheck

    cnt = 0
    for target in targets:
        for text in texts:
            for idx in range(len(text) + 1):
                for kwargs in fn_arg_sets(target, text, idx):
                    res = funcheck.check_call(target, kwargs)
                    if res is None:
                        continue
                    cnt += 1
                    col.case((target, text, idx), nontrivial=len(text) > 0)
                    for kind, clause, msg in res:
                        shown = {k: (v if isinstance(v, (str, int, bool)) else type(v).__name__) for k, v in kwargs.items()}
                        col.fail(f"contract/{kind}[{clause}]", {"function": target, "text": text, "index": idx, "args": shown},
                                 msg, function=target, oid=f"{target}:{kind}[{clause}]")
    return cnt


def _fn_level_worker(job):
    targets, texts, known = job
    c = Collector("C07", known)
    n = _fn_level_chunk(c, targets, texts)
    # (distinct inputs are counted, not shipped: a hash per case keeps the message small)
    return n, c.evaluations, {hash(k) for k in c.nontrivial}, c.failures


def function_level(col, tier, targets):
    """Bounded stand-in at function level: the executable contracts on the real functions."""
    from harness import funcheck
    from harness.common import strings_upto

    n = 3  # (quick: texts up to length 2, thorough: up to length 3)
    t0 = time.time()
    cnt = 0
    texts = list(strings_upto(FN_ALPHABET, n if tier != "quick" else 2)) + [
        a + b + c for a in "|>'\"" for b in ["\u00b2", "\u0661", "+", "-", "2", "\\"] for c in ["", "\u00b2", "x", "\n", "2", "U", "+"]]
    if tier == "quick":
        texts += ['"\\x4', '"\\U0011FFFF"', '"\\UFFFFFFFF"', "a: |\n x", "a: >2\n   x\n"]
    if tier == "quick":
        cnt += _fn_level_chunk(col, targets, texts)
    else:
        # thorough: the same loop over 16 worker processes (each with its own collector; results merged)
        import multiprocessing as mp

        chunks = [texts[i::16] for i in range(16)]
        with mp.get_context("fork").Pool(16) as pool:
            for c, evals, nontriv, fails in pool.imap_unordered(_fn_level_worker, [(targets, ch, sorted(col.known_active)) for ch in chunks]):
                cnt += c
                col.evaluations += evals
                col.nontrivial.update(nontriv)
                for f in fails:
                    col.fail(f["check"], f["case"], f["msg"], known=f["known"], function=f["function"], oid=f["oid"])
    col.add_bound("every function of parsers/options.py against its executable contract",
                  f"stream texts of length <= {2 if tier == 'quick' else n} over {FN_ALPHABET!r} (+ escapes/header seeds), every start index, "
                  "all boolean/indent arguments", cnt, time.time() - t0)


def _yaml_worker(job):
    n, part, parts, known = job
    c = Collector("C07", known)
    cnt = 0
    for k, s in enumerate(strings_upto(ALPHABET, n)):
        if k % parts != part:
            continue
        c.case(s, nontrivial=len(s) > 0)
        check_yaml(c, s)
        cnt += 1
    return cnt, c.evaluations, {hash(k) for k in c.nontrivial}, c.failures


def run(tier, seed, extra):
    col = Collector("C07", extra.get("known", ()))
    rng = random.Random(seed)
    from harness import funcheck
    from pyvc.spec import REG

    funcheck.load_contracts(["contracts.options"])
    # 1. replay of solver countermodels on the real function
    for w in extra.get("witnesses", []):
        target = ":".join(w["oid"].split(":")[:2])
        res = funcheck.replay_witness(target, w.get("witness"))
        for kind, clause, msg in res or []:
            col.fail(f"contract/{kind}[{clause}]", {"function": target, "witness": w.get("witness")}, msg,
                     function=target, oid=w["oid"])
    targets = [t for t, fs in REG.funs.items() if t.startswith(M + ":") and not fs.trusted]
    function_level(col, tier, targets)
    # 2. bounded stand-in
    n = 4 if tier == "quick" else 5
    t0 = time.time()
    cnt = 0
    if tier == "quick":
        for s in strings_upto(ALPHABET, n):
            col.case(s, nontrivial=len(s) > 0)
            check_yaml(col, s)
            cnt += 1
    else:
        import multiprocessing as mp

        with mp.get_context("fork").Pool(16) as pool:
            for c, evals, nontriv, fails in pool.imap_unordered(_yaml_worker, [(n, i, 16, sorted(col.known_active)) for i in range(16)]):
                cnt += c
                col.evaluations += evals
                col.nontrivial.update(nontriv)
                for f in fails:
                    col.fail(f["check"], f["case"], f["msg"], known=f["known"], function=f["function"], oid=f["oid"])
    col.add_bound("options_to_items vs yaml.parse", f"all strings of length <= {n} over {ALPHABET!r}", cnt, time.time() - t0)
    t0 = time.time()
    m = 3000 if tier == "quick" else 40000
    cnt = 0
    for b in grammar_blocks(rng, m):
        col.case(b)
        check_yaml(col, b)
        cnt += 1
    col.add_bound("options_to_items vs yaml.parse", f"{m} grammar-generated option blocks (seed {seed})", cnt, time.time() - t0)
    return col.result()


def replay(col, case, check):
    from harness import funcheck

    funcheck.load_contracts(["contracts.options"])
    if isinstance(case, str):
        check_yaml(col, case)
    elif isinstance(case, dict) and "witness" in case:
        for kind, clause, msg in funcheck.replay_witness(case["function"], case["witness"]) or []:
            col.fail(f"contract/{kind}[{clause}]", case, msg)
    elif isinstance(case, dict) and "text" in case:
        for kwargs in fn_arg_sets(case["function"], case["text"], case["index"]):
            for kind, clause, msg in funcheck.check_call(case["function"], kwargs) or []:
                col.fail(f"contract/{kind}[{clause}]", case, msg)
