"""C08 run-time side (bounded): parse_directive_text against a line-level reference model taken from the statement."""
from __future__ import annotations

import itertools
import random
import time

from harness.common import Collector

VOCAB = [":class: x", ":name: n", ":bad", ":nope: 1", "", "text", "---", "--- x", "class: y", "  indented", ":width: abc", ":width: 10", ":alt:"]


def classes():
    from docutils.parsers.rst.directives.admonitions import Admonition, Note
    from docutils.parsers.rst.directives.body import CodeBlock, Compound
    from docutils.parsers.rst.directives.images import Figure, Image
    from docutils.parsers.rst.directives.misc import Include

    return {"Note": Note, "Admonition": Admonition, "Image": Image, "Figure": Figure, "CodeBlock": CodeBlock, "Compound": Compound, "Include": Include}


def model_split(cls, first_line, content):
    """(option lines, body lines, offset) per the statement; None when the option block is '---' style without close."""
    lines = content.splitlines()
    opts, body, off = [], lines, 0
    if cls.option_spec:
        if lines and lines[0].startswith("---"):
            k = next((i for i in range(1, len(lines)) if lines[i].startswith("---")), None)
            if k is None:
                opts, body, off = lines[1:], [], len(lines)
            else:
                opts, body, off = lines[1:k], lines[k + 1:], k + 1
        elif content.lstrip().startswith(":"):
            k = 0
            while k < len(lines) and lines[k].lstrip().startswith(":"):
                k += 1
            opts, body, off = [ln.lstrip()[1:] for ln in lines[:k]], lines[k:], k
    if not (cls.required_arguments or cls.optional_arguments) and first_line.strip():
        body = [first_line] + body
        off = 0
    if body and not body[0].strip():
        body, off = body[1:], off + 1
    return opts, body, off


def in_known(cls, first_line, content, got_body, got_off, want_body, want_off):
    lines = content.splitlines()
    if lines and not lines[-1].strip() and got_body == want_body[: len(got_body)] and got_off != want_off:
        return "C08-trailing-blank-offset"
    if lines and not lines[-1].strip() and [b for b in want_body if True][: len(got_body)] == got_body and all(not x.strip() for x in want_body[len(got_body):]):
        return "C08-trailing-blank-offset"
    if lines and lines[0].startswith("---") and any(ln.startswith("---") and ln.rstrip("-") for ln in lines[1:]):
        return "C08-closing-delimiter-text"
    return None


def check_split(col, cname, first_line, content):
    from docutils.parsers.rst.states import MarkupError

    from myst_parser.parsers.directives import parse_directive_text

    cls = classes()[cname]
    case = {"class": cname, "first_line": first_line, "content": content}
    try:
        res = parse_directive_text(cls, first_line, content)
    except MarkupError:
        return
    except Exception as exc:  # noqa: BLE001
        col.fail("C08.total", case, f"raised {type(exc).__name__}: {exc}")
        return
    _o, body, off = model_split(cls, first_line, content)
    # trailing blank lines of the content are not body text worth distinguishing: compare modulo them? No - exact.
    if res.body != body or res.body_offset != off:
        col.fail("C08.partition", case, f"body={res.body!r} offset={res.body_offset}; statement: body={body!r} offset={off}",
                 known=in_known(cls, first_line, content, res.body, res.body_offset, body, off),
                 function="myst_parser.parsers.directives:parse_directive_text")


def check_styles(col, cname, pairs, body):
    """':key: value' and '---' styles are interchangeable (same options, same body, each offset = first body line)."""
    from myst_parser.parsers.directives import parse_directive_text

    cls = classes()[cname]
    c1 = "\n".join([f":{k}: {v}".rstrip() for k, v in pairs] + body)
    c2 = "\n".join(["---"] + [f"{k}: {v}".rstrip() for k, v in pairs] + ["---"] + body)
    case = {"class": cname, "pairs": [list(p) for p in pairs], "body": body}
    arg = "arg" if cls.required_arguments else ""
    r1, r2 = parse_directive_text(cls, arg, c1), parse_directive_text(cls, arg, c2)
    w1 = sorted(w.msg for w in r1.warnings)
    w2 = sorted(w.msg for w in r2.warnings)
    if r1.options != r2.options or r1.body != r2.body or w1 != w2:
        col.fail("C08.interchangeable", case, f"':' style -> {r1.options!r} {r1.body!r} {w1!r}; '---' style -> {r2.options!r} {r2.body!r} {w2!r}",
                 function="myst_parser.parsers.directives:_parse_directive_options")
    # validation: unknown dropped with ONE warning naming them, invalid dropped with one warning each, valid converted by the spec
    spec = cls.option_spec
    last = {}
    for k, v in pairs:
        last[k] = v
    unknown = [k for k in last if k not in spec]
    want, invalid = {}, []
    from docutils.parsers.rst.directives import flag

    for k, v in last.items():
        if k in spec:
            try:
                want[k] = spec[k](None if (not v or spec[k] is flag) else v)
            except (ValueError, TypeError):
                invalid.append(k)
    if r1.options != want:
        col.fail("C08.options", case, f"options {r1.options!r}, expected (converted by the directive's option spec) {want!r}")
    n_unknown = sum(1 for w in r1.warnings if w.msg.startswith("Unknown option keys"))
    n_invalid = sum(1 for w in r1.warnings if w.msg.startswith("Invalid option value"))
    if n_unknown != (1 if unknown else 0) or n_invalid != len(invalid):
        col.fail("C08.option-warnings", case, f"{n_unknown} unknown-key warnings (unknown={unknown}), {n_invalid} invalid-value warnings (invalid={invalid})")


def check_priority(col, cname, block, extra):
    from myst_parser.parsers.directives import parse_directive_text

    cls = classes()[cname]
    content = "\n".join(f":{k}: {v}".rstrip() for k, v in block.items()) + ("\n\nbody" if cls.has_content else "")
    res = parse_directive_text(cls, "a.png" if cls.required_arguments else "", content, additional_options=dict(extra))
    case = {"class": cname, "block": block, "additional": extra}
    from docutils.parsers.rst.directives import flag

    for k in set(block) | set(extra):
        if k not in cls.option_spec:
            continue
        src = block[k] if k in block else extra[k]
        try:
            want = cls.option_spec[k](None if (not src or cls.option_spec[k] is flag) else src)
        except (ValueError, TypeError):
            continue
        if res.options.get(k, "<missing>") != want:
            col.fail("C08.priority", case, f"option {k!r} = {res.options.get(k, '<missing>')!r}; block value must win over the external default: expected {want!r}",
                     function="myst_parser.parsers.directives:_parse_directive_options")


def check_arguments(col, cname, first_line):
    from docutils.parsers.rst.states import MarkupError

    from myst_parser.parsers.directives import parse_directive_text

    cls = classes()[cname]
    case = {"class": cname, "first_line": first_line, "content": ""}
    words = first_line.split()
    req, opt = cls.required_arguments, cls.optional_arguments
    try:
        res = parse_directive_text(cls, first_line, "")
        got = res.arguments
    except MarkupError:
        got = "error"
    except Exception as exc:  # noqa: BLE001
        col.fail("C08.total", case, f"raised {type(exc).__name__}: {exc}")
        return
    if not (req or opt):
        want = []
    elif len(words) < req:
        want = "error"
    elif len(words) > req + opt and not cls.final_argument_whitespace:
        want = "error"
    elif len(words) > req + opt:
        want = first_line.split(None, req + opt - 1)
    else:
        want = words
    if got != want:
        col.fail("C08.arguments", case, f"arguments {got!r}, declaration (required={req}, optional={opt}, final_ws={cls.final_argument_whitespace}) requires {want!r}",
                 function="myst_parser.parsers.directives:parse_directive_arguments")


def run(tier, seed, extra):
    col = Collector("C08", extra.get("known", ()))
    rng = random.Random(seed)
    t0 = time.time()
    cnt = 0
    n = 3 if tier == "quick" else 4
    for cname in ("Note", "Admonition", "Image", "CodeBlock", "Compound"):
        for first in ("", "text"):
            for k in range(0, n + 1):
                for ls in itertools.product(VOCAB if tier != "quick" else VOCAB[:10], repeat=k):
                    for tail in ("", "\n"):
                        content = "\n".join(ls) + (tail if ls else "")
                        col.case((cname, first, content), nontrivial=bool(ls))
                        check_split(col, cname, first, content)
                        cnt += 1
    col.add_bound("parse_directive_text partition (body, offset) vs line-level model", f"5 directive classes x first line in {{empty,text}} x all contents of <= {n} lines over a {len(VOCAB)}-line vocabulary x trailing newline", cnt, time.time() - t0)
    t0 = time.time()
    cnt = 0
    keys = ["class", "name", "nope", "width", "alt", "align", "scale"]
    vals = ["x", "", "10", "abc", "a b", "left", "50%"]
    for _ in range(400 if tier == "quick" else 8000):
        cname = rng.choice(["Note", "Image", "Figure", "Admonition"])
        pairs = [(rng.choice(keys), rng.choice(vals)) for _ in range(rng.randint(0, 4))]
        body = rng.choice([[], ["body"], ["", "body"], ["body", "", "more"]])
        col.case(("styles", cname, tuple(pairs), tuple(body)))
        check_styles(col, cname, pairs, body)
        check_priority(col, rng.choice(["Image", "Note"]), {k: v for k, v in pairs[:2]}, {rng.choice(keys): rng.choice(vals) for _ in range(2)})
        cnt += 1
    for cname in classes():
        for fl in ("", "a", "a b", "a b c", "  a   b  ", "a\tb c d"):
            col.case(("args", cname, fl))
            check_arguments(col, cname, fl)
            cnt += 1
    col.add_bound("option styles interchangeable / validation / priority / argument counts", f"{cnt} generated option lists and first lines (seed {seed})", cnt, time.time() - t0)
    return col.result()


def replay(col, case, check):
    if "pairs" in case:
        check_styles(col, case["class"], [tuple(p) for p in case["pairs"]], case["body"])
    elif "block" in case:
        check_priority(col, case["class"], case["block"], case["additional"])
    elif check and "arguments" in check:
        check_arguments(col, case["class"], case["first_line"])
    else:
        check_split(col, case["class"], case["first_line"], case["content"])
