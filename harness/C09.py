"""C09 run-time side (bounded): local '#target' links resolve to the right node or warn exactly once."""
from __future__ import annotations

import itertools
import random
import time

from harness.common import Collector
from harness.docutils_util import parse

OV = {"myst_enable_extensions": ["attrs_block", "attrs_inline", "colon_fence"], "myst_heading_anchors": 3, "doctitle_xform": False}

# target providers: (source, name, kind, expected title or None)
def targets(i, name):
    return [
        (f"({name})=\n# Head {i} *em*\n", name, "block-target-heading", f"Head {i} em"),
        (f"({name})=\nPara {i}\n", name, "block-target-para", None),
        (f"{{#{name}}}\n## Attr {i}\n", name, "attr-heading", f"Attr {i}"),
        (f"{{#{name}}}\nattr para {i}\n", name, "attr-para", None),
        (f"({name})=\n```{{figure}} img.png\n\nCaption {i} *x*\n```\n", name, "figure-target", f"Caption {i} x"),
        (f"{{#{name.title()}}}\n## AttrUp {i}\n", name, "attr-heading-upper", f"AttrUp {i}"),
        (f"```{{note}}\n:name: {name}\n\nbody {i}\n```\n", name, "note-name", None),
        (f"# {name}\n", name.lower(), "slug-heading", name),
    ]


def check(col, tdefs, links):
    """tdefs: list of target provider tuples placed in the document; links: list of (text or '', name)."""
    from docutils import nodes

    text = "\n".join(t[0] for t in tdefs) + "\n" + "\n".join(f"LINK{j} [{lt}](#{nm})\n" for j, (lt, nm) in enumerate(links))
    case = {"text": text}
    try:
        doc, lines = parse(text, OV)
    except Exception as exc:  # noqa: BLE001
        col.fail("C09.parse", case, f"{type(exc).__name__}: {exc}")
        return
    explicit = {}
    slugs = {}
    for src, name, kind, title in tdefs:
        (slugs if kind == "slug-heading" else explicit).setdefault(name, (kind, title))
    paras = [p for p in doc.findall(nodes.paragraph) if p.astext().startswith("LINK")]
    nlines = text.split("\n")
    missing_warn = [ln for ln in lines if "xref_missing" in ln]
    expect_missing = 0
    for j, (lt, nm) in enumerate(links):
        par = next((p for p in paras if p.astext().startswith(f"LINK{j} ") or p.astext() == f"LINK{j}"), None)
        if par is None:
            col.fail("C09.dropped", case, f"the paragraph of link {j} is missing")
            continue
        refs = [r for r in par.findall(nodes.reference)]
        lcase = dict(case, link=j, name=nm, text_given=lt)
        if len(refs) != 1:
            col.fail("C09.dropped-or-duplicated", lcase, f"link {j} produced {len(refs)} reference nodes")
            continue
        ref = refs[0]
        tgt = explicit.get(nm) or slugs.get(nm)
        shown = "".join(c.astext() for c in ref.children if not isinstance(c, nodes.system_message))
        if tgt is None:
            expect_missing += 1
            want_line = next(i + 1 for i, ln in enumerate(nlines) if ln.startswith(f"LINK{j} "))
            mine = [ln for ln in missing_warn if f"'{nm}'" in ln]
            if not any(f":{want_line}:" in ln for ln in mine):
                col.fail("C09.missing-warning", lcase, f"no 'target not found' warning for #{nm} at line {want_line}: {lines!r}")
            if lt and shown != lt:
                col.fail("C09.missing-text", lcase, f"link text {shown!r}, expected the explicit text {lt!r}")
            if not lt and shown and shown != "#" + nm:
                col.fail("C09.missing-text", lcase, f"link text {shown!r}, expected '#{nm}'")
            continue
        kind, title = tgt
        # right node: the element whose ids contain refid must be the node carrying the target
        rid = ref.get("refid")
        holder = next((n for n in doc.findall(lambda x: isinstance(x, nodes.Element)) if rid in n.get("ids", [])), None)
        if holder is None:
            col.fail("C09.resolves", lcase, f"refid {rid!r} does not exist in the tree")
            continue
        marker = {"block-target-heading": "Head", "block-target-para": "Para", "attr-heading": "Attr", "attr-para": "attr para", "figure-target": "Caption", "attr-heading-upper": "AttrUp",
                  "note-name": "body", "slug-heading": nm}[kind]
        probe = holder
        if isinstance(holder, nodes.target):
            # a block target points at the next element
            idx = holder.parent.index(holder)
            probe = holder.parent[idx + 1] if idx + 1 < len(holder.parent) else holder
        if marker.lower() not in probe.astext().lower():
            col.fail("C09.right-node", lcase, f"#{nm} ({kind}) resolved to <{holder.tagname}> {probe.astext()[:40]!r}",
                     function="myst_parser.mdit_to_docutils.transforms:ResolveAnchorIds.apply")
        want_text = lt if lt else (title if title else "#" + nm)
        if shown != want_text and not (not lt and title is None and shown in ("#" + nm, "")):
            col.fail("C09.link-text", lcase, f"link text {shown!r}, expected {want_text!r} (explicit text, else the target's title, else '#name')",
                     function="myst_parser.mdit_to_docutils.transforms:ResolveAnchorIds.apply")
    if len(missing_warn) != expect_missing:
        col.fail("C09.warn-exactly-once", case, f"{len(missing_warn)} 'target not found' warnings for {expect_missing} unresolvable links: {missing_warn!r}")


def run(tier, seed, extra):
    col = Collector("C09", extra.get("known", ()))
    rng = random.Random(seed)
    t0 = time.time()
    cnt = 0
    names = ["alpha", "beta-two", "g3", "my-target", "MixedCase", "UPPER-x"]
    for k, name in enumerate(names):
        for t in targets(k, name):
            for lt in ("", "explicit *text*".replace("*", "")):
                col.case(("single", t[2], name, lt))
                check(col, [t], [(lt, t[1]), (lt, t[1]), (lt, "nope")])
                cnt += 1
    # explicit target takes priority over a heading slug of the same name
    for kind in (1, 3, 4):
        t_exp = targets(1, "clash")[kind]
        t_slug = ("# clash\n", "clash", "slug-heading", "clash")
        for order in ((t_exp, t_slug), (t_slug, t_exp)):
            col.case(("priority", kind, order[0][2]))
            check(col, list(order), [("", "clash"), ("txt", "clash")])
            cnt += 1
    for _ in range(80 if tier == "quick" else 2500):
        chosen = rng.sample(range(len(names)), rng.randint(1, 3))
        tdefs = [rng.choice(targets(i, names[i])) for i in chosen]
        links = [(rng.choice(["", "txt"]), rng.choice([t[1] for t in tdefs] + ["missing", "nope2"])) for _ in range(rng.randint(1, 4))]
        col.case(("rand", tuple(t[2] for t in tdefs), tuple(links)))
        check(col, tdefs, links)
        cnt += 1
    col.add_bound("'#name' links: right node, explicit-over-slug priority, implicit text, exactly one warning at the link's line",
                  f"{cnt} documents over 7 kinds of target providers (seed {seed})", cnt, time.time() - t0)
    return col.result()


def replay(col, case, check_name):
    # the case text is self-contained: recover providers and links from it is not needed; re-run generic sanity on the text
    from docutils import nodes

    doc, lines = parse(case["text"], OV)
    import re

    links = re.findall(r"LINK(\d+) \[([^\]]*)\]\(#([^)]*)\)", case["text"])
    for j, lt, nm in links:
        pars = [p for p in doc.findall(nodes.paragraph) if p.astext().startswith(f"LINK{j}")]
        if not pars or len(list(pars[0].findall(nodes.reference))) != 1:
            col.fail("C09.dropped-or-duplicated", case, f"link {j}")
    # full re-check needs the provider list: run the whole bounded set
    run_res = run("quick", 0, {})
    for f in run_res["failures"]:
        col.failures.append(f)
