"""C10 run-time side: heading anchors vs the documented GitHub rule + uniqueness, vs the myst-anchors CLI,
and '#anchor' resolution (bounded stand-in on the docutils front end)."""
from __future__ import annotations

import io
import itertools
import random
import re
import tempfile
import time

from harness.common import Collector
from harness.docutils_util import parse

TITLES = ["a", "a-1", "A", "a b", "a!", "a-1-1", "b", "`a`", "a *b*", "é ß", "a ![i](u)", "1", "a_b", "中",
          # titles whose slug is empty or only separators (their uniqueness suffixes start from an empty base)
          "!!!", "???", "-", "- -", "`!`", "-1"]


def spec_title(md_title):
    """Heading text + inline-code content (what the statement says the anchor is computed from)."""
    from markdown_it import MarkdownIt

    toks = MarkdownIt("commonmark").parse("# " + md_title)
    inline = toks[1]
    return "".join(c.content for c in (inline.children or []) if c.type in ("text", "code_inline"))


def spec_slug(title):
    """lower-case, spaces to hyphens, punctuation removed (the documented GitHub rule)."""
    return re.sub(r"[^\w一-鿿\- ]", "", title.lower().replace(" ", "-"))


def spec_anchors(headings, depth, slugify=spec_slug):
    seen, out = set(), []
    for level, md in headings:
        if level > depth:
            out.append(None)
            continue
        base = slugify(spec_title(md))
        s, k = base, 1
        while s in seen:
            s = f"{base}-{k}"
            k += 1
        seen.add(s)
        out.append(s)
    return out


def cli_anchors(text, depth):
    from myst_parser.cli import print_anchors

    with tempfile.NamedTemporaryFile("w", suffix=".md", delete=False, encoding="utf8") as f:
        f.write(text)
        path = f.name
    out = tempfile.NamedTemporaryFile("r", suffix=".txt", delete=False, encoding="utf8")
    print_anchors([path, "-o", out.name, "-l", str(depth)])
    html = open(out.name, encoding="utf8").read()
    import os

    os.unlink(path)
    os.unlink(out.name)
    return re.findall(r'<h\d id="([^"]*)"', html)


def in_known(headings):
    for _lv, md in headings:
        t = spec_title(md)
        if t != t.strip():
            # title text with leading/trailing blanks: the plugin strips before slugifying, MyST does not
            return "C10-strip"
    return None


def rev_slug(title):
    return title[::-1].lower().replace(" ", "_")


def raising_slug(title):
    if "b" in title:
        raise IndexError("no slug for " + title)
    return "s-" + title


def check_sequence(col, headings, depth):
    from docutils import nodes

    text = "".join("#" * lv + " " + md + "\n\n" for lv, md in headings)
    case = {"headings": [list(h) for h in headings], "depth": depth}
    doc, lines = parse(text, {"myst_heading_anchors": depth, "doctitle_xform": False}, transforms=True)
    secs = [n for n in doc.findall(nodes.section)]
    got = [s.get("slug") for s in secs]
    want = spec_anchors(headings, depth)
    if got != want:
        col.fail("C10.rule+unique", case, f"anchors {got!r}, documented rule gives {want!r}",
                 function="myst_parser.mdit_to_docutils.base:compute_unique_slug")
    if 0 < depth <= 6:
        cli = cli_anchors(text, depth)
        mine = [g for g in got if g is not None]
        if cli != mine:
            col.fail("C10.cli", case, f"render anchors {mine!r} != myst-anchors {cli!r}", known=in_known(headings))
    # every anchor resolves through a '#anchor' link to its own heading
    slugs = [g for g in got if g]
    if slugs:
        text2 = text + "".join(f"[](#{s})\n\n" for s in slugs)
        doc2, lines2 = parse(text2, {"myst_heading_anchors": depth, "doctitle_xform": False})
        secs2 = {s.get("slug"): s for s in doc2.findall(nodes.section) if s.get("slug")}
        refs = [r for r in doc2.findall(nodes.reference) if r.get("id_link") or r.get("refid")]
        for s, r in zip(slugs, refs[-len(slugs):]):
            tgt = secs2.get(s)
            if tgt is None or r.get("refid") not in tgt["ids"]:
                col.fail("C10.resolves", case, f"link #{s} has refid {r.get('refid')!r}, heading ids {tgt['ids'] if tgt is not None else None}")
        if any("xref_missing" in ln for ln in lines2):
            col.fail("C10.resolves", case, f"anchor link did not resolve: {lines2!r}")


def check_custom(col, headings):
    from docutils import nodes

    text = "".join("#" * lv + " " + md + "\n\n" for lv, md in headings)
    case = {"headings": [list(h) for h in headings], "custom": True}
    doc, lines = parse(text, {"myst_heading_anchors": 6, "myst_heading_slug_func": "harness.C10.rev_slug", "doctitle_xform": False})
    got = [s.get("slug") for s in doc.findall(nodes.section)]
    want = spec_anchors(headings, 6, slugify=rev_slug)
    if got != want:
        col.fail("C10.custom", case, f"custom slug function: anchors {got!r}, expected {want!r}")
    try:
        doc, lines = parse(text, {"myst_heading_anchors": 6, "myst_heading_slug_func": "harness.C10.raising_slug", "doctitle_xform": False})
    except Exception as exc:  # noqa: BLE001
        col.fail("C10.custom-failure", case, f"a raising slug function aborted the parse: {type(exc).__name__}: {exc}",
                 function="myst_parser.mdit_to_docutils.base:DocutilsRenderer.generate_heading_target")
        return
    nfail = sum(1 for _lv, md in headings if "b" in spec_title(md))
    nwarn = sum(1 for ln in lines if "[myst.heading_slug]" in ln)
    if nwarn != nfail:
        col.fail("C10.custom-failure", case, f"{nfail} headings fail to slug, {nwarn} [myst.heading_slug] warnings: {lines!r}")


def run(tier, seed, extra):
    col = Collector("C10", extra.get("known", ()))
    rng = random.Random(seed)
    t0 = time.time()
    cnt = 0
    n = 3 if tier == "quick" else 4
    core = ["a", "a-1", "A", "a-1-1", "b"]
    for k in range(1, n + 1):
        for titles in itertools.product(core, repeat=k):
            hs = [(1, t) for t in titles]
            col.case(("seq", titles))
            check_sequence(col, hs, 2)
            cnt += 1
    for titles in itertools.product(["!!!", "???", "-1", "a"], repeat=3):
        col.case(("seq-empty", titles))
        check_sequence(col, [(1, t) for t in titles], 2)
        cnt += 1
    col.add_bound("anchors of heading sequences vs rule/uniqueness/CLI/resolution",
                  f"all title sequences of length <= {n} over {core!r} (level 1, depth 2)", cnt, time.time() - t0)
    t0 = time.time()
    cnt = 0
    for _ in range(60 if tier == "quick" else 1500):
        hs = [(rng.randint(1, 4), rng.choice(TITLES)) for _ in range(rng.randint(1, 5))]
        depth = rng.randint(0, 7)
        col.case(("rand", tuple(hs), depth))
        check_sequence(col, hs, depth)
        cnt += 1
        if cnt % 4 == 0:
            check_custom(col, hs)
    col.add_bound("random heading sequences (levels 1-4, titles with markup/Unicode/punctuation, depths 0-7, custom slug functions)",
                  f"{cnt} sequences (seed {seed})", cnt, time.time() - t0)
    return col.result()


def replay(col, case, check):
    hs = [tuple(h) for h in case["headings"]]
    if case.get("custom"):
        check_custom(col, hs)
    else:
        check_sequence(col, hs, case["depth"])
