"""C11 run-time side (bounded): footnotes numbered, linked and collected consistently."""
from __future__ import annotations

import itertools
import random
import time

from harness.common import Collector
from harness.docutils_util import parse


def build_doc(refs, defs, tail="", head=""):
    """refs: labels in reference order; defs: labels in definition order (each definition text = 'DEF-<label>-<k>')."""
    body = head + "para " + " ".join(f"r{j}[^{lab}]" for j, lab in enumerate(refs)) + "\n\n"
    cnt = {}
    for lab in defs:
        cnt[lab] = cnt.get(lab, 0) + 1
        body += f"[^{lab}]: DEF-{lab}-{cnt[lab]}\n\n"
    return body + tail


def model(refs, defs):
    """Expected numbering: numeric labels keep their number; other labels are auto-numbered in order of first reference,
    skipping numbers used by numeric labels; unreferenced auto-numbered definitions come after."""
    defined = []
    for lab in defs:
        if lab not in defined:
            defined.append(lab)
    manual = {lab: int(lab) for lab in defined if lab.isdigit()}
    used = set(manual.values())
    order = []
    for lab in refs:
        if lab in defined and not lab.isdigit() and lab not in order:
            order.append(lab)
    order += [lab for lab in defined if not lab.isdigit() and lab not in order]
    num = dict(manual)
    n = 1
    for lab in order:
        while n in used:
            n += 1
        num[lab] = n
        used.add(n)
    return defined, num


def check(col, refs, defs, sort=True, transition=True, head="", tail=""):
    from docutils import nodes

    text = build_doc(refs, defs, tail, head)
    case = {"refs": list(refs), "defs": list(defs), "sort": sort, "transition": transition, "head": head, "tail": tail}
    try:
        doc, lines = parse(text, {"myst_footnote_sort": sort, "myst_footnote_transition": transition, "doctitle_xform": False})
    except Exception as exc:  # noqa: BLE001
        col.fail("C11.parse", case, f"{type(exc).__name__}: {exc}")
        return
    defined, num = model(refs, defs)
    fns = list(doc.findall(nodes.footnote))
    by_text = {}
    for fn in fns:
        body = " ".join(c.astext() for c in fn.children if not isinstance(c, nodes.label))
        for lab in defined:
            if f"DEF-{lab}-1" in body:
                by_text[lab] = fn
    # no footnote text lost (first definition of every label is kept)
    for lab in defined:
        if lab not in by_text:
            known = "C11-name-clash" if head.strip().lstrip("# ").lower() == lab.lower() else None
            col.fail("C11.text-lost", case, f"the definition of [^{lab}] is not in the document", known=known,
                     function="myst_parser.mdit_to_docutils.base:DocutilsRenderer.render_footnote_reference")
            return
    labels = {lab: (fn[0].astext() if len(fn) and isinstance(fn[0], nodes.label) else None) for lab, fn in by_text.items()}
    if len(set(labels.values())) != len(labels):
        col.fail("C11.distinct-labels", case, f"labels are not pairwise distinct: {labels!r}")
    for lab in defined:
        if labels[lab] != (lab if lab.isdigit() else str(num[lab])):  # (a numeric label is shown as written, e.g. 007)
            col.fail("C11.numbering", case, f"[^{lab}] is numbered {labels[lab]!r}, expected {num[lab]} (numeric labels keep their number, others in order of first reference)",
                     known=None if sort else "C11-unsorted-numbering", function="myst_parser.mdit_to_docutils.transforms:SortFootnotes.apply")
            break
    # references: point at the definition, show the same number; back-references
    frefs = list(doc.findall(nodes.footnote_reference))
    k = 0
    for j, lab in enumerate(refs):
        if lab not in defined:
            continue
        if k >= len(frefs):
            col.fail("C11.reference", case, f"reference r{j}[^{lab}] is missing")
            break
        r = frefs[k]
        k += 1
        fn = by_text[lab]
        if r.get("refid") not in fn["ids"] or r.astext() != labels[lab]:
            col.fail("C11.reference", case, f"reference r{j}[^{lab}] shows {r.astext()!r} and points at {r.get('refid')!r}; definition is {labels[lab]!r} {fn['ids']}")
            break
        if not set(r["ids"]) & set(fn.get("backrefs", [])):
            col.fail("C11.backrefs", case, f"definition [^{lab}] backrefs {fn.get('backrefs')} do not list reference ids {r['ids']}")
            break
    # placement
    top = [c for c in doc.children]
    if sort:
        tailn = []
        for c in reversed(top):
            if isinstance(c, nodes.footnote):
                tailn.append(c)
            else:
                break
        tailn.reverse()
        if len(tailn) != len(fns):
            col.fail("C11.collected", case, f"{len(fns)} footnotes, only {len(tailn)} at the end of the document")
        elif [int(f[0].astext()) for f in tailn if len(f)] != sorted(int(f[0].astext()) for f in tailn if len(f)):
            col.fail("C11.sorted", case, f"footnotes at the end are in label order {[f[0].astext() for f in tailn]}")
        ntr = sum(1 for c in top if isinstance(c, nodes.transition))
        others = [c for c in top if not isinstance(c, (nodes.footnote, nodes.transition, nodes.system_message))]
        want_tr = 1 if (transition and fns and others) else 0
        if ntr != want_tr + text.count("\n---\n"):
            col.fail("C11.transition", case, f"{ntr} transitions, expected {want_tr} before the collected footnotes",
                     function="myst_parser.mdit_to_docutils.transforms:CollectFootnotes.apply")
    else:
        # stay where written: the definitions are not all moved after the tail paragraph
        if tail and fns and isinstance(top[-1], nodes.footnote):
            col.fail("C11.unsorted-stay", case, "with sorting disabled a definition was moved to the end of the document")
    # warnings: duplicates and unreferenced: exactly one each
    dup = sum(1 for lab in set(defs) for _ in range(defs.count(lab) - 1))
    ndup = sum(1 for ln in lines if "Duplicate footnote definition" in ln)
    unref = [lab for lab in defined if lab not in refs]
    nunref = sum(1 for ln in lines if "is not referenced" in ln)
    if ndup != dup:
        col.fail("C11.duplicate-warning", case, f"{ndup} duplicate-definition warnings for {dup} duplicate definitions: {lines!r}")
    if nunref != len(unref):
        col.fail("C11.unreferenced-warning", case, f"{nunref} unreferenced warnings for {len(unref)} unreferenced definitions: {lines!r}")


def in_known(case):
    return None


def run(tier, seed, extra):
    col = Collector("C11", extra.get("known", ()))
    rng = random.Random(seed)
    t0 = time.time()
    cnt = 0
    labels = ["a", "b", "2", "note"]
    n = 3 if tier == "quick" else 4
    for k in range(1, n + 1):
        for refs in itertools.product(labels[:3], repeat=k):
            defs = sorted(set(refs), key=lambda x: -ord(x[0]))
            col.case(("refs", refs))
            check(col, refs, defs)
            cnt += 1
    for _ in range(150 if tier == "quick" else 4000):
        refs = [rng.choice(labels) for _ in range(rng.randint(0, 5))]
        defs = [rng.choice(labels) for _ in range(rng.randint(0, 4))]
        sort, tr = rng.random() < 0.7, rng.random() < 0.7
        head = rng.choice(["", "# Title\n\n", "[^a]: DEF-a-0\n\n" if False else ""])
        tail = rng.choice(["", "tail para\n", "## Sub\n\nmore\n"])
        col.case(("rand", tuple(refs), tuple(defs), sort, tr, head, tail))
        check(col, refs, defs, sort, tr, head, tail)
        cnt += 1
    # several manual numbers, one written with leading zeros: collected in ascending NUMERIC order (2, 007, 10)
    for defs in itertools.permutations(["2", "10", "007"]):
        for sort in (True, False):
            col.case(("numeric", defs, sort))
            check(col, list(defs), list(defs), sort, True)
            cnt += 1
    col.case(("name-clash",))
    check(col, ["a"], ["a"], head="# a\n\n")
    cnt += 1
    # first node of the document is a footnote definition (no heading), followed by other content
    from docutils import nodes

    for tr in (True, False):
        text = "[^x]: DEF first\n\npara r[^x]\n\nmore text\n"
        doc, lines = parse(text, {"myst_footnote_transition": tr, "doctitle_xform": False})
        ntr = sum(1 for c in doc.children if isinstance(c, nodes.transition))
        col.case(("first-node", tr))
        cnt += 1
        if ntr != (1 if tr else 0):
            col.fail("C11.transition", {"text": text, "transition": tr}, f"{ntr} transitions before the collected footnotes, expected {1 if tr else 0}",
                     function="myst_parser.mdit_to_docutils.transforms:CollectFootnotes.apply")
    col.add_bound("footnote numbering / linking / collection / warnings vs a reference model", f"{cnt} reference+definition sequences over labels {labels!r} (seed {seed})", cnt, time.time() - t0)
    return col.result()


def replay(col, case, check_name):
    if "text" in case:
        from docutils import nodes

        doc, lines = parse(case["text"], {"myst_footnote_transition": case["transition"], "doctitle_xform": False})
        ntr = sum(1 for c in doc.children if isinstance(c, nodes.transition))
        if ntr != (1 if case["transition"] else 0):
            col.fail("C11.transition", case, "still differs")
        return
    check(col, case["refs"], case["defs"], case.get("sort", True), case.get("transition", True), case.get("head", ""), case.get("tail", ""))
