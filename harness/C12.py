"""C12 run-time side (bounded): Sphinx cross-document links resolve to the right URI or warn exactly once."""
from __future__ import annotations

import posixpath
import random
import re
import time

from harness.common import Collector

DOCS = ["index", "a", "sub/b", "sub/deep/c", "other/d", "sub/api", "sub/api/inner"]
TITLES = {d: "Title " + d.replace("/", " ") for d in DOCS}


def make_project(links_by_doc):
    files = {}
    for d in DOCS:
        toc = "```{toctree}\n:hidden:\n" + "\n".join("/" + x for x in DOCS if x != "index") + "\n```\n" if d == "index" else ""
        body = f"# {TITLES[d]}\n\n{toc}\n(lbl-{d.replace('/', '-')})=\n## Section of {d.replace('/', ' ')}\n\ntext\n\n"
        for j, (text, dest) in enumerate(links_by_doc.get(d, [])):
            body += f"LINK{j} [{text}]({dest})\n\n"
        files[d + ".md"] = body
    files["sub/file.txt"] = "download me"
    files["data.csv"] = "a,b"
    return files


def expected(src_doc, dest):
    """-> ('doc', uri, title) | ('download',) | ('missing',) for a destination written in src_doc."""
    path, _, frag = dest.partition("#")
    base = posixpath.dirname(src_doc)
    if path.startswith("/"):
        target = posixpath.normpath(path[1:])
    else:
        target = posixpath.normpath(posixpath.join(base, path))
    if target.endswith(".md"):
        docname = target[:-3]
    else:
        docname = target
    if target.endswith((".txt", ".csv")):
        return ("download", target)
    if docname in DOCS and (path.endswith(".md") or True):
        uri = posixpath.relpath(docname + ".html", base or ".") if docname != src_doc else ""
        if frag or docname == src_doc:
            uri += "#" + frag
        return ("doc", uri, TITLES[docname])
    return ("missing", dest)


def check_project(col, links_by_doc):
    from harness.sphinx_util import build

    res = build(make_project(links_by_doc), conf="myst_heading_anchors = 2\n")
    warns = [re.sub(r"\x1b\[[0-9;]*m", "", w) for w in res["warnings"]]
    for d, links in links_by_doc.items():
        html = res["html"].get(d, "")
        for j, (text, dest) in enumerate(links):
            m = re.search(rf"<p>LINK{j} (.*?)</p>", html, re.S)
            case = {"doc": d, "text": text, "dest": dest}
            col.case((d, text, dest))
            if not m:
                col.fail("C12.rendered", case, "the paragraph of the link is missing from the HTML output")
                continue
            frag_html = m.group(1)
            exp = expected(d, dest)
            a = re.search(r'<a class="([^"]*)"[^>]*href="([^"]*)"[^>]*>(.*?)</a>', frag_html, re.S)
            shown = re.sub(r"<[^>]+>", "", a.group(3) if a else frag_html).strip()
            mine = []
            for w in warns:
                mm = re.search(r"src/(.*?)\.md:\d+: WARNING: .*?: '([^']*)' \[myst\.xref_missing\]", w)
                if mm and mm.group(1) == d and (mm.group(2) == dest or mm.group(2) == dest.split("#")[0] or mm.group(2).lstrip("/") == dest.split("#")[0].lstrip("/")):
                    mine.append(w)
            if exp[0] == "doc":
                if not a or a.group(2) != exp[1]:
                    col.fail("C12.uri", case, f"href {a.group(2) if a else None!r}, expected {exp[1]!r}", function="myst_parser.sphinx_ext.myst_refs:MystReferenceResolver.resolve_myst_ref_doc")
                want_text = text.replace("*", "") if text else (exp[2] if "#" not in dest else None)
                if want_text is not None and shown != want_text:
                    col.fail("C12.text", case, f"link text {shown!r}, expected {want_text!r}")
                if mine:
                    col.fail("C12.spurious-warning", case, f"resolved link also warns: {mine!r}")
            elif exp[0] == "download":
                if not a or "download" not in a.group(1) or not a.group(2).endswith(posixpath.basename(exp[1])):
                    col.fail("C12.download", case, f"expected a download link to {exp[1]}, got {a.group(0)[:120] if a else frag_html[:120]!r}",
                             function="myst_parser.mdit_to_docutils.sphinx_:SphinxRenderer.render_link_unknown")
            else:
                same = sum(1 for (_t, d2) in links if d2.split("#")[0].lstrip("/") == dest.split("#")[0].lstrip("/"))
                if len(mine) != same:
                    col.fail("C12.warn-once", case, f"{len(mine)} myst.xref_missing warnings for {same} link(s) to the destination: {[w[-120:] for w in warns if 'xref_missing' in w]!r}")
                if text and text.replace("*", "") not in shown:
                    col.fail("C12.text-kept", case, f"link text {shown!r} does not contain the explicit text")


def run(tier, seed, extra):
    col = Collector("C12", extra.get("known", ()))
    rng = random.Random(seed)
    t0 = time.time()
    nproj = 2 if tier == "quick" else 25
    for p in range(nproj):
        links = {}
        for d in DOCS:
            ls = []
            for _ in range(rng.randint(2, 5)):
                tgt = rng.choice(DOCS)
                form = rng.random()
                base = posixpath.dirname(d)
                rel = posixpath.relpath(tgt, base or ".")
                if form < 0.35:
                    dest = rel + ".md"
                elif form < 0.5:
                    dest = "/" + tgt + ".md"
                elif form < 0.65:
                    dest = rel + ".md#section-of-" + tgt.replace("/", "-")
                elif form < 0.75:
                    dest = rel  # extension-less
                elif form < 0.82:
                    dest = "/" + tgt  # extension-less, project-absolute
                elif form < 0.9:
                    dest = posixpath.relpath("sub/file.txt", base or ".")
                else:
                    dest = rng.choice(["nofile.md", "missing/x.md", "sub/nothere"])
                ls.append((rng.choice(["", "txt", "*em* t"]), dest))
            links[d] = ls
        check_project(col, links)
    col.add_bound("Sphinx: links between documents at directory depth 0-3 (relative, project-absolute, with heading anchors, extension-less, downloads, missing)",
                  f"{nproj} generated projects of {len(DOCS)} documents (incl. a page with a same-named sibling directory; seed {seed})", col.evaluations, time.time() - t0)
    return col.result()


def replay(col, case, check):
    check_project(col, {case["doc"]: [(case["text"], case["dest"])]})
