"""C13 run-time side (bounded): accept <=> documented type, canonical form, front matter = global, docutils strings."""
from __future__ import annotations

import copy
import itertools
import time

from harness.common import Collector

EXT = ["amsmath", "attrs_inline", "attrs_block", "colon_fence", "deflist", "dollarmath", "fieldlist", "html_admonition",
       "html_image", "linkify", "replacements", "smartquotes", "strikethrough", "substitution", "tasklist"]
JUNK = [None, True, False, 0, 1, 7, 8, -1, 2.5, "", "a", "dollarmath", [], ["a"], ["dollarmath"], ["dollarmath", "nope"], ("amsmath",), {"a"},
        {}, {"a": "b"}, {"a": 1}, {"http": None}, {"http": "x{{path}}"}, {"http": {"url": "u"}}, {"http": {"url": 1}}, {"http": {"title": "t"}},
        {1: "b"}, [1], ["{", "}"], ("{", "}"), ("ab", "c"), ("a",), [[]], {"k": {"classes": ["c"], "url": "u"}},
        # the three optional entries of a url scheme, each with a value of the wrong shape
        {"k": {"url": "u", "classes": [1, 2]}}, {"k": {"url": "u", "classes": "abc"}}, {"k": {"url": "u", "classes": ("c",)}},
        {"k": {"url": "u", "title": 3}}, {"k": {"url": "u", "title": "t", "classes": []}}]


def is_strs(v, kinds):
    return isinstance(v, kinds) and all(isinstance(x, str) for x in v)


def spec(field, v):
    """-> (accepted, canonical value) per the documented type of the option."""
    bools = {"commonmark_only", "gfm_only", "all_links_external", "links_external_new_tab", "title_to_header", "footnote_sort",
             "footnote_transition", "linkify_fuzzy_links", "dmath_allow_labels", "dmath_allow_space", "dmath_allow_digits",
             "dmath_double_inline", "update_mathjax"}
    if field in bools:
        return isinstance(v, bool), v
    if field == "enable_extensions":
        # "a collection of known extension names"; the emptiness of '' / {} is indistinguishable from an empty list
        try:
            ok = v is not None and not isinstance(v, (int, float)) and all(isinstance(x, str) and x in EXT for x in v)
        except TypeError:
            ok = False
        return ok, set(v) if ok else None
    if field == "fence_as_directive":
        ok = is_strs(v, (list, tuple, set))
        return ok, set(v) if ok else None
    if field in ("disable_syntax", "number_code_blocks"):
        return is_strs(v, (list, tuple)), v
    if field == "ref_domains":
        return v is None or is_strs(v, (list, tuple)), v
    if field == "heading_anchors":
        return (v is None) or (isinstance(v, int) and 0 <= v <= 7), v  # bool is an int in Python (True == 1)
    if field == "words_per_minute":
        # documented as "a positive integer" (bool is an int in Python: True == 1 is accepted, False == 0 is not)
        return isinstance(v, int) and v > 0, v
    if field == "html_meta":
        ok = isinstance(v, dict) and all(isinstance(k, str) and isinstance(x, str) for k, x in v.items())
        return ok, v
    if field == "substitutions":
        return isinstance(v, dict) and all(isinstance(k, str) for k in v), v
    if field == "sub_delimiters":
        ok = isinstance(v, (tuple, list)) and len(v) == 2 and all(isinstance(x, str) and len(x) == 1 for x in v)
        return ok, v
    if field == "url_schemes":
        if is_strs(v, (list, tuple)):
            return True, {k: None for k in v}
        if isinstance(v, dict):
            out = {}
            for k, x in v.items():
                if not isinstance(k, str):
                    return False, None
                if x is None:
                    out[k] = None
                elif isinstance(x, str):
                    out[k] = {"url": x}
                elif isinstance(x, dict) and isinstance(x.get("url", ""), str) and set(x) <= {"url", "title", "classes"} \
                        and isinstance(x.get("title", ""), str) and is_strs(x.get("classes", []), (list,)):
                    out[k] = x
                else:
                    return False, None
            return True, out
        return False, None
    raise KeyError(field)


FIELDS = ["commonmark_only", "footnote_sort", "enable_extensions", "fence_as_directive", "disable_syntax", "number_code_blocks", "ref_domains",
          "heading_anchors", "words_per_minute", "html_meta", "substitutions", "sub_delimiters", "url_schemes"]


def in_known(field, v):
    return None


def check_value(col, field, v):
    from myst_parser.config.main import MdParserConfig, merge_file_level

    want_ok, canon = spec(field, v)
    case = {"field": field, "value": repr(v)}
    try:
        cfg = MdParserConfig(**{field: copy.deepcopy(v)})
        got_ok = True
    except (TypeError, ValueError):
        got_ok = False
    except Exception as exc:  # noqa: BLE001
        col.fail("C13.accept", case, f"constructor raised {type(exc).__name__}: {exc}")
        return
    if got_ok != want_ok:
        col.fail("C13.accept", case, f"accepted={got_ok}, documented type says accepted={want_ok}", known=in_known(field, v),
                 function="myst_parser.config.main:MdParserConfig.__post_init__")
        return
    if got_ok and getattr(cfg, field) != canon:
        col.fail("C13.canonical", case, f"stored {getattr(cfg, field)!r}, canonical form is {canon!r}")
    # front matter: same effect as the global setting; invalid -> ignored with ONE topmatter warning; global untouched
    base = MdParserConfig(substitutions={"g": 1}, html_meta={"g": "1"})
    snap = copy.deepcopy({f: getattr(base, f) for f in base.__dataclass_fields__})
    warns = []
    try:
        new = merge_file_level(base, {"myst": {field: copy.deepcopy(v)}}, lambda t, m: warns.append((t, m)))
    except Exception as exc:  # noqa: BLE001
        col.fail("C13.frontmatter", case, f"merge_file_level raised {type(exc).__name__}: {exc}")
        return
    if {f: getattr(base, f) for f in base.__dataclass_fields__} != snap:
        col.fail("C13.global-untouched", case, "merge_file_level modified the global configuration", function="myst_parser.config.main:merge_file_level")
    if want_ok:
        expect = canon
        if field in ("substitutions", "html_meta"):
            expect = {**snap[field], **canon}
        if getattr(new, field) != expect or warns:
            col.fail("C13.frontmatter", case, f"front matter gives {getattr(new, field)!r} (warnings {warns!r}); the global setting gives {expect!r}",
                     known=in_known(field, v), function="myst_parser.config.main:merge_file_level")
        # the per-document config must still be a valid configuration (every field canonical)
        try:
            MdParserConfig(**{f: getattr(new, f) for f in new.__dataclass_fields__})
        except Exception as exc:  # noqa: BLE001
            col.fail("C13.frontmatter", case, f"merged configuration is not valid: {exc}")
    else:
        if getattr(new, field) != snap[field] or len(warns) != 1:
            col.fail("C13.frontmatter-invalid", case, f"invalid value: field is {getattr(new, field)!r} (global {snap[field]!r}), {len(warns)} warnings {warns!r}",
                     known=in_known(field, v), function="myst_parser.config.main:merge_file_level")


DOCUTILS_STRINGS = [
    ("enable_extensions", "dollarmath,amsmath", {"dollarmath", "amsmath"}), ("fence_as_directive", "a,b", {"a", "b"}),
    ("heading_anchors", "3", 3), ("footnote_sort", "no", False), ("commonmark_only", "yes", True), ("words_per_minute", "100", 100),
    ("url_schemes", "http,ftp", ["http", "ftp"]), ("url_schemes", "{http: null, gh: 'https://x/{{path}}'}", {"http": None, "gh": "https://x/{{path}}"}),
    ("html_meta", "{a: b}", {"a": "b"}), ("substitutions", "{k: v}", {"k": "v"}), ("disable_syntax", "emphasis,link", ["emphasis", "link"]),
("number_code_blocks", "python", ["python"]),
    # the same lists written with a space after the comma (the usual docutils spelling)
    ("url_schemes", "http, ftp", ["http", "ftp"]), ("enable_extensions", "dollarmath, amsmath", {"dollarmath", "amsmath"}),
    ("fence_as_directive", "a, b", {"a", "b"}), ("disable_syntax", "emphasis, link", ["emphasis", "link"]),
    ("number_code_blocks", "python, c", ["python", "c"]),
]


def check_docutils_strings(col):
    from docutils.frontend import OptionParser

    from myst_parser.config.main import MdParserConfig
    from myst_parser.parsers.docutils_ import Parser, create_myst_config

    for field, text, pyval in DOCUTILS_STRINGS:
        case = {"field": field, "docutils_string": text}
        col.case(("docutils", field, text))
        try:
            settings = OptionParser(components=(Parser,)).parse_args([f"--myst-{field.replace('_', '-')}={text}"])
            got = getattr(create_myst_config(settings), field)
            want = getattr(MdParserConfig(**{field: pyval}), field)
        except (Exception, SystemExit) as exc:  # noqa: BLE001
            col.fail("C13.entry-points", case, f"{type(exc).__name__}: {exc}")
            continue
        if got != want:
            col.fail("C13.entry-points", case, f"docutils setting string gives {got!r}; the same value as a python/conf value gives {want!r}")


def run(tier, seed, extra):
    col = Collector("C13", extra.get("known", ()))
    t0 = time.time()
    cnt = 0
    for field in FIELDS:
        for v in JUNK:
            col.case((field, repr(v)))
            check_value(col, field, v)
            cnt += 1
    col.add_bound("MdParserConfig / merge_file_level vs documented types and canonical forms", f"{len(FIELDS)} options x {len(JUNK)} values of every JSON/YAML shape", cnt, time.time() - t0)
    t0 = time.time()
    check_docutils_strings(col)
    col.add_bound("docutils setting strings vs python values", f"{len(DOCUTILS_STRINGS)} (option, string) pairs", len(DOCUTILS_STRINGS), time.time() - t0)
    return col.result()


def replay(col, case, check):
    if "docutils_string" in case:
        return check_docutils_strings(col)
    for v in JUNK:
        if repr(v) == case["value"]:
            check_value(col, case["field"], v)
