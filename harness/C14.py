"""C14 run-time side: executable contract of _is_suppressed_warning on small inputs, and the
document-level suppression relation on the docutils front end (bounded stand-in)."""
from __future__ import annotations

import itertools
import time

from harness.common import Collector, strings_upto
from harness.docutils_util import TAG_RE, parse, strip_system_messages, tags_of

M = "myst_parser.warnings_"

DOCS = [
    ("header", "# a\n\n### b\n", {}),
    ("role", "a {unknownrole}`x` b\n", {}),
    ("directive", "```{unknowndirective}\nbody\n```\n", {}),
    ("xref-text", "[text](#nope)\n", {}),
    ("xref-empty", "[](#nope)\n", {}),
    ("topmatter", "---\na: [\n---\n\ntext\n", {}),
    ("topmatter-myst", "---\nmyst:\n  unknown_field: 1\n---\n\ntext\n", {}),
    ("option", "```{note}\n:class: [\n\nx\n```\n", {}),
    ("option-unknown", "```{note}\n:nope: 1\n\nx\n```\n", {}),
    ("dupdef", "[a]: b\n\n[a]: c\n\n[a]\n", {}),
    ("footnote-dup", "x[^a]\n\n[^a]: one\n\n[^a]: two\n", {}),
    ("footnote-unref", "[^a]: one\n", {}),
    ("strike", "~~gone~~\n", {"myst_enable_extensions": ["strikethrough"]}),
    ("subst", "{{ nokey }}\n", {"myst_enable_extensions": ["substitution"]}),
    ("slug", "# a\n", {"myst_heading_anchors": 1, "myst_heading_slug_func": "harness.C14.bad_slug"}),
    ("two", "# a\n\n### b\n\n{unknownrole}`x` and [t](#nope)\n", {}),
    ("nested", "```{note}\n### inner {unknownrole}`x`\n```\n", {}),
]


def bad_slug(title):
    raise RuntimeError("slug failure")


def catalogue():
    from myst_parser.warnings_ import MystWarnings

    return {f"myst.{m.value}" for m in MystWarnings} | {"ref.footnote"}


def in_known(name, spelling, text=None):
    # empty-text '#target' link whose target is missing: the fallback text is added only when the warning is
    # suppressed (transforms.py appends the warning node to the reference before testing `refnode.children`)
    import re as _re

    if name == "xref-empty" or _re.search(r"\[\]\(#[^)]*\)", text or ""):
        return "C14-xref-fallback-text"
    # a warning raised while rendering heading text is appended inside the title/rubric, and the heading's
    # implicit name/id is computed from astext() of all its children - the warning text included
    import re

    if re.search(r"^#+ .*\{unknownrole\}", text or "", re.M):
        return "C14-heading-id-includes-warning"
    return None


def check_doc(col, name, text, ov):
    cat = catalogue()
    # docutils' own DocTitle transform promotes a lone section to the document title, so *any* sibling node
    # (a system message included) changes the promoted structure; that is docutils behaviour, switched off here
    ov = dict(ov, doctitle_xform=False)
    doc0, lines0 = parse(text, ov)
    tags0 = tags_of(lines0)
    for ln, t in zip(lines0, tags0):
        if t is not None and t.split(".")[0] in ("myst", "ref") and t not in cat:
            col.fail("C14.catalogue", {"doc": name, "text": text}, f"tag outside the catalogue emitted: {ln}")
    present = sorted({t for t in tags0 if t})
    spellings = []
    for t in present:
        ty = t.split(".")[0]
        spellings += [(t, lambda x, t=t: x == t), (ty, lambda x, ty=ty: x is not None and x.split(".")[0] == ty),
                      (ty + ".*", lambda x, ty=ty: x is not None and x.split(".")[0] == ty)]
    spellings.append(("myst.no_such_tag", lambda x: False))
    spellings.append(("other", lambda x: False))
    n = 0
    for spelling, hit in spellings:
        n += 1
        ov1 = dict(ov)
        ov1["myst_suppress_warnings"] = [spelling]
        doc1, lines1 = parse(text, ov1)
        want_lines = [ln for ln, t in zip(lines0, tags0) if not hit(t)]
        case = {"doc": name, "text": text, "suppress": spelling, "overrides": {k: v for k, v in ov.items()}}
        if lines1 != want_lines:
            col.fail("C14.suppress/log", case, f"log with suppress={spelling!r}: {lines1!r}; expected {want_lines!r}",
                     known=in_known(name, spelling, text))
        doc0b, _ = parse(text, ov)

        def tagged(msg):
            m = TAG_RE.search(msg)
            return bool(m) and hit(f"{m.group(1)}.{m.group(2)}")

        want_tree = strip_system_messages(doc0b, tagged).pformat()
        if doc1.pformat() != want_tree:
            col.fail("C14.suppress/doctree", case,
                     "doctree with the tag suppressed differs from the unsuppressed doctree minus the tagged system messages",
                     known=in_known(name, spelling, text))
    return n


def run(tier, seed, extra):
    col = Collector("C14", extra.get("known", ()))
    from harness import funcheck

    funcheck.load_contracts(["contracts.warnings"])
    target = f"{M}:_is_suppressed_warning"
    for w in extra.get("witnesses", []):
        res = funcheck.replay_witness(":".join(w["oid"].split(":")[:2]), w.get("witness"))
        for kind, clause, msg in res or []:
            col.fail(f"contract/{kind}[{clause}]", {"function": target, "witness": w.get("witness")}, msg, function=target, oid=w["oid"])
    # function level: all (type, subtype, [w]) over a small alphabet
    t0 = time.time()
    cnt = 0
    alpha = ["a", ".", "*", "b"]
    words = list(strings_upto(alpha, 3 if tier == "quick" else 4))
    types = [t for t in strings_upto(["a", "b"], 2, 1)]
    for ty in types:
        for sub in ["a", "b", "*", "a.b", ""]:
            for w1 in words:
                for rest in ([], ["zz"], ["a"]):
                    kwargs = dict(type=ty, subtype=sub, suppress_warnings=rest + [w1])
                    res = funcheck.check_call(target, kwargs)
                    if res is None:
                        continue
                    cnt += 1
                    col.case((ty, sub, w1, len(rest)))
                    for kind, clause, msg in res:
                        col.fail(f"contract/{kind}[{clause}]", {"function": target, "args": kwargs}, msg, function=target,
                                 oid=f"{target}:{kind}[{clause}]")
    col.add_bound("_is_suppressed_warning against its executable contract (the three documented spellings)",
                  f"types over {{a,b}} <= 2, subtypes in 5 forms, suppress entries of length <= {3 if tier == 'quick' else 4} over {alpha!r}", cnt, time.time() - t0)
    # document level
    t0 = time.time()
    cnt = 0
    for name, text, ov in DOCS:
        col.case(("doc", name))
        cnt += check_doc(col, name, text, ov)
    col.add_bound("suppression relation on the docutils front end", f"{len(DOCS)} documents x every emitted tag in 3 spellings + 2 unrelated tags", cnt, time.time() - t0)
    return col.result()


def replay(col, case, check):
    from harness import funcheck

    funcheck.load_contracts(["contracts.warnings"])
    if "text" in case:
        check_doc(col, case.get("doc", "witness"), case["text"], case.get("overrides") or {})
    elif "args" in case:
        for kind, clause, msg in funcheck.check_call(case["function"], case["args"]) or []:
            col.fail(f"contract/{kind}[{clause}]", case, msg)
