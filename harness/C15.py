"""C15 run-time side (bounded): the output for a document does not depend on what was parsed before it, on reuse of
the configuration object, or (Sphinx) on serial vs parallel reading."""
from __future__ import annotations

import copy
import json
import os
import random
import re
import subprocess
import sys
import time

from harness.common import Collector

ITEMS = [
    ("plain", "# A\n\ntext [l](#a)\n", {"myst_heading_anchors": 2}),
    ("fm-ext", "---\nmyst:\n  enable_extensions: [dollarmath, strikethrough]\n---\n\n$a$ ~~b~~\n", {}),
    ("math", "$a$ ~~b~~ <img src=\"x.png\">\n", {}),
    ("fm-schemes", "---\nmyst:\n  url_schemes: [ftp]\n  fence_as_directive: [note]\n---\n\n<ftp://x> <https://y>\n\n```note\nx\n```\n", {}),
    ("schemes", "<ftp://x> <https://y>\n\n```note\nx\n```\n", {}),
    ("include-like", "```{note}\n:class: a\n\nbody\n```\n\n```{eval-rst}\n.. role:: xx(emphasis)\n\n:xx:`t`\n```\n", {}),
    ("role-use", "{xx}`later` and `code`\n", {}),
    ("subst", "---\nmyst:\n  substitutions: {k: v}\n---\n\n{{ k }}\n", {"myst_enable_extensions": ["substitution"]}),
    ("subst2", "{{ k }}\n", {"myst_enable_extensions": ["substitution"]}),
    ("footnotes", "a[^1] b[^x]\n\n[^x]: X\n[^1]: one\n", {}),
    ("html", "<div class=\"admonition\">\n<p>x</p>\n</div>\n\n<img src=\"a.png\" alt=\"t\">\n", {"myst_enable_extensions": ["html_admonition", "html_image"]}),
    ("anchors", "# a\n\n# a\n\n# a\n\n[](#a-2)\n", {"myst_heading_anchors": 1}),
    ("inv", "<inv:#x*>\n", {}),
    ("meta", "---\nmyst:\n  html_meta: {k: v}\n  title_to_header: true\ntitle: T\n---\n\ntext\n", {}),
]

CHILD = r'''
import sys, json
sys.path.insert(0, %r)
from harness.C15 import ITEMS, render
name = sys.argv[1]
item = [i for i in ITEMS if i[0] == name][0]
print(json.dumps(render(item)))
'''


def render(item):
    from harness.docutils_util import parse

    _name, text, ov = item
    doc, lines = parse(text, dict(ov, doctitle_xform=False))
    return [doc.pformat(), lines]


def fresh(name):
    root = os.path.dirname(os.path.dirname(os.path.abspath(__file__)))
    env = dict(os.environ, PYTHONHASHSEED="0")
    p = subprocess.run([sys.executable, "-c", CHILD % root, name], capture_output=True, text=True, env=env, timeout=120)
    if p.returncode != 0:
        return ["<crash>", [p.stderr[-300:]]]
    return json.loads(p.stdout.strip().splitlines()[-1])


def check_merge_pure(col):
    from myst_parser.config.main import MdParserConfig, merge_file_level

    tops = [
        {"myst": {"enable_extensions": ["dollarmath"]}}, {"myst": {"enable_extensions": ["dollarmath", "nope"]}},
        {"myst": {"url_schemes": ["http"]}}, {"myst": {"url_schemes": {"http": None}}}, {"myst": {"fence_as_directive": ["a"]}},
        {"myst": {"substitutions": {"a": 1}}, "substitutions": {"b": 2}, "html_meta": {"k": "v"}}, {"myst": {"heading_anchors": "x"}},
        {"myst": {"suppress_warnings": ["a"]}}, {"myst": 3}, {"myst": {"unknown": 1, "footnote_sort": False}},
    ]
    for top in tops:
        cfg = MdParserConfig(substitutions={"z": 0})
        before = copy.deepcopy({f: getattr(cfg, f) for f in cfg.__dataclass_fields__})
        top0 = copy.deepcopy(top)
        merge_file_level(cfg, top, lambda *a: None)
        after = {f: getattr(cfg, f) for f in cfg.__dataclass_fields__}
        col.case(("merge", json.dumps(top0, sort_keys=True)))
        if after != before:
            diff = {k: (before[k], after[k]) for k in before if before[k] != after[k]}
            col.fail("C15.config-reuse", {"topmatter": top0}, f"merge_file_level modified the global configuration object: {diff!r}",
                     function="myst_parser.config.main:merge_file_level")


SPHINX_DOCS = {
    "index.md": "# Index\n\n```{toctree}\n:glob:\n*\n```\n",
    "a.md": "# A\n\n```{figure-md} fig\n![i](x.png)\n\ncaption\n```\n",
    "b.md": "# B\n\n<img src=\"y.png\" alt=\"raw html image\">\n",
    "c.md": "---\nmyst:\n  enable_extensions: [dollarmath]\n  url_schemes: [ftp]\n---\n\n# C\n\n$x$ <ftp://q>\n",
    "d.md": "# D\n\n$x$ <ftp://q> <https://r>\n",
    "e.md": "# E\n\n[b](b.md) [](#d) {ref}`fig`\n",
    "f.md": "# F\n\n```{note}\nn\n```\n\n~~s~~\n",
    "g.md": "# G\n\n[^1]\n\n[^1]: note\n",
}


def clean(lines, src):
    out = []
    for ln in lines:
        ln = re.sub(r"\x1b\[[0-9;]*m", "", ln).replace(src, "<src>")
        out.append(ln)
    return sorted(out)


def check_sphinx(col, tier):
    from harness.sphinx_util import build

    full = build(SPHINX_DOCS, keep=False)
    src = full["srcdir"]
    n = 0
    # each document alone (plus index) must give the same doctree as in the full serial build
    for name in sorted(SPHINX_DOCS):
        if name == "index.md":
            continue
        docname = name[:-3]
        alone = build({"index.md": SPHINX_DOCS["index.md"], name: SPHINX_DOCS[name], **({"b.md": SPHINX_DOCS["b.md"], "d.md": SPHINX_DOCS["d.md"], "a.md": SPHINX_DOCS["a.md"]} if name == "e.md" else {})})
        a, b = alone["doctrees"].get(docname, "").replace(alone["srcdir"], "<src>"), full["doctrees"].get(docname, "").replace(src, "<src>")
        n += 1
        col.case(("sphinx-alone", name))
        if a != b:
            col.fail("C15.sphinx-history", {"doc": name}, "doctree of the document differs between a build of the whole project and a build without the other documents",
                     function="myst_parser.sphinx_ext.directives:FigureMarkdown.run")
    # identical when parsed repeatedly: two builds of the same project
    amsdocs = {"index.md": "# I\n\n\\begin{equation}\na=1\n\\end{equation}\n"}
    b1, b2 = build(amsdocs, conf="myst_enable_extensions=['amsmath']\n"), build(amsdocs, conf="myst_enable_extensions=['amsmath']\n")
    col.case(("sphinx-repeat", "amsmath"))
    if b1["doctrees"]["index"].replace(b1["srcdir"], "") != b2["doctrees"]["index"].replace(b2["srcdir"], ""):
        col.fail("C15.repeat", {"doc": "amsmath"}, "two builds of the same document give different doctrees (equation label/id)", known="C15-uuid-label",
                 function="myst_parser.mdit_to_docutils.sphinx_:SphinxRenderer._random_label")
    par = build(SPHINX_DOCS, parallel=4)
    col.case(("sphinx-parallel", 4))
    for docname in full["doctrees"]:
        if full["doctrees"][docname].replace(src, "<src>") != par["doctrees"].get(docname, "").replace(par["srcdir"], "<src>"):
            col.fail("C15.sphinx-parallel", {"doc": docname}, "doctree differs between -j1 and -j4")
    if clean(full["warnings"], src) != clean(par["warnings"], par["srcdir"]):
        col.fail("C15.sphinx-parallel", {"doc": "*"}, f"warnings differ between -j1 and -j4: {clean(full['warnings'], src)!r} vs {clean(par['warnings'], par['srcdir'])!r}")
    for docname in full["html"]:
        if full["html"][docname] != par["html"].get(docname):
            col.fail("C15.sphinx-parallel", {"doc": docname}, "written HTML differs between -j1 and -j4")
    return n + 1


def run(tier, seed, extra):
    col = Collector("C15", extra.get("known", ()))
    rng = random.Random(seed)
    t0 = time.time()
    base = {name: fresh(name) for name, _t, _o in ITEMS}
    cnt = 0
    nseq = 12 if tier == "quick" else 200
    for _ in range(nseq):
        seq = rng.sample(ITEMS, rng.randint(2, len(ITEMS)))
        if rng.random() < 0.5:
            seq = seq + [seq[0]]  # the same document again
        for i, item in enumerate(seq):
            got = render(item)
            cnt += 1
            col.case(("hist", tuple(x[0] for x in seq[: i + 1])))
            if got != base[item[0]]:
                col.fail("C15.history", {"history": [x[0] for x in seq[: i + 1]]},
                         f"output of {item[0]!r} after this history differs from its output in a fresh process",
                         known="C15-docutils-role-registry" if item[0] == "role-use" else None)
                break
    col.add_bound("docutils front end: output after any history = output in a fresh process",
                  f"{nseq} random histories over {len(ITEMS)} (document, configuration) items incl. repeats (seed {seed})", cnt, time.time() - t0)
    t0 = time.time()
    check_merge_pure(col)
    col.add_bound("merge_file_level leaves the global configuration object unchanged", "10 front-matter dictionaries (valid, invalid, coercing fields)", 10, time.time() - t0)
    t0 = time.time()
    n = check_sphinx(col, tier)
    col.add_bound("Sphinx: each document alone vs whole project; -j1 vs -j4 (doctrees, HTML, warnings)", f"one generated project of {len(SPHINX_DOCS)} documents", n, time.time() - t0)
    return col.result()


def replay(col, case, check):
    if "history" in case:
        by = {i[0]: i for i in ITEMS}
        last = None
        for n in case["history"]:
            last = (n, render(by[n]))
        if last and last[1] != fresh(last[0]):
            col.fail("C15.history", case, "still differs")
    elif "topmatter" in case:
        check_merge_pure(col)
    elif "extensions" in case:
        check_sphinx(col, "quick")
    else:
        check_sphinx(col, "quick")
