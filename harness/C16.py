"""C16 run-time side (bounded): HTML-to-AST parser totality, tree consistency, exact round trip on
grammar-generated well-formed HTML, strip/copy purity, find vs an independent filter."""
from __future__ import annotations

import random
import time

from harness.common import Collector, strings_upto

SOUP = ["<", ">", "/", "a", "!", "-", "?", "&", "#", ";", '"', "=", " ", "[", "b", "1"]
VOID = ["br", "img", "hr", "input", "area", "base", "col", "embed", "link", "meta", "param", "source", "track", "wbr"]   # every HTML void element
TAGS = ["div", "p", "span", "a", "b"]


def snapshot(el):
    """Structure + content of a tree, without using walk/render of the code under test."""
    from myst_parser.parsers import parse_html as P

    kids = [snapshot(c) for c in el._children]
    return (type(el).__name__, el.name, tuple(sorted(el.attrs.items())), getattr(el, "data", None), tuple(kids))


def check_tree(col, text, root, case):
    from myst_parser.parsers import parse_html as P

    seen = {}
    stack = [root]
    total = 0
    while stack:
        e = stack.pop()
        total += 1
        if id(e) in seen:
            col.fail("C16.tree/once", case, f"element {e!r} occurs twice in the tree")
            return
        seen[id(e)] = e
        for c in e._children:
            if c._parent is not e:
                col.fail("C16.tree/parent", case, f"child {c!r} of {e!r} has parent {c._parent!r}")
            stack.append(c)
    walked = list(root.walk(include_self=True))
    if len(walked) != total or len({id(w) for w in walked}) != total:
        col.fail("C16.tree/walk", case, f"walk() yields {len(walked)} elements ({len({id(w) for w in walked})} distinct), tree has {total}")


def check_total(col, text):
    from myst_parser.parsers.parse_html import tokenize_html

    case = {"text": text}
    try:
        root = tokenize_html(text)
    except Exception as exc:  # noqa: BLE001
        col.fail("C16.total", case, f"tokenize_html raised {type(exc).__name__}: {exc}",
                 known="C16-marked-section" if "<![" in text else None, function="myst_parser.parsers.parse_html:tokenize_html")
        return None
    check_tree(col, text, root, case)
    return root


def gen_attrs(rng):
    out = []
    for k in rng.sample(["class", "id", "src", "alt", "data-x", "title"], rng.randint(0, 3)):
        v = rng.choice(["", "a", "a b", "x.png", "1", "é", "a&amp;b", "a'b", "=", "  "])
        out.append(f'{k}="{v}"')
    return (" " + " ".join(out)) if out else ""


def gen_html(rng, depth=0):
    parts = []
    for _ in range(rng.randint(0, 3 if depth else 4)):
        r = rng.random()
        if r < 0.3 and depth < 3:
            t = rng.choice(TAGS)
            parts.append(f"<{t}{gen_attrs(rng)}>{gen_html(rng, depth + 1)}</{t}>")
        elif r < 0.4:
            parts.append(f"<{rng.choice(VOID)}{gen_attrs(rng)}>")
        elif r < 0.5:
            parts.append(f"<{rng.choice(VOID + TAGS)}{gen_attrs(rng)}/>")
        elif r < 0.6:
            parts.append(f"<!--{rng.choice(['', ' c ', 'a-b', '<p>'])}-->")
        elif r < 0.65:
            parts.append(rng.choice(["<!DOCTYPE html>", "<?xml-stylesheet href='a'?>", "<?php x ?>"]))
        elif r < 0.75:
            parts.append(rng.choice(["&amp;", "&#38;", "&#x26;", "&nbsp;", "&lt;"]))
        else:
            parts.append(rng.choice(["text", " ", "\n", "a b", "  x  ", "é", "1 < 2".replace("<", "&lt;")]))
    return "".join(parts)


def check_roundtrip(col, text):
    root = check_total(col, text)
    if root is None:
        return
    case = {"html": text}
    out = str(root)
    if out != text:
        import re

        # the stdlib parser hands attribute values over already unescaped, so a reference inside an
        # attribute value cannot be reproduced
        k = "C16-attr-entity" if re.search(r'="[^"]*&', text) else None
        col.fail("C16.roundtrip", case, f"rendered {out!r} != input {text!r}", known=k, function="myst_parser.parsers.parse_html:Element.render")
    from myst_parser.parsers import parse_html as P

    # strip / copy never alter the original
    before = snapshot(root)
    for kw in (dict(inplace=False, recurse=False), dict(inplace=False, recurse=True)):
        cp = root.strip(**kw)
        if snapshot(root) != before:
            col.fail("C16.strip-pure", case, f"strip({kw}) altered the original", function="myst_parser.parsers.parse_html:Element.strip")
            return
        check_tree(col, text, cp, case)
        # result = copy without whitespace-only Data (at the top level, or everywhere with recurse)
        def want(s, top=True, rec=kw["recurse"]):
            kids = [k for k in s[4] if not (k[0] == "Data" and (k[3] or "").strip() == "")] if (top or rec) else list(s[4])
            return (s[0], s[1], s[2], s[3], tuple(want(k, False) for k in kids))
        if snapshot(cp) != want(before):
            col.fail("C16.strip-result", case, f"strip({kw}) result is not the original minus whitespace-only data",
                     function="myst_parser.parsers.parse_html:Element.strip")
    cp = root.deepcopy()
    if snapshot(root) != before or snapshot(cp) != before or cp is root:
        col.fail("C16.copy", case, "deepcopy altered the original or is not an equal fresh tree")
    # ... and nothing of a copy is shared with the original: editing the copy (attributes, children, data) leaves the original alone
    for make in (lambda: root.deepcopy(), lambda: root.strip(inplace=False, recurse=True), lambda: root.strip(inplace=False, recurse=False)):
        cp = make()
        todo = [cp]
        while todo:
            e = todo.pop()
            e.attrs["zz-edited"] = "1"
            for k in list(e.attrs):
                e.attrs[k] = "edited"
            if hasattr(e, "data") and isinstance(getattr(e, "data", None), str):
                try:
                    e.data = "edited"
                except AttributeError:
                    pass
            todo.extend(e._children)
            if e._children:
                e._children.reverse()
        if snapshot(root) != before:
            col.fail("C16.copy-shares", case, "editing a copy (deepcopy / strip) changed the original: something is shared",
                     function="myst_parser.parsers.parse_html:Element.deepcopy")
            break
    # find = exactly the matching elements in document order
    allel = []

    def pre(e):
        for c in e._children:
            allel.append(c)
            pre(c)

    pre(root)
    for ident in TAGS[:3] + VOID[:2] + [P.Data, P.Comment]:
        got = list(root.find(ident))
        wnt = [e for e in allel if (isinstance(e, ident) if isinstance(ident, type) else e.name == ident)]
        if [id(x) for x in got] != [id(x) for x in wnt]:
            col.fail("C16.find", case, f"find({ident!r}) returned {got!r}, expected {wnt!r}", function="myst_parser.parsers.parse_html:Element.find")
    got = list(root.find("div", classes=["a"]))
    wnt = [e for e in allel if e.name == "div" and "a" in e.attrs.get("class", "").split()]
    if [id(x) for x in got] != [id(x) for x in wnt]:
        col.fail("C16.find", case, f"find('div', classes=['a']) returned {got!r}, expected {wnt!r}")
    got = list(root.find("img", attrs={"src": "x.png"}))
    wnt = [e for e in allel if e.name == "img" and e.attrs.get("src", "") == "x.png"]
    if [id(x) for x in got] != [id(x) for x in wnt]:
        col.fail("C16.find", case, f"find('img', attrs) returned {got!r}, expected {wnt!r}")


def run(tier, seed, extra):
    col = Collector("C16", extra.get("known", ()))
    rng = random.Random(seed)
    t0 = time.time()
    cnt = 0
    n = 3 if tier == "quick" else 4
    for s in strings_upto(SOUP, n):
        col.case(s, nontrivial=bool(s))
        check_total(col, s)
        cnt += 1
    for _ in range(2000 if tier == "quick" else 40000):
        s = "".join(rng.choice(SOUP + ["<a", "</a>", "<br>", "<![CDATA[", "]]>", "<!--", "-->"]) for _ in range(rng.randint(4, 24)))
        col.case(s)
        check_total(col, s)
        cnt += 1
    col.add_bound("tokenize_html totality + tree consistency", f"all strings of length <= {n} over {SOUP!r} + random markup soup (seed {seed})", cnt, time.time() - t0)
    t0 = time.time()
    cnt = 0
    for _ in range(1500 if tier == "quick" else 30000):
        h = gen_html(rng)
        col.case(h, nontrivial=bool(h))
        check_roundtrip(col, h)
        cnt += 1
    col.add_bound("round trip / strip / copy / find on grammar-generated well-formed HTML", f"{cnt} documents (seed {seed})", cnt, time.time() - t0)
    return col.result()


def replay(col, case, check):
    if "html" in case:
        check_roundtrip(col, case["html"])
    else:
        check_total(col, case["text"])
