"""C17 run-time side (bounded): raw pass-through, <img>/<div.admonition> = directives, GFM tag filter."""
from __future__ import annotations

import difflib
import itertools
import random
import re
import time

from harness.common import Collector
from harness.docutils_util import parse

DISALLOWED = "iframe|noembed|noframes|plaintext|script|style|title|textarea|xmp".split("|")
OPENS = re.compile(r"<\/?(%s)(?=[\t\n\f\r />])" % "|".join(DISALLOWED), re.IGNORECASE)
EXT_SETS = [[], ["html_image"], ["html_admonition"], ["html_image", "html_admonition"]]

PASS_BLOCKS = [
    "<div>\n\ntext\n\n</div>", "<p>para &amp; <b>x</b></p>", "<!-- comment -->", "<table><tr><td>1</td></tr></table>", "<div class=\"note\">n</div>",
    "<img src=\"a.png\"><p>mixed</p>", "<hr/>", "<?php echo 1 ?>", "<!DOCTYPE html>", "<div\n  class=\"x\">\n</div>", "<span>  spaced   </span>",
"<section>\n<h1>t</h1>\n</section>", "<![ bad", "<div></div", "</div>",
]
PASS_INLINE = ["a <b>bold</b> c", "x <span class=\"y\">z</span>", "q <br> r", "e <img src=\"i.png\"> f", "<kbd>k</kbd>"]


def norm(p):
    return re.sub(r' (line|source)="[^"]*"', "", p)


def check_passthrough(col, html, exts, inline=False):
    """Every html_block / html_inline token of the source that is not a convertible form must reach the doctree
    as a raw html node with exactly the token's text."""
    from docutils import nodes
    from markdown_it import MarkdownIt

    case = {"html": html, "extensions": exts, "inline": inline}
    doc, lines = parse(html + "\n", {"myst_enable_extensions": exts, "doctitle_xform": False})
    got = [r.astext() for r in doc.findall(nodes.raw) if "html" in r.get("format", "")]
    want = []
    for t in MarkdownIt("commonmark").parse(html + "\n"):
        if t.type == "html_block":
            c = t.content
            if "html_image" in exts and re.fullmatch(r"(\s*<img[^>]*>\s*)+", c):
                continue
            if "html_admonition" in exts and re.match(r'\s*<div class="admonition', c):
                continue
            want.append(c)
        for ch in t.children or []:
            if ch.type == "html_inline":
                if "html_image" in exts and ch.content.startswith("<img"):
                    continue
                want.append(ch.content)
    if [g.rstrip("\n") for g in got] != [w.rstrip("\n") for w in want]:
        col.fail("C17.passthrough", case, f"raw html nodes {got!r} != html tokens of the source {want!r}",
                 function="myst_parser.mdit_to_docutils.html_to_nodes:html_to_nodes")


def check_img(col, attrs):
    from docutils import nodes

    html = "<img " + " ".join(f'{k}="{v}"' for k, v in attrs.items()) + ">"
    opts = "\n".join(f":{k}: {v}" for k, v in sorted(attrs.items()) if k != "src" and k in ("class", "alt", "height", "width", "align", "name"))
    directive = "```{image} " + attrs.get("src", "") + "\n" + opts + "\n```"
    case = {"img": attrs}
    d1, l1 = parse(html + "\n", {"myst_enable_extensions": ["html_image"], "doctitle_xform": False})
    d2, l2 = parse(directive + "\n", {"doctitle_xform": False})
    if norm(d1.pformat()) != norm(d2.pformat()):
        known = "C17-attr-roundtrip" if any(c in str(v) for v in attrs.values() for c in "\n:#\"'|") or any(v != v.strip() or v == "" for v in attrs.values()) else None
        col.fail("C17.img-equivalence", case, "<img> and the image directive differ: " + "".join(difflib.unified_diff(norm(d2.pformat()).splitlines(True), norm(d1.pformat()).splitlines(True)))[:500], known=known,
                 function="myst_parser.mdit_to_docutils.html_to_nodes:html_to_nodes")
    imgs = list(d1.findall(nodes.image))
    if imgs and "alt" in attrs and imgs[0].get("alt") != attrs["alt"]:
        known = "C17-attr-roundtrip" if any(c in attrs["alt"] for c in "\n:#\"'|") or attrs["alt"] != attrs["alt"].strip() else None
        col.fail("C17.img-values", case, f"image[alt] = {imgs[0].get('alt')!r}, attribute value {attrs['alt']!r}", known=known)


def check_admonition(col, title, body_md, classes=""):
    html = f'<div class="admonition {classes}">\n' + (f'<p class="title">{title}</p>\n' if title is not None else "") + body_md + "\n</div>"
    # the documented conversion: each top-level <p>inner</p> of the block is the Markdown paragraph `inner`
    flat = re.sub(r"<p>(.*?)</p>\n?", lambda m: m.group(1) + "\n\n", body_md, flags=re.S).strip()
    directive = "```{admonition} " + (title if title is not None else "Note") + "\n:class: " + ("admonition " + classes).strip() + "\n\n" + flat + "\n```"
    case = {"admonition_title": title, "body": body_md, "classes": classes}
    d1, l1 = parse(html + "\n", {"myst_enable_extensions": ["html_admonition"], "doctitle_xform": False})
    d2, l2 = parse(directive + "\n", {"doctitle_xform": False})
    if norm(d1.pformat()) != norm(d2.pformat()):
        col.fail("C17.admonition-equivalence", case, "HTML spelling and directive spelling differ: " + "".join(difflib.unified_diff(norm(d2.pformat()).splitlines(True), norm(d1.pformat()).splitlines(True)))[:500],
                 function="myst_parser.mdit_to_docutils.html_to_nodes:html_to_nodes")


def gfm_raws(text, exts=()):
    from docutils import nodes

    from myst_parser.config.main import MdParserConfig
    from myst_parser.mdit_to_docutils.base import DocutilsRenderer, make_document
    from myst_parser.parsers.mdit import create_md_parser

    config = MdParserConfig(gfm_only=True, enable_extensions=set(exts))
    md = create_md_parser(config, DocutilsRenderer)
    try:
        import linkify_it  # noqa: F401
    except ImportError:
        md.disable("linkify")
        md.options["linkify"] = False
    document = make_document()
    # (make_document is a bare docutils document: the MyST parser's own settings are not registered on it; the warning
    #  API reads this one when the HTML cannot be parsed)
    document.settings.myst_suppress_warnings = []
    md.options["document"] = document
    md.render(text)
    return [n.astext() for n in document.findall(nodes.raw) if "html" in n["format"]]


def check_gfm(col, text, exts=()):
    case = {"gfm_text": text, "exts": list(exts)}
    try:
        raws = gfm_raws(text, exts)
    except Exception as exc:  # noqa: BLE001
        col.fail("C17.gfm", case, f"{type(exc).__name__}: {exc}")
        return
    for raw in raws:
        m = OPENS.search(raw)
        if m:
            col.fail("C17.gfm-filter", case, f"raw node {raw!r} still opens/closes <{m.group(1)}>", function="myst_parser.mdit_to_docutils.html_to_nodes:html_to_nodes")
            return


def run(tier, seed, extra):
    col = Collector("C17", extra.get("known", ()))
    rng = random.Random(seed)
    t0 = time.time()
    cnt = 0
    for html in PASS_BLOCKS:
        for exts in EXT_SETS:
            col.case(("pass", html, tuple(exts)))
            check_passthrough(col, html, exts)
            cnt += 1
    for html in PASS_INLINE:
        for exts in EXT_SETS:
            col.case(("inline", html, tuple(exts)))
            check_passthrough(col, html, exts, inline=True)
            cnt += 1
    col.add_bound("non-convertible HTML reaches the output verbatim as raw html under every HTML-extension subset", f"{len(PASS_BLOCKS)} blocks + {len(PASS_INLINE)} inline snippets x 4 extension subsets", cnt, time.time() - t0)
    t0 = time.time()
    cnt = 0
    vals = ["a.png", "x y.png", "alt text", "100", "50%", "left", "c1 c2", "é"] + (["a:b", "q\"r", " pad "] if tier != "quick" else ["a:b"])
    keys = ["alt", "width", "height", "align", "class", "name", "title", "id"]
    for _ in range(120 if tier == "quick" else 3000):
        attrs = {"src": rng.choice(["a.png", "d/e.jpg", "x y.png", "http://h/i.png"])}
        for k in rng.sample(keys, rng.randint(0, 3)):
            attrs[k] = {"width": rng.choice(["100", "50%", "10px"]), "height": rng.choice(["100", "2em"]), "align": rng.choice(["left", "center", "right"]),
                        "class": rng.choice(["c1", "c1 c2"]), "name": rng.choice(["n1", "fig-a"])}.get(k, rng.choice(vals))
        col.case(("img", tuple(sorted(attrs.items()))))
        check_img(col, attrs)
        cnt += 1
    bodies = ["text", "*em* and `code`", "<p>para one</p>\n<p><em>a</em> <b>b</b></p>", "<p>x &lt; y &amp; z</p>", "- item\n- two",
              "<p><em>a</em> <b>b</b> &amp; <i>c</i></p>", "<p>line1\nline2</p>", "<p>a</p>\n<p>&lt; &gt;</p>"]
    for title, body, cl in itertools.product([None, "My Title", "T *x*"], bodies, ["", "warning"]):
        col.case(("adm", title, body, cl))
        check_admonition(col, title, body, cl)
        cnt += 1
    col.add_bound("<img> / <div class=admonition> vs the equivalent directive", f"{cnt} generated elements (seed {seed})", cnt, time.time() - t0)
    t0 = time.time()
    cnt = 0
    for tag in DISALLOWED:
        for form in ("<div>\n<{t}>x</{t}>\n</div>", '<div>\n<{t} src="x">y</{t}>\n</div>', "<div>\n<{T}\n>y</{t}>\n</div>", "<div>\n<{t}/>\n</div>",
                     '<div>\n<{t}/src="x">y</{t}>\n</div>', "<div>\n<{t}/ >y</{t}>\n</div>", 'para <span><{t}/x="1"></span> end', "<{t}>\nblock\n</{t}>",
                     "a <{t}>inline</{t}> b", "<{t}\tx>", "<p><{t}><{t}></p>"):
            text = form.format(t=tag, T=tag.upper()) + "\n"
            col.case(("gfm", text))
            check_gfm(col, text)
            cnt += 1
        # ... whichever HTML extensions are enabled, also when the HTML cannot be turned into a tree (a marked section makes
        # the stdlib parser raise) or the tree is empty (an unterminated construct)
        for exts in (("html_image",), ("html_admonition",), ("html_image", "html_admonition")):
            for form in ("<div>\n<{t}>x</{t}>\n</div>", "<![foo]>\n<{t}>x</{t}>", "<{t}>\n<![x]>\n</{t}>", "<{t} a=\"1\"", "a <{t}>inline</{t}> b"):
                text = form.format(t=tag) + "\n"
                col.case(("gfm", text, exts))
                check_gfm(col, text, exts)
                cnt += 1
    col.add_bound("GFM mode: every occurrence of a disallowed tag is neutralised", f"{len(DISALLOWED)} tags x (11 spellings + 5 spellings x 3 HTML-extension subsets)", cnt, time.time() - t0)
    return col.result()


def replay(col, case, check):
    if "gfm_text" in case:
        check_gfm(col, case["gfm_text"], tuple(case.get("exts", ())))
    elif "img" in case:
        check_img(col, case["img"])
    elif "admonition_title" in case:
        check_admonition(col, case["admonition_title"], case["body"], case["classes"])
    else:
        check_passthrough(col, case["html"], case["extensions"], case.get("inline", False))
