"""C18 run-time side (bounded): inventory loading vs Sphinx's loader on the same bytes, and
independence from how the stream hands out chunks."""
from __future__ import annotations

import io
import itertools
import random
import time
import zlib

from harness.common import Collector

NAMES = ["a", "mod.f", "release 3 12 notes", "m", "é", "x y", "Term", "term"]
TYPES = ["py:module", "py:function", "std:label", "std:term", "rst:directive:option", "nocolon", "c:macro", "js:module", "mat:module"]
LOCS = ["a.html#x", "lib/m.html#$", "$", "u.html", ""]
DISP = ["-", "Title", "a b c", ""]


class Chunked(io.RawIOBase):
    """A stream whose read(n) returns the data in pieces fixed by a schedule (then byte-wise)."""

    def __init__(self, data, schedule):
        self.data, self.pos, self.sched = data, 0, list(schedule)

    def read(self, n=-1):
        if self.pos >= len(self.data):
            return b""
        k = self.sched.pop(0) if self.sched else 7
        k = max(1, k if n is None or n < 0 else min(k, n))
        out = self.data[self.pos:self.pos + k]
        self.pos += len(out)
        return out


def v2_bytes(lines, proj="Proj", ver="1.0", level=6, trailing_newline=True):
    body = "\n".join(lines) + ("\n" if trailing_newline and lines else "")
    return (f"# Sphinx inventory version 2\n# Project: {proj}\n# Version: {ver}\n"
            "# The remainder of this file is compressed using zlib.\n").encode() + zlib.compress(body.encode(), level)


def v1_bytes(lines, proj="Proj", ver="1.0"):
    return (f"# Sphinx inventory version 1\n# Project: {proj}\n# Version: {ver}\n" + "".join(ln + "\n" for ln in lines)).encode()


def ours(data, schedule=None):
    from myst_parser.inventory import load, to_sphinx

    stream = io.BytesIO(data) if schedule is None else Chunked(data, schedule)
    inv = load(stream)
    flat = {}
    for key, d in to_sphinx(inv).items():
        for name, (p, v, loc, disp) in d.items():
            flat[(key, name)] = (p, v, loc, disp or "-")
    return inv, flat


def sphinx(data):
    from sphinx.util.inventory import InventoryFile

    inv = InventoryFile.loads(data, uri="")
    flat = {}
    for key, d in inv.data.items():
        for name, item in d.items():
            flat[(key, name)] = (item.project_name, item.project_version, item.uri, item.display_name or "-")
    return flat


def in_known(lines, trailing_newline):
    txt = "\n".join(lines)
    if not trailing_newline:
        return "C18-last-line"  # Sphinx (splitlines) reads an unterminated last line, MyST drops it
    if any(c in txt for c in "\r\x0b\x0c\x1c\x1d\x1e\x85  "):
        return "C18-splitlines"  # Sphinx splits the body on every Unicode line boundary, MyST on '\n' only
    return None


def check_vs_sphinx(col, lines, version=2, trailing_newline=True):
    data = v2_bytes(lines, trailing_newline=trailing_newline) if version == 2 else v1_bytes(lines)
    case = {"lines": lines, "version": version, "trailing_newline": trailing_newline}
    try:
        want = sphinx(data)
    except Exception as exc:  # noqa: BLE001
        want = ("raises", type(exc).__name__)
    try:
        _inv, got = ours(data)
    except Exception as exc:  # noqa: BLE001
        got = ("raises", type(exc).__name__)
    if isinstance(want, tuple) or isinstance(got, tuple):
        if isinstance(want, tuple) != isinstance(got, tuple):
            col.fail("C18.sphinx/raises", case, f"myst: {got if isinstance(got, tuple) else 'loads'}; sphinx: {want if isinstance(want, tuple) else 'loads'}",
                     known=in_known(lines, trailing_newline), function="myst_parser.inventory:load")
        return data
    if got != want:
        only_m = {k: got[k] for k in got if got.get(k) != want.get(k)}
        only_s = {k: want[k] for k in want if got.get(k) != want.get(k)}
        col.fail("C18.sphinx/entries", case, f"differs from sphinx.util.inventory: myst {only_m!r} vs sphinx {only_s!r}",
                 known=in_known(lines, trailing_newline), function="myst_parser.inventory:_load_v2")
    return data


def check_chunks(col, data, schedules, case):
    try:
        base_inv, _ = ours(data)
        base = ("ok", base_inv)
    except Exception as exc:  # noqa: BLE001
        base = ("raises", type(exc).__name__)
    for sch in schedules:
        try:
            inv, _ = ours(data, sch)
            r = ("ok", inv)
        except Exception as exc:  # noqa: BLE001
            r = ("raises", type(exc).__name__ + ": " + str(exc)[:80])
        if r[0] != base[0] or (r[0] == "ok" and r[1] != base[1]):
            col.fail("C18.chunking", dict(case, schedule=list(sch)), f"chunked read gives {str(r)[:200]}, single read gives {str(base)[:200]}",
                     function="myst_parser.inventory:InventoryFileReader.read_compressed_lines")
            return


def gen_lines(rng):
    out = []
    for _ in range(rng.randint(0, 6)):
        r = rng.random()
        if r < 0.1:
            out.append(rng.choice(["", "garbage", "a b", "# comment", "x std:label notanumber u.html -"]))
        else:
            out.append(f"{rng.choice(NAMES)} {rng.choice(TYPES)} {rng.choice(['1', '-1', '0', '2'])} {rng.choice(LOCS)} {rng.choice(DISP)}")
    return out


def run(tier, seed, extra):
    col = Collector("C18", extra.get("known", ()))
    rng = random.Random(seed)
    t0 = time.time()
    cnt = 0
    # duplicates of py:module (first wins), '$' expansion, names with spaces, std:label case variants
    fixed = [
        ["m py:module 0 first.html -", "m py:module 0 second.html -"],
        # ... of every other type the LAST entry wins, also for other domains' `module` objects
        ["m js:module 0 first.html -", "m js:module 0 second.html A"], ["m mat:module 0 first.html -", "m mat:module 0 second.html -", "m py:module 0 third.html -"],
        ["f py:function 1 a.html -", "f py:function 1 b.html B"], ["m py:module 0 first.html -", "m py:function 0 x.html -", "m py:module 0 second.html -", "m py:function 0 y.html -"],
        ["release 3 12 notes std:term -1 a.html#$ -"],
        ["Term std:term -1 a.html -", "term std:term -1 b.html -"],
        ["a nocolon 1 x.html -"],
        ["é py:function 1 lib/m.html#$ Title"],
        ["a py:function 1 x.html T\x0cU", "b py:function 1 y.html -"],
    ]
    for lines in fixed + [gen_lines(rng) for _ in range(400 if tier == "quick" else 8000)]:
        col.case(("v2", tuple(lines)), nontrivial=bool(lines))
        data = check_vs_sphinx(col, lines)
        cnt += 1
        if rng.random() < 0.25:
            check_vs_sphinx(col, lines, trailing_newline=False)
        if cnt % 3 == 0 and data:
            n = len(data)
            scheds = [[k] for k in rng.sample(range(1, n), min(6, n - 1))] + [[rng.randint(1, 9) for _ in range(n)] for _ in range(3)] + [[1] * n]
            check_chunks(col, data, scheds, {"lines": lines, "version": 2})
    for _ in range(60 if tier == "quick" else 1500):
        lines = [f"{rng.choice(['a', 'mod.f', 'm'])} {rng.choice(['mod', 'function', 'class'])} {rng.choice(['a.html', 'lib/m.html'])}" for _ in range(rng.randint(0, 4))]
        col.case(("v1", tuple(lines)))
        data = check_vs_sphinx(col, lines, version=1)
        n = len(data)
        check_chunks(col, data, [[k] for k in rng.sample(range(1, n), min(4, n - 1))] + [[1] * n], {"lines": lines, "version": 1})
        cnt += 1
    # non-ASCII names and every split point (multi-byte characters must survive any chunking)
    for lines in (["é py:function 1 lib/é.html#$ Tïtle", "中 std:label -1 u.html 中文"],):
        data = v2_bytes(lines, level=0)
        check_chunks(col, data, [[k] for k in range(1, len(data))], {"lines": lines, "version": 2, "level": 0})
        cnt += 1
    col.add_bound("load() vs sphinx.util.inventory.InventoryFile on the same bytes; all/ sampled read schedules",
                  f"{cnt} generated inventories (v1/v2, <= 6 entries, names with spaces / non-ASCII, '$' locations, duplicates; seed {seed})", cnt, time.time() - t0)
    return col.result()


def replay(col, case, check):
    data = check_vs_sphinx(col, case["lines"], case.get("version", 2), case.get("trailing_newline", True))
    if "schedule" in case:
        d = v2_bytes(case["lines"], level=case.get("level", 6)) if case.get("version", 2) == 2 else v1_bytes(case["lines"])
        check_chunks(col, d, [case["schedule"]], {k: v for k, v in case.items() if k != "schedule"})
