"""C19 run-time oracle: wildcard semantics taken from the statement; bounded stand-in for the matching
relation (assumed regex-engine semantics) and for native-vs-Sphinx filtering."""
from __future__ import annotations

import itertools
import random
import time
from functools import lru_cache

from harness.common import Collector, strings_upto

ALPHABET = ["a", "*", "\\", ".", "\n", "b"]


def tokens(pattern):
    """'\\*' -> literal star, '*' -> wildcard, every other character (a lone backslash included) -> itself."""
    out = []
    i = 0
    while i < len(pattern):
        if pattern[i] == "\\" and i + 1 < len(pattern) and pattern[i + 1] == "*":
            out.append(("lit", "*"))
            i += 2
        elif pattern[i] == "*":
            out.append(("any", None))
            i += 1
        else:
            out.append(("lit", pattern[i]))
            i += 1
    return out


def spec_match(pattern, name):
    """The matching relation of the statement (whole-name match), by dynamic programming."""
    if pattern is None:
        return True
    toks = tokens(pattern)

    @lru_cache(maxsize=None)
    def go(ti, ni):
        if ti == len(toks):
            return ni == len(name)
        kind, c = toks[ti]
        if kind == "any":
            return any(go(ti + 1, k) for k in range(ni, len(name) + 1))
        return ni < len(name) and name[ni] == c and go(ti + 1, ni + 1)

    return go(0, 0)


def check_match(col, pattern, name):
    from myst_parser.inventory import match_with_wildcard

    got = match_with_wildcard(name, pattern)
    want = spec_match(pattern, name)
    if got != want:
        col.fail("C19.match", {"pattern": pattern, "name": name},
                 f"match_with_wildcard({name!r}, {pattern!r}) = {got}, statement says {want}",
                 function="myst_parser.inventory:match_with_wildcard")


NAMES = ["a", "b", "a.b", "*", "a*", "\\", "ab", "a\nb", "x:y"]
PATS = [None, "*", "a", "a*", "*b", "\\*", "a\\", "a.b", "?", "a\\*", "*:*", "x:y", "b", "directive:option", "rst", "directive*", "py", "\\**", "**"]


def make_inventories(rng):
    invs = {}
    for iname in rng.sample(["proj", "a", "p*", "b.c"], rng.randint(1, 3)):
        objects = {}
        for dom in rng.sample(["py", "std", "a", "rst"], rng.randint(0, 3)):
            objects[dom] = {}
            for ot in rng.sample(["class", "label", "a", "directive:option", "b"], rng.randint(0, 3)):
                objects[dom][ot] = {}
                for nm in rng.sample(NAMES, rng.randint(0, 4)):
                    objects[dom][ot][nm] = {"loc": f"{nm}.html#x", "text": rng.choice([None, "T", "-", ""])}
        invs[iname] = {"name": iname.upper(), "version": "1", "base_url": rng.choice([None, "https://e.org/"]), "objects": objects}
    return invs


def spec_filter(invs, fi, fd, fo, ft):
    out = []
    for iname, inv in invs.items():
        if not spec_match(fi, iname):
            continue
        for dom, dd in inv["objects"].items():
            if not spec_match(fd, dom):
                continue
            for ot, od in dd.items():
                if not spec_match(fo, ot):
                    continue
                for nm, item in od.items():
                    if spec_match(ft, nm):
                        out.append((iname, dom, ot, nm, inv["name"], inv["version"], inv["base_url"], item["loc"], item["text"]))
    return out


def check_filter(col, invs, quad):
    from myst_parser import inventory as I

    fi, fd, fo, ft = quad
    want = spec_filter(invs, fi, fd, fo, ft)
    got = [(m.inv, m.domain, m.otype, m.name, m.project, m.version, m.base_url, m.loc, m.text)
           for m in I.filter_inventories(invs, invs=fi, domains=fd, otypes=fo, targets=ft)]
    case = {"inventories": invs, "filters": list(quad)}
    if got != want:
        col.fail("C19.filter/native", case, f"filter_inventories gives {got!r}, statement says {want!r}",
                 function="myst_parser.inventory:filter_inventories")
    # the Sphinx in-memory representation of the same data (what to_sphinx produces; lossy in base_url/text)
    sph = {k: I.to_sphinx(v) for k, v in invs.items() if v["objects"] and any(any(o.values()) for o in v["objects"].values())}
    got_s = [(m.inv, m.domain, m.otype, m.name, m.loc) for m in I.filter_sphinx_inventories(sph, invs=fi, domains=fd, otypes=fo, targets=ft)]
    # same data => same (inventory, domain, type, name, loc) sequence, provided no domain name contains ':'
    want_s = [(w[0], w[1], w[2], w[3], w[7]) for w in want if w[0] in sph]
    # grouping by "domain:type" key keeps inventory order for these generated tables
    if sorted(got_s) != sorted(want_s):
        col.fail("C19.filter/sphinx-repr", case, f"filter_sphinx_inventories gives {got_s!r}, native/spec gives {want_s!r}",
                 function="myst_parser.inventory:filter_sphinx_inventories")
    elif got_s != want_s:
        col.fail("C19.filter/sphinx-order", case, f"order differs: {got_s!r} vs {want_s!r}",
                 function="myst_parser.inventory:filter_sphinx_inventories")


def run(tier, seed, extra):
    col = Collector("C19", extra.get("known", ()))
    rng = random.Random(seed)
    for w in extra.get("witnesses", []):
        wit = w.get("witness") or {}
        if isinstance(wit.get("pat"), str):
            for name in ["", wit["pat"], wit["pat"].replace("\\", "") + "x"] + NAMES:
                check_match(col, wit["pat"], name)
        if "pattern" in wit and isinstance(wit.get("name"), str):
            check_match(col, wit["pattern"], wit["name"])
    n = 4 if tier == "quick" else 5
    t0 = time.time()
    cnt = 0
    pats = list(strings_upto(ALPHABET, n))
    names = list(strings_upto(["a", "*", "\\", ".", "\n"], 3 if tier == "quick" else 4))
    for p in pats:
        for nm in names:
            col.case((p, nm), nontrivial=bool(p))
            check_match(col, p, nm)
            cnt += 1
    col.add_bound("match_with_wildcard vs the statement's matching relation",
                  f"all patterns of length <= {n} over {ALPHABET!r} x all names of length <= {3 if tier == 'quick' else 4} over 5 chars", cnt, time.time() - t0)
    t0 = time.time()
    cnt = 0
    for _ in range(3000 if tier == "quick" else 40000):
        invs = make_inventories(rng)
        quad = tuple(rng.choice(PATS) if rng.random() < 0.5 else None for _ in range(4))
        col.case(("filter", cnt))
        check_filter(col, invs, quad)
        cnt += 1
    col.add_bound("filter_inventories / filter_sphinx_inventories vs nested-loop spec", f"{cnt} generated inventories x filter quadruples (seed {seed})", cnt, time.time() - t0)
    return col.result()


def replay(col, case, check):
    if "pattern" in case:
        check_match(col, case["pattern"], case["name"])
    elif "inventories" in case:
        check_filter(col, case["inventories"], tuple(case["filters"]))
