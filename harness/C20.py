"""C20 run-time side (bounded): docutils security settings - every construct able to carry raw markup or a file
path is instantiated with a sentinel under raw_enabled x file_insertion_enabled."""
from __future__ import annotations

import itertools
import os
import random
import tempfile
import time

from harness.common import Collector
from harness.docutils_util import parse

S = "SENTINELRAW"
F = "SENTINELFILE"

RAW_CONSTRUCTS = {
    "html_block": f"<div>{S}</div>\n",
    "html_inline": f"a <b>{S}</b> c\n",
    "raw_role": "```{eval-rst}\n.. role:: rh2(raw)\n   :format: html\n```\n\n{rh2}`<i>" + S + "</i>`\n",
    "raw_directive": "```{raw} html\n<p>" + S + "</p>\n```\n",
    "eval_rst_raw": "```{eval-rst}\n.. raw:: html\n\n   <p>" + S + "</p>\n```\n",
    "eval_rst_role": "```{eval-rst}\n.. role:: rh(raw)\n   :format: html\n\n:rh:`<i>" + S + "</i>`\n```\n",
    "hard_break": "line\\\nnext\n",
    "strike": "~~gone~~\n",
    "nested_html": "```{note}\n<div>" + S + "</div>\n```\n",
    "quote_html": "> <div>" + S + "</div>\n",
    "list_html": "- <span>" + S + "</span>\n",
    "html_comment": f"<!-- {S} -->\n",
}
FILE_CONSTRUCTS = {
    "include": "```{include} secret.md\n```\n",
    "include_abs": "```{include} @ABS@\n```\n",
    "include_std": "```{include} <@ABS@>\n```\n",
    "include_literal": "```{include} secret.md\n:literal:\n```\n",
    "include_code": "```{include} secret.md\n:code: python\n```\n",
    "literalinclude_rst": "```{eval-rst}\n.. include:: secret.md\n```\n",
    "csv_file": "```{csv-table}\n:file: secret.csv\n```\n",
    "raw_file": "```{raw} html\n:file: secret.md\n```\n",
    "nested_include": "```{note}\n```{include} secret.md\n```\n```\n".replace("```{note}", "````{note}").replace("\n```\n```\n", "\n```\n````\n"),
}


def html_of(text, ov, src):
    from docutils.core import publish_string

    from myst_parser.parsers.docutils_ import Parser
    import io

    so = {"warning_stream": io.StringIO(), "report_level": 1, "halt_level": 5, "output_encoding": "unicode"}
    so.update(ov)
    return publish_string(text, source_path=src, parser=Parser(), writer_name="html5", settings_overrides=so)


def check(col, names, text, raw_enabled, file_ins, d, suppress=()):
    from docutils import nodes

    ov = {"raw_enabled": raw_enabled, "file_insertion_enabled": file_ins, "myst_suppress_warnings": list(suppress),
          "myst_enable_extensions": ["strikethrough", "colon_fence"], "doctitle_xform": False}
    src = os.path.join(d, "index.md")
    case = {"constructs": list(names), "raw_enabled": raw_enabled, "file_insertion_enabled": file_ins, "text": text, "suppress": list(suppress)}
    try:
        doc, lines = parse(text, ov, source_path=src)
        html = html_of(text, ov, src)
    except Exception as exc:  # noqa: BLE001
        col.fail("C20.processed-normally", case, f"{type(exc).__name__}: {exc}")
        return
    if not raw_enabled:
        raws = list(doc.findall(nodes.raw))
        if raws:
            col.fail("C20.raw/node-survives", case, f"{len(raws)} raw node(s) survive with raw_enabled=False: {[r.astext()[:40] for r in raws]}",
                     function="myst_parser.parsers.docutils_:Parser.parse")
        body = html.split("<body", 1)[-1]
        for tag in (f"<div>{S}</div>", f"<b>{S}</b>", f"<i>{S}</i>", f"<p>{S}</p>", f"<span>{S}</span>", f"<!-- {S} -->", "<br />\n", "<s>"):
            if tag in body and tag.strip() not in ("<br />",):
                col.fail("C20.raw/output", case, f"raw payload {tag!r} reached the written output", function="myst_parser.parsers.docutils_:Parser.parse")
        nraw_expected = sum(1 for n in names if n in RAW_CONSTRUCTS)
        if nraw_expected and not suppress and not any("Raw content disabled" in ln or "disabled" in ln.lower() for ln in lines):
            col.fail("C20.raw/reported", case, f"no refusal warning: {lines!r}")
    if not file_ins:
        if F in doc.astext() or F in html:
            col.fail("C20.file/inserted", case, "content of a file on disk was inserted with file_insertion_enabled=False",
                     function="myst_parser.mocking:MockIncludeDirective.run")
        nfile = sum(1 for n in names if n in FILE_CONSTRUCTS)
        if nfile and not any("disabled" in ln.lower() or "deactivated" in ln.lower() for ln in lines):
            col.fail("C20.file/reported", case, f"no refusal warning: {lines!r}")
    # the rest of the document is processed normally
    if "tailmarker" not in doc.astext():
        col.fail("C20.processed-normally", case, "the paragraph after the refused construct is missing")


def run(tier, seed, extra):
    col = Collector("C20", extra.get("known", ()))
    rng = random.Random(seed)
    d = tempfile.mkdtemp(prefix="c20-")
    try:
        open(os.path.join(d, "secret.md"), "w").write(f"{F} included text\n")
        open(os.path.join(d, "secret.csv"), "w").write(f"a,{F}\n")
        absf = os.path.join(d, "secret.md")
        t0 = time.time()
        cnt = 0
        allc = dict(RAW_CONSTRUCTS)
        allc.update({k: v.replace("@ABS@", absf) for k, v in FILE_CONSTRUCTS.items()})
        for name, snippet in allc.items():
            for raw_enabled, file_ins in itertools.product((True, False), repeat=2):
                for sup in ((), ("myst",), ("myst.raw_disabled", "ref", "docutils")):
                    col.case((name, raw_enabled, file_ins, sup))
                    check(col, [name], snippet + "\ntailmarker\n", raw_enabled, file_ins, d, sup)
                    cnt += 1
        for _ in range(40 if tier == "quick" else 1500):
            names = rng.sample(sorted(allc), rng.randint(2, 4))
            text = "\n".join(allc[n] for n in names) + "\ntailmarker\n"
            re_, fi = rng.random() < 0.5, rng.random() < 0.5
            col.case((tuple(names), re_, fi))
            check(col, names, text, re_, fi, d)
            cnt += 1
        col.add_bound("docutils publisher: no raw node / payload with raw_enabled off, no file content with file_insertion_enabled off",
                      f"{len(allc)} constructs x 4 setting combinations + random combinations of 2-4 constructs (seed {seed})", cnt, time.time() - t0)
    finally:
        import shutil

        shutil.rmtree(d, ignore_errors=True)
    return col.result()


def replay(col, case, check_name):
    d = tempfile.mkdtemp(prefix="c20-")
    try:
        open(os.path.join(d, "secret.md"), "w").write(f"{F} included text\n")
        open(os.path.join(d, "secret.csv"), "w").write(f"a,{F}\n")
        import re

        text = re.sub(r"/tmp/c20-[^/]+/", d + "/", case["text"])
        check(col, case["constructs"], text, case["raw_enabled"], case["file_insertion_enabled"], d, tuple(case.get("suppress") or ()))
    finally:
        import shutil

        shutil.rmtree(d, ignore_errors=True)
