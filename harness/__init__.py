"""Run-time side (real code under /venv/bin/python): executable oracles, bounded stand-ins, replay."""
