"""Shared plumbing for the run-time harnesses (bounded stand-ins and countermodel replay)."""
from __future__ import annotations

import itertools
import json
import time


class Collector:
    """Collects evaluations / failures of executable contract checks on the real code."""

    def __init__(self, pid, known_active=()):
        self.pid = pid
        self.known_active = set(known_active)
        self.evaluations = 0
        self.nontrivial = set()
        self.failures = []
        self.fail_keys = set()
        self.samples = []
        self.bounded = []
        self.known_seen = set()
        self.t0 = time.time()

    def case(self, key, nontrivial=True):
        self.evaluations += 1
        if nontrivial:
            self.nontrivial.add(key if isinstance(key, (str, int, tuple)) else json.dumps(key, default=str, sort_keys=True))
        if len(self.samples) < 5 and nontrivial and self.evaluations % 7 == 1:
            self.samples.append(key)

    def fail(self, check, case, msg, known=None, function=None, oid=None):
        """Record a failing case.  `known` = id of the known-finding region the input lies in (or None)."""
        if known is not None and known not in self.known_active:
            known = None  # listed as fixed / not listed: a failure there is a violation again
        k = (check, known)
        if known is not None:
            self.known_seen.add(known)
            if k in self.fail_keys:
                return
        self.fail_keys.add(k)
        if len(self.failures) < 40:
            self.failures.append({"check": check, "case": case, "msg": str(msg)[:600], "known": known,
                                  "function": function, "oid": oid})

    def add_bound(self, function, bound, cases, seconds):
        self.bounded.append({"function": function, "bound": bound, "cases": cases, "wall_s": round(seconds, 2),
                             "label": "bounded (never counted as proved)"})

    def result(self, stale_known=()):
        return {
            "evaluations": self.evaluations,
            "distinct_nontrivial": len(self.nontrivial),
            "failures": self.failures,
            "samples": self.samples,
            "bounded": self.bounded,
            "stale_known": sorted(stale_known),
            "wall_s": round(time.time() - self.t0, 2),
        }


def strings_upto(alphabet, n, minlen=0):
    for k in range(minlen, n + 1):
        for tup in itertools.product(alphabet, repeat=k):
            yield "".join(tup)
