"""Random MyST document generator that knows, for every block it emits, the construct kind, a unique marker
and the 1-based source line on which the construct starts (used by C02, C03, C04, C06, C09, C11)."""
from __future__ import annotations

import random


class Doc:
    def __init__(self):
        self.lines: list[str] = []
        self.blocks: list[dict] = []  # {kind, marker, line, depth, path}
        self.n = 0

    def marker(self, prefix="M"):
        self.n += 1
        return f"{prefix}{self.n}x"

    @property
    def text(self):
        return "\n".join(self.lines) + "\n"


INLINE = [
    lambda m: f"{m} plain words",
    lambda m: f"{m} *em text* tail",
    lambda m: f"{m} **strong** and `co de`",
    lambda m: f"{m} [link text](https://example.com/a?b=1) end",
    lambda m: f"{m} ![alt text](img/pic.png) after",
    lambda m: f"{m} line one\n{{}}second line",
    lambda m: f"{m} a\\\n{{}}b hard",
    lambda m: f"{m} <span>inline html</span> x",
    lambda m: f"{m} *nested **both** em* `x*y`",
]


def add_block(doc: Doc, rng, prefix: str, depth: int, path: tuple, allow=None):
    """Append one random block at the given container prefix; returns nothing (records in doc.blocks)."""
    kinds = allow or ["para", "para", "para", "bullet", "ordered", "quote", "fence", "indented", "html", "table", "heading", "directive", "colon", "hr"]
    if depth >= 3:
        kinds = [k for k in kinds if k in ("para", "fence", "html")]
    if depth > 0:
        kinds = [k for k in kinds if k not in ("hr", "heading")] or ["para"]
    if not doc.lines:
        kinds = [k for k in kinds if k != "hr"] or ["para"]  # a leading '---' would open front matter
    kind = rng.choice(kinds)
    if doc.blocks and doc.blocks[-1]["kind"] == "indented" and kind == "indented":
        kind = "para"  # two adjacent indented chunks are ONE code block in CommonMark
    m = doc.marker()
    start = len(doc.lines) + 1

    def emit(s):
        for ln in s.split("\n"):
            doc.lines.append(prefix + ln if ln else prefix.rstrip())

    rec = {"kind": kind, "marker": m, "line": start, "depth": depth, "path": path}
    if kind == "para":
        body = rng.choice(INLINE)(m).replace("{}", "")
        emit(body)
        rec["lines"] = body.count("\n") + 1
    elif kind == "heading":
        lv = rng.randint(1, 4)
        emit("#" * lv + f" {m} heading")
        rec["level"] = lv
    elif kind == "hr":
        emit(rng.choice(["---", "***", "___"]))
    elif kind == "fence":
        lang = rng.choice(["", "python", "c++", "text"])
        code = rng.choice([f"{m} = 1\n  indented  \n\nafter blank", f"print('{m}')", f"{m}\n<b>&amp;</b> *not em*"])
        emit("```" + lang + "\n" + code + "\n```")
        rec["lang"], rec["code"] = lang, code + "\n"
    elif kind == "indented":
        emit(f"    {m} code\n      more")
        rec["code"] = f"{m} code\n  more\n"
    elif kind == "html":
        emit(f"<div class=\"c\">{m} &amp; <b>x</b></div>")
        rec["html"] = f"<div class=\"c\">{m} &amp; <b>x</b></div>\n"
    elif kind == "table":
        al = [rng.choice(["---", ":--", "--:", ":-:"]) for _ in range(rng.randint(1, 3))]
        emit("| " + " | ".join(f"h{i}" for i in range(len(al))) + " |\n| " + " | ".join(al) + " |\n| " + " | ".join(f"{m}c{i}" for i in range(len(al))) + " |")
        rec["align"] = [{"---": None, ":--": "left", "--:": "right", ":-:": "center"}[a] for a in al]
    elif kind in ("bullet", "ordered"):
        n = rng.randint(1, 3)
        st = rng.choice([1, 1, 3, 0, 10]) if kind == "ordered" else None
        delim = rng.choice([".", ")"]) if kind == "ordered" else rng.choice(["-", "*", "+"])
        rec["start"], rec["delim"], rec["items"] = st, delim, []
        doc.blocks.append(rec)
        for i in range(n):
            mark = (f"{st + i}{delim}" if kind == "ordered" else delim)
            item_line = len(doc.lines) + 1
            im = doc.marker("I")
            pad = " " * (len(mark) + 1)
            doc.lines.append(prefix + mark + " " + f"{im} item text")
            doc.blocks.append({"kind": "item", "marker": im, "line": item_line, "depth": depth + 1, "path": path + (kind,)})
            rec["items"].append(im)
            if rng.random() < 0.4:
                doc.lines.append(prefix.rstrip() if prefix.strip() else "")
                add_block(doc, rng, prefix + pad, depth + 1, path + (kind,), allow=["para", "fence", "bullet", "quote"])
        doc.lines.append(prefix.rstrip())
        return
    elif kind == "quote":
        doc.blocks.append(rec)
        for _ in range(rng.randint(1, 2)):
            add_block(doc, rng, prefix + "> ", depth + 1, path + ("quote",), allow=["para", "para", "fence", "bullet", "ordered"])
        if doc.lines and doc.lines[-1].strip() in (">", ""):
            pass
        doc.lines.append(prefix.rstrip())
        return
    elif kind in ("directive", "colon"):
        fence = "```" if kind == "directive" else ":::"
        fence = fence + ("`" if kind == "directive" else ":") * (3 - depth)  # outer fences longer than inner ones
        style = rng.choice(["none", "colon", "yaml"])
        blank_before = rng.choice([0, 0, 1, 1, 2, 3])
        if style == "colon":
            blank_before = max(1, blank_before)  # a body line starting with ':' right after ':key:' lines would be read as an option
        doc.lines.append(prefix + fence + "{note}")
        if style == "colon":
            doc.lines.append(prefix + ":class: tip")
            if rng.random() < 0.5:
                doc.lines.append(prefix + ":name: " + doc.marker("n").lower())
        elif style == "yaml":
            doc.lines += [prefix + "---", prefix + "class: tip", prefix + "---"]
        for _ in range(blank_before):
            doc.lines.append(prefix.rstrip())
        rec["style"], rec["blank_before"] = style, blank_before
        doc.blocks.append(rec)
        for _ in range(rng.randint(1, 2)):
            add_block(doc, rng, prefix, depth + 1, path + (kind,), allow=["para", "para", "bullet", "quote", "fence", "directive", "colon"] if depth < 1 else ["para", "bullet"])
        while doc.lines and not doc.lines[-1].strip():
            doc.lines.pop()
        doc.lines.append(prefix + fence)
        doc.lines.append(prefix.rstrip())
        return
    doc.blocks.append(rec)
    doc.lines.append(prefix.rstrip())


def gen_doc(rng, nblocks=None, allow=None) -> Doc:
    doc = Doc()
    for _ in range(nblocks or rng.randint(1, 6)):
        add_block(doc, rng, "", 0, (), allow=allow)
    while doc.lines and not doc.lines[-1].strip():
        doc.lines.pop()
    return doc
