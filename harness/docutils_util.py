"""Helpers to drive the docutils front end of MyST on a source string (real code, /venv python)."""
from __future__ import annotations

import io
import re

TAG_RE = re.compile(r"\[([a-z_]+)\.([a-z_]+)\]\s*$")


def parse(text, overrides=None, transforms=True, source_path="<src>/index.md"):
    """-> (document, [warning lines])   (publish_doctree = parse + standard transforms)."""
    from docutils.core import publish_doctree

    from myst_parser.parsers.docutils_ import Parser

    stream = io.StringIO()
    so = {"warning_stream": stream, "report_level": 1, "halt_level": 5, "output_encoding": "unicode",
          "myst_suppress_warnings": []}
    so.update(overrides or {})
    doc = publish_doctree(text, source_path=source_path, parser=Parser(), settings_overrides=so)
    lines = [ln for ln in stream.getvalue().splitlines() if ln.strip()]
    return doc, lines


def tags_of(lines):
    out = []
    for ln in lines:
        m = TAG_RE.search(ln)
        out.append(f"{m.group(1)}.{m.group(2)}" if m else None)
    return out


def strip_system_messages(doc, pred):
    """Remove (in place) system_message nodes whose text satisfies pred."""
    from docutils import nodes

    for sm in list(doc.findall(nodes.system_message)):
        if pred(sm.astext()) and sm.parent is not None:
            sm.parent.remove(sm)
    return doc
