"""Run-time evaluation of the sidecar contracts on the real functions (under /venv/bin/python).

The clause text that pyvc translates to SMT is evaluated here with `eval` against the real objects:
used to replay solver countermodels, as the function-level bounded stand-in, and to cross-check the
symbolic encoding against CPython (a contract proved by the engine but firing here = engine bug).
"""
from __future__ import annotations

import ast
import copy
import importlib
import inspect
import sys
import types

from pyvc.spec import REG, exists, forall, implies  # noqa: F401  (pure python, no z3)


class ContractViolation(Exception):
    pass


class _OldRewriter(ast.NodeTransformer):
    def __init__(self):
        self.olds = []

    def visit_Call(self, node):
        if isinstance(node.func, ast.Name) and node.func.id == "old" and len(node.args) == 1:
            self.olds.append(node.args[0])
            return ast.copy_location(
                ast.Subscript(value=ast.Name(id="__olds__", ctx=ast.Load()),
                              slice=ast.Constant(value=len(self.olds) - 1), ctx=ast.Load()), node)
        self.generic_visit(node)
        if isinstance(node.func, ast.Name) and node.func.id == "implies" and len(node.args) == 2:
            # lazily, as in the verifier: the consequent is only evaluated where the antecedent holds
            return ast.copy_location(ast.BoolOp(op=ast.Or(), values=[ast.UnaryOp(op=ast.Not(), operand=node.args[0]), node.args[1]]), node)
        return node


def _typeis(x, name):
    return type(x).__name__ == name


def _fresh(x):
    return True


def load_contracts(mods):
    for m in mods:
        importlib.import_module(m)


def resolve(target):
    modn, qual = target.split(":")
    mod = importlib.import_module(modn)
    obj = mod
    for part in qual.split("."):
        obj = getattr(obj, part)
    return mod, obj


def build(value, mod):
    """Rebuild an argument from a concretised countermodel value."""
    if isinstance(value, dict) and "__class__" in value:
        cls = getattr(mod, value["__class__"], None)
        if cls is None:
            raise ValueError(f"unknown class {value['__class__']}")
        obj = object.__new__(cls)
        for k, v in value.items():
            if k == "__class__":
                continue
            try:
                setattr(obj, k, build(v, mod))
            except AttributeError:
                pass
        return obj
    if isinstance(value, list):
        return [build(v, mod) for v in value]
    return value


def _allocated(x):
    """Every object a clause can name at run time exists."""
    return True


def _forall_obj(cls, fn):
    raise NotImplementedError("a heap-wide quantifier cannot be evaluated at run time (the clause is skipped)")


def spec_env(mod):
    env = dict(vars(mod))
    for name, sf in REG.specfuns.items():
        env[name] = sf.fn
    env.update(implies=implies, forall=forall, exists=exists, typeis=_typeis, fresh=_fresh, allocated=_allocated, forall_obj=_forall_obj)
    return env


def eval_clause(clause, env, olds=None):
    tree = ast.parse(clause, mode="eval")
    if olds is not None:
        env = dict(env)
        env["__olds__"] = olds
    return eval(compile(tree, "<clause>", "eval"), env)


_compiled = {}
_env_cache = {}
_sig_cache = {}


def _compile_clauses(clauses):
    key = tuple(clauses)
    if key not in _compiled:
        codes, oldcodes = [], []
        for c in clauses:
            rw = _OldRewriter()
            tree = rw.visit(ast.parse(c, mode="eval"))
            base = len(oldcodes)
            for n in ast.walk(tree):
                if isinstance(n, ast.Subscript) and isinstance(n.value, ast.Name) and n.value.id == "__olds__":
                    n.slice = ast.Constant(value=n.slice.value + base)
            for o in rw.olds:
                e = ast.Expression(body=o)
                ast.fix_missing_locations(e)
                oldcodes.append(compile(e, "<old>", "eval"))
            ast.fix_missing_locations(tree)
            codes.append(compile(tree, "<clause>", "eval"))
        _compiled[key] = (codes, oldcodes)
    return _compiled[key]


class _Olds(list):
    """old() values of the pre-state; one that could not be evaluated there (it needs at_return(...), a ghost field, ...) makes
    the clause that uses it unevaluable (skipped), never false."""

    def __getitem__(self, i):
        v = list.__getitem__(self, i)
        if isinstance(v, tuple) and len(v) == 2 and v[0] == "__old_error__":
            raise LookupError(f"old() value not available at run time: {v[1]}")
        return v


def prepare_olds(clauses, env):
    """-> (compiled clauses, evaluated old() values) ; old(e) is evaluated now (pre-state)."""
    codes, oldcodes = _compile_clauses(clauses)
    olds = []
    for oc in oldcodes:
        try:
            v = eval(oc, env)
            # objects are references (identity matters: Element.__eq__ is `is`); containers are snapshotted shallowly
            if isinstance(v, (list, dict, set)) or type(v).__name__ == "deque":
                v = copy.copy(v)
        except Exception as err:  # noqa: BLE001
            v = ("__old_error__", repr(err))
        olds.append(v)
    return codes, _Olds(olds)


def check_call(target, kwargs, consume_generators=True):
    """Call the real function with `kwargs` and evaluate its contract.
    -> None if the precondition does not hold; else list of (kind, clause, message) failures (may be empty)."""
    fs = REG.funs[target]
    mod, fn = resolve(target)
    env = dict(_env_cache.get(target) or _env_cache.setdefault(target, spec_env(mod)))
    sig = _sig_cache.get(target) or _sig_cache.setdefault(target, inspect.signature(fn))
    ba = sig.bind_partial(**kwargs)
    ba.apply_defaults()
    env.update(ba.arguments)
    for code in _compile_clauses(fs.requires)[0]:
        try:
            if not eval(code, env):
                return None
        except Exception:  # noqa: BLE001
            return None
    ens_trees, olds = prepare_olds(fs.ensures, env)
    rais_trees = {}
    rais_olds = {}
    for k, cl in fs.raises.items():
        rais_trees[k], rais_olds[k] = prepare_olds(cl, env)
    failures = []
    try:
        result = fn(*ba.args, **ba.kwargs)
        if consume_generators and isinstance(result, types.GeneratorType):
            result = list(result)
    except BaseException as exc:  # noqa: BLE001
        if isinstance(exc, (KeyboardInterrupt, SystemExit, MemoryError)):
            raise
        allowed = [k for k in fs.raises if any(c.__name__ == k.split(".")[-1] for c in type(exc).__mro__)]
        if not allowed:
            failures.append(("raises", type(exc).__name__, f"raised {type(exc).__name__}: {exc}"[:300]))
            return failures
        env2 = dict(env)
        env2["exc"] = exc
        env2["__olds__"] = rais_olds[allowed[0]]
        for src, tree in zip(fs.raises[allowed[0]], rais_trees[allowed[0]]):
            try:
                ok = eval(tree, env2)
            except Exception as err:  # noqa: BLE001
                ok = True  # clause not evaluable at run time (ghost-only): skip
            if not ok:
                failures.append((f"raises-post/{allowed[0]}", src, f"exceptional postcondition false for {exc!r}"[:300]))
        return failures
    env2 = dict(env)
    env2["result"] = result
    env2["__olds__"] = olds
    for src, tree in zip(fs.ensures, ens_trees):
        try:
            ok = eval(tree, env2)
        except Exception as err:  # noqa: BLE001
            continue
        if not ok:
            failures.append(("post", src, f"postcondition false; result={result!r}"[:300]))
    return failures


def replay_witness(target, witness):
    """Rebuild the countermodel's arguments and check the contract on the real function."""
    mod, fn = resolve(target)
    kwargs = {}
    for k, v in (witness or {}).items():
        if v is None and k == "self":
            return None
        kwargs[k] = build(v, mod)
    try:
        return check_call(target, kwargs)
    except Exception as err:  # noqa: BLE001
        return None
