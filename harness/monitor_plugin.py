"""pytest plugin (loaded with `-p harness.monitor_plugin`, PYTHONPATH=/verif): run-time monitoring of the sidecar
contracts while the repository's own test suite runs.  Every function under contract is wrapped (no file of /repo is
touched); preconditions that do not hold are counted, not reported; a postcondition / raises clause that fires on an
execution whose precondition held is a discrepancy between contract and real code (contract too strict, engine model
wrong, or a defect the tests do not assert).  Results are written to $PYVC_MONITOR_OUT as JSON."""
import functools
import importlib
import json
import os
import sys
import types

ROOT = os.path.dirname(os.path.dirname(os.path.abspath(__file__)))
sys.path.insert(0, ROOT)
STATS = {}
MODS = ["contracts.options", "contracts.inventory", "contracts.warnings", "contracts.slug", "contracts.directives", "contracts.parse_html", "contracts.invreader", "contracts.lines", "contracts.render", "contracts.links", "contracts.footnotes", "contracts.heading", "contracts.render2", "contracts.rundirective"]


def _wrap(target, fn, funcheck, fs):
    import inspect

    sig = inspect.signature(fn)
    st = STATS.setdefault(target, {"calls": 0, "pre_held": 0, "checked": 0, "fired": [], "assumed": bool(fs.trusted)})

    @functools.wraps(fn)
    def wrapper(*a, **k):
        st["calls"] += 1
        try:
            ba = sig.bind(*a, **k)
            ba.apply_defaults()
            mod, _ = funcheck.resolve(target)
            env = dict(funcheck.spec_env(mod))
            env.update(ba.arguments)
            ok = True
            for code in funcheck._compile_clauses(fs.requires)[0]:
                try:
                    if not eval(code, env):
                        ok = False
                        break
                except Exception:
                    ok = False
                    break
            if not ok:
                return fn(*a, **k)
            st["pre_held"] += 1
            ens, olds = funcheck.prepare_olds(fs.ensures, env)
        except Exception:
            return fn(*a, **k)
        try:
            result = fn(*a, **k)
        except BaseException as exc:
            if isinstance(exc, Exception):
                allowed = [kk for kk in fs.raises if any(c.__name__ == kk.split(".")[-1] for c in type(exc).__mro__)]
                st["checked"] += 1
                if not allowed and len(st["fired"]) < 5:
                    st["fired"].append(f"raised {type(exc).__name__} not in raises {list(fs.raises)}: {str(exc)[:100]}")
            raise
        if isinstance(result, types.GeneratorType):
            return result  # lazily consumed by the caller: not monitored
        env2 = dict(env)
        env2["result"] = result
        env2["__olds__"] = olds
        st["checked"] += 1
        for src, code in zip(fs.ensures, ens):
            try:
                good = eval(code, env2)
            except Exception:
                continue  # ghost-only / spec-only clause
            if not good and len(st["fired"]) < 5:
                st["fired"].append(f"post false: {src[:120]} ; args={ {kk: repr(v)[:40] for kk, v in ba.arguments.items()} }")
        return result

    return wrapper


def _docutils_shim():
    """The node model's `kind` / `text` / `format` / `id_link` as read-only views of real docutils nodes, so that contract clauses
    over the model can be evaluated on them."""
    from docutils import nodes

    nodes.Node.kind = property(lambda self: type(self).__name__)
    # (the text of a system_message is the message it carries - its first paragraph -, not docutils' "source:line: (LEVEL) ..." rendering)
    nodes.Node.text = property(lambda self: str(self) if isinstance(self, nodes.Text) else (
        self.children[0].astext() if isinstance(self, nodes.system_message) and self.children else self.astext()))
    nodes.Element.format = property(lambda self: self.get("format"))
    nodes.Element.id_link = property(lambda self: bool(self.get("id_link", False)))


def pytest_configure(config):
    install()


def install(mods=None):
    """Wrap every repository function that has a contract - proved or assumed (`trusted`) - so that each call evaluates it."""
    from harness import funcheck
    from pyvc.spec import REG

    _docutils_shim()

    funcheck.load_contracts(mods or MODS)
    for target, fs in list(REG.funs.items()):
        if target.startswith("ext:"):
            continue
        if getattr(fs, "until", None):
            # a prefix contract says nothing about the function's return: what is evaluated is the (assumed) view its callers use
            fs = getattr(fs, "callers", None)
            if fs is None:
                continue
        try:
            modn, qual = target.split(":")
            mod = importlib.import_module(modn)
            parts = qual.split(".")
            owner = mod
            for p in parts[:-1]:
                owner = getattr(owner, p)
            raw = owner.__dict__.get(parts[-1]) if isinstance(owner, type) else getattr(owner, parts[-1])
            if isinstance(raw, (staticmethod, classmethod, property)) or raw is None:
                continue
            fn = getattr(raw, "__wrapped__", raw) if hasattr(raw, "cache_info") else raw
            w = _wrap(target, fn, funcheck, fs)
            setattr(owner, parts[-1], w)
            if not isinstance(owner, type):
                # `from module import f` in other modules of the package bound the function earlier: rebind those too
                for mname, m2 in list(sys.modules.items()):
                    if mname.startswith("myst_parser") and m2 is not None and m2 is not owner and m2.__dict__.get(parts[-1]) is raw:
                        setattr(m2, parts[-1], w)
        except Exception as exc:  # noqa: BLE001
            STATS[target] = {"calls": 0, "pre_held": 0, "checked": 0, "fired": [], "not_wrapped": repr(exc)[:100]}


def pytest_sessionfinish(session, exitstatus):
    out = os.environ.get("PYVC_MONITOR_OUT")
    if out:
        json.dump(STATS, open(out, "w"), indent=1)
