"""stdin: {"property":..., "case":..., "check":...} -> re-evaluates that one case on the real code; exit 1 if it still fails."""
import importlib
import json
import os
import sys

ROOT = os.path.dirname(os.path.dirname(os.path.abspath(__file__)))
sys.path.insert(0, ROOT)
from harness.common import Collector  # noqa: E402


def main():
    h = json.loads(sys.stdin.read())
    if isinstance(h.get("case"), dict) and h["case"].get("demo"):
        # the failing input is a committed demonstration script (a repaired defect that is back): run it against the real code
        import subprocess

        demo = os.path.join(ROOT, h["case"]["demo"])
        r = subprocess.run([sys.executable, demo], cwd=os.path.dirname(demo), env=dict(os.environ))
        print(("STILL FAILS" if r.returncode == 1 else "does not fail (any more)") + f": {h['case']['demo']} (exit {r.returncode})")
        return 1 if r.returncode == 1 else 0
    mod = importlib.import_module(f"harness.{h['property']}")
    col = Collector(h["property"], ())
    mod.replay(col, h["case"], h.get("check"))
    if col.failures:
        for f in col.failures:
            print(f"STILL FAILS: {f['check']}: input={f['case']!r}: {f['msg']}")
        return 1
    print(f"does not fail (any more): input={h['case']!r}")
    return 0


sys.exit(main())
