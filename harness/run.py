"""usage: /venv/bin/python harness/run.py <property> <quick|thorough> <seed>   (stdin: json extras)
Prints one JSON line with the result of the bounded stand-in / replay for that property."""
import importlib
import json
import os
import sys

ROOT = os.path.dirname(os.path.dirname(os.path.abspath(__file__)))
sys.path.insert(0, ROOT)


def main():
    pid, tier, seed = sys.argv[1], sys.argv[2], int(sys.argv[3])
    raw = sys.stdin.read() if not sys.stdin.isatty() else ""
    extra = json.loads(raw) if raw.strip() else {}
    mod = importlib.import_module(f"harness.{pid}")
    import io, contextlib
    buf = io.StringIO()
    with contextlib.redirect_stdout(buf):
        out = mod.run(tier, seed, extra)
    print(json.dumps(out, default=str))


if __name__ == "__main__":
    main()
