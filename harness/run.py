"""usage: /venv/bin/python harness/run.py <property> <quick|thorough> <seed>   (stdin: json extras)
Prints one JSON line with the result of the bounded stand-in / replay for that property."""
import importlib
import json
import os
import sys

ROOT = os.path.dirname(os.path.dirname(os.path.abspath(__file__)))
sys.path.insert(0, ROOT)


def main():
    # scratch files of this run (the stand-ins' and the demonstration scripts' temporary directories) go below ONE directory
    # that is removed at the end
    import atexit
    import shutil
    import tempfile

    scratch = tempfile.mkdtemp(prefix="verif-harness-")
    os.environ["TMPDIR"] = scratch
    tempfile.tempdir = scratch
    atexit.register(shutil.rmtree, scratch, True)
    pid, tier, seed = sys.argv[1], sys.argv[2], int(sys.argv[3])
    raw = sys.stdin.read() if not sys.stdin.isatty() else ""
    extra = json.loads(raw) if raw.strip() else {}
    mod = importlib.import_module(f"harness.{pid}")
    monitor = None
    if os.environ.get("PYVC_MONITOR_HARNESS") == "1":
        # thorough tier: every contract on a repository function - proved or assumed - is also evaluated on each call the
        # stand-in's documents cause (a contract that fires here is wrong about the code, whatever the solver said)
        from harness import monitor_plugin as monitor

        monitor.install()
    import io, contextlib
    buf = io.StringIO()
    with contextlib.redirect_stdout(buf):
        out = mod.run(tier, seed, extra)
        # every recorded known finding must still reproduce from its committed witness (else the entry is stale)
        from harness.common import Collector

        kf = json.load(open(os.path.join(ROOT, "known_findings.json")))
        stale, reproduced = [], []
        for k in kf:
            if k.get("property") != pid or k.get("status") != "known" or not k.get("witness"):
                continue
            if not hasattr(mod, "replay") and not (isinstance(k["witness"], dict) and k["witness"].get("demo")):
                continue
            c2 = Collector(pid, [k["id"]])
            try:
                if isinstance(k["witness"], dict) and k["witness"].get("demo"):
                    # the witness is a committed demonstration script (an independent reviewer's): it exits 1 while the
                    # defect is present and 0 once the behaviour matches the statement
                    import subprocess

                    r = subprocess.run([sys.executable, os.path.join(ROOT, k["witness"]["demo"])], capture_output=True, text=True, timeout=300,
                                       cwd=os.path.join(ROOT, os.path.dirname(k["witness"]["demo"])), env=dict(os.environ))
                    if r.returncode == 1:
                        c2.failures.append({"check": "known-witness-demo", "msg": (r.stdout or r.stderr)[-300:]})
                    elif r.returncode != 0:
                        c2.failures.append({"check": "witness-replay-crash", "msg": f"demo exit {r.returncode}: {(r.stderr or '')[-300:]}"})
                    (reproduced if c2.failures else stale).append(k["id"])
                    continue
                mod.replay(c2, k["witness"], None)
            except Exception as exc:  # noqa: BLE001
                c2.failures.append({"check": "witness-replay-crash", "msg": repr(exc)})
            (reproduced if c2.failures else stale).append(k["id"])
        # a repaired defect whose witness is a demonstration script must stay repaired: the script failing again is a violation
        for k in kf:
            if k.get("property") != pid or k.get("status") != "fixed" or not (isinstance(k.get("witness"), dict) and k["witness"].get("demo")):
                continue
            import subprocess

            try:
                r = subprocess.run([sys.executable, os.path.join(ROOT, k["witness"]["demo"])], capture_output=True, text=True, timeout=300,
                                   cwd=os.path.join(ROOT, os.path.dirname(k["witness"]["demo"])), env=dict(os.environ))
                out["evaluations"] = out.get("evaluations", 0) + 1
                if r.returncode == 1:
                    out["failures"].append({"check": f"{pid}.fixed-finding-returned", "case": {"demo": k["witness"]["demo"], "finding": k["id"]},
                                            "msg": f"the defect repaired in {k.get('commit')} is back: " + (r.stdout or r.stderr)[-300:], "known": None, "function": None, "oid": None})
            except Exception as exc:  # noqa: BLE001
                pass
        out["stale_known"] = sorted(set(out.get("stale_known", [])) | set(stale))
        out["known_reproduced"] = reproduced
        for kid in reproduced:
            if not any(f.get("known") == kid for f in out["failures"]):
                out["failures"].append({"check": "known-witness", "case": "committed witness", "msg": "reproduces", "known": kid, "function": None, "oid": None})
    if monitor is not None:
        out["monitor"] = monitor.STATS
    print(json.dumps(out, default=str))


if __name__ == "__main__":
    main()
