"""Helpers to run an in-process Sphinx build of a generated project (real code, /venv python)."""
from __future__ import annotations

import io
import os
import shutil
import tempfile


def build(files: dict, conf: str = "", builder="html", parallel=0, keep=False, order=None, extract=None):
    """files: {relative path: text}.  -> dict(doctrees={docname: pformat}, warnings=[lines], outdir, html={docname: text})"""
    from sphinx.application import Sphinx
    from sphinx.util.docutils import docutils_namespace, patch_docutils

    d = tempfile.mkdtemp(prefix="sphx-")
    src = os.path.join(d, "src")
    os.makedirs(src)
    for rel, text in files.items():
        p = os.path.join(src, rel)
        os.makedirs(os.path.dirname(p), exist_ok=True)
        mode = "wb" if isinstance(text, bytes) else "w"
        with open(p, mode) as f:
            f.write(text)
    with open(os.path.join(src, "conf.py"), "w") as f:
        f.write("extensions = ['myst_parser']\nexclude_patterns = ['_build']\nsuppress_warnings = ['toc.not_included', 'toc.not_readable']\n" + conf)
    status, warning = io.StringIO(), io.StringIO()
    out = {}
    try:
        with patch_docutils(src), docutils_namespace():
            app = Sphinx(src, src, os.path.join(d, "out"), os.path.join(d, "doctrees"), builder, status=status, warning=warning,
                         freshenv=True, parallel=parallel, warningiserror=False)
            app.build(force_all=True)
            doctrees = {}
            for docname in sorted(app.env.found_docs):
                try:
                    dt = app.env.get_doctree(docname)
                    doctrees[docname] = dt.pformat()
                    if extract is not None:
                        out.setdefault("extracted", {})[docname] = extract(dt)
                except Exception as exc:  # noqa: BLE001
                    doctrees[docname] = f"<no doctree: {exc}>"
            html = {}
            if builder == "html":
                for docname in sorted(app.env.found_docs):
                    p = os.path.join(d, "out", docname + ".html")
                    if os.path.exists(p):
                        html[docname] = open(p, encoding="utf8").read()
            out = {"extracted": out.get("extracted", {}), "doctrees": doctrees, "html": html, "warnings": [ln for ln in warning.getvalue().splitlines() if ln.strip()],
                   "srcdir": src, "statuscode": app.statuscode}
    finally:
        if not keep:
            shutil.rmtree(d, ignore_errors=True)
    return out


def strip_tmp(s, srcdir):
    return s.replace(srcdir, "<src>")
