"""A docutils-tree well-formedness checker (the statement of C03), independent of MyST code."""
from __future__ import annotations


def check_tree(doc, warning_lines=()):
    """-> list of (rule, message) violations."""
    from docutils import nodes

    out = []
    seen = {}
    stack = [doc]
    while stack:
        n = stack.pop()
        if id(n) in seen:
            out.append(("occurs-once", f"{n.tagname if hasattr(n, 'tagname') else 'Text'} node occurs twice in the tree: {n.astext()[:40]!r}"))
            continue
        seen[id(n)] = n
        for c in getattr(n, "children", []):
            if c.parent is not n:
                out.append(("single-parent", f"<{getattr(c, 'tagname', '#text')}> {c.astext()[:30]!r} under <{n.tagname}> has parent <{getattr(c.parent, 'tagname', None)}>"))
            stack.append(c)
    for s in doc.findall(nodes.section):
        if not isinstance(s.parent, (nodes.document, nodes.section)):
            out.append(("section-parent", f"section {s['ids']} directly under <{s.parent.tagname}>"))
        if not len(s) or not isinstance(s[0], nodes.title):
            out.append(("section-title", f"section {s['ids']} does not start with a title"))
    for t in doc.findall(nodes.transition):
        if not isinstance(t.parent, (nodes.document, nodes.section)):
            out.append(("transition-parent", f"transition directly under <{t.parent.tagname}>"))
    ids = {}
    for n in doc.findall(lambda x: isinstance(x, nodes.Element)):
        for i in n.get("ids", []):
            if i in ids and ids[i] is not n:
                out.append(("unique-ids", f"id {i!r} on <{ids[i].tagname}> and <{n.tagname}>"))
            ids[i] = n
    missing_warned = " ".join(warning_lines)
    for n in doc.findall(lambda x: isinstance(x, nodes.Element)):
        if "refid" not in n.attributes:
            continue
        rid = n["refid"]
        if rid is None or rid not in ids:
            if isinstance(n, (nodes.reference, nodes.footnote_reference, nodes.target)):
                # excused only by a warning ABOUT THIS target ('... target not found: <name>', docutils' 'Unknown target name: <name>'),
                # or by docutils' duplicate / unreferenced reports
                from urllib.parse import unquote

                if rid is not None and any(("not found" in ln or "Unknown target" in ln) and (str(rid) in ln or unquote(str(rid)) in ln) for ln in warning_lines):
                    continue
                if rid is not None and ("nreferenced" in missing_warned or "Duplicate" in missing_warned):
                    continue
                out.append(("refid-exists", f"<{n.tagname}> refid {rid!r} does not exist in the tree"))
        for b in n.get("backrefs", []) if isinstance(n, (nodes.footnote,)) else []:
            if b not in ids:
                out.append(("backref-exists", f"footnote backref {b!r} does not exist"))
    for tg in doc.findall(nodes.tgroup):
        cols = tg.get("cols")
        for row in tg.findall(nodes.row):
            if len(row) != cols:
                out.append(("table-cells", f"row with {len(row)} cells in a table declaring {cols} columns"))
    for fn in doc.findall(nodes.footnote):
        if not len(fn) or not isinstance(fn[0], nodes.label):
            out.append(("footnote-label", f"footnote {fn['ids']} does not start with its label"))
    return out
