"""pyvc: a small verification-condition generator for a subset of Python (see DESIGN.md)."""
