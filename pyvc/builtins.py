"""Models of Python builtins and str/list/dict methods.

Every model states its own failure condition through `partial` (an obligation, or
an exceptional fork when the exception is expected by a handler / raises clause).
Models are cross-checked against CPython by pyvc.selftest.
"""
from __future__ import annotations

import ast

import z3

from . import sym
from .expr import is_strlike
from .state import EngineError, Raised, State
from .sym import (
    BOOL,
    BYTES,
    CONST,
    INT,
    NONE,
    STR,
    SV,
    Const,
    TAny,
    TBool,
    TBytes,
    TConst,
    TDict,
    TInt,
    TList,
    TNone,
    TOpt,
    TRef,
    TSet,
    TStr,
    TTuple,
    mk_const,
    sort_of,
)

HEX = "0123456789abcdefABCDEF"
# str.isspace() / the default strip()/split() whitespace set of CPython for str
PY_WS = [9, 10, 11, 12, 13, 28, 29, 30, 31, 32, 133, 160, 5760] + list(range(8192, 8203)) + [
    8232, 8233, 8239, 8287, 12288]
BYTES_WS = [9, 10, 11, 12, 13, 32]


def is_ws(c, t=STR):
    ws = BYTES_WS if isinstance(t, TBytes) else PY_WS
    return z3.Or(*[c == w for w in ws])


class BuiltinMixin:
    def call_builtin(self, name, args, kwargs, st: State, node):
        m = getattr(self, "bi_" + name, None)
        if m is None:
            raise EngineError(f"builtin {name} is not modelled")
        r = m(args, kwargs, st, node)
        return r if isinstance(r, list) else [(st, r)]

    def bi_len(self, args, kwargs, st, node):
        (v,) = args
        v = self.unbox(v, st)
        t = v.t
        if isinstance(t, TOpt):
            self.partial(st, z3.Not(sym.opt_is_none(v)), "TypeError", node)
            v = sym.opt_val(v)
            t = v.t
        if isinstance(t, TRef):
            # len(obj): the class's __len__ (contracted repo method or assumed external one)
            out = []
            for s2, m in self.getattr(v, "__len__", st, node):
                out.extend(self.apply(m, [], {}, s2, node))
            return out
        if is_strlike(t):
            if v.const is not None:
                return mk_const(len(v.const.v))
            return SV(INT, self.seq_len(v.z))
        if isinstance(t, TList):
            if t.elem is None:
                return mk_const(0)
            return SV(INT, self.seq_len(v.z))
        if isinstance(t, TDict):
            return SV(INT, z3.Length(v.extra["keys"]))
        items = self.tuple_items(v)
        if items is not None:
            return mk_const(len(items))
        if isinstance(t, TConst) and v.const is not None:
            return mk_const(len(v.const.v))
        raise EngineError(f"len of {t!r}")

    def bi_cast(self, args, kwargs, st, node):
        return args[1]

    def bi_bool(self, args, kwargs, st, node):
        return SV(BOOL, self.truthy(args[0], st))

    def bi_isinstance(self, args, kwargs, st, node):
        v, c = args
        ex = c.extra
        names = []
        if isinstance(ex, tuple) and ex[0] == "class":
            names = [ex[2]]
        elif isinstance(ex, list):
            for it in ex:
                if isinstance(it.extra, tuple) and it.extra[0] == "class":
                    names.append(it.extra[2])
                else:
                    names = None
                    break
        elif isinstance(ex, tuple) and ex[0] == "builtin":
            # isinstance(x, str) etc on modelled sorts is decided by the static type
            tn = ex[1]
            tmap = {"str": TStr, "int": (TInt, TBool), "bool": TBool, "bytes": TBytes,
                    "list": TList, "dict": TDict, "tuple": TTuple}
            if tn in tmap:
                t = v.t
                if isinstance(t, TOpt):
                    return SV(BOOL, z3.And(z3.Not(sym.opt_is_none(v)),
                                           z3.BoolVal(isinstance(t.inner, tmap[tn]))))
                if isinstance(t, TAny):
                    raise EngineError("isinstance on opaque value")
                return mk_const(isinstance(t, tmap[tn]))
        if not names:
            raise EngineError(f"isinstance against unmodelled class: {ast.unparse(node)}")
        conds = []
        for n in names:
            c2 = self.isinstance_cond(st, v, n)
            if c2 is None:
                raise EngineError(f"isinstance on {v.t!r}")
            conds.append(c2)
        return SV(BOOL, z3.Or(*conds))

    def bi_int(self, args, kwargs, st, node):
        v = args[0]
        if isinstance(v.t, (TInt, TBool)):
            return sym.coerce(v, INT)
        if not isinstance(v.t, TStr):
            raise EngineError(f"int() of {v.t!r}")
        base = 10
        if len(args) > 1:
            if args[1].const is None:
                raise EngineError("int() with symbolic base")
            base = args[1].const.v
        if base == 10:
            if v.char is not None:
                ok = z3.And(v.char >= 48, v.char <= 57)
                # other Unicode decimal digits are accepted by int() too; we only claim the
                # ASCII digits are safe (a sufficient condition), anything else is an obligation
                self.partial(st, ok, "ValueError", node)
                return SV(INT, v.char - 48)
            f = z3.Function("IntOfDec", sym.IntSeq, z3.IntSort())
            okf = z3.Function("IsDecInt", sym.IntSeq, z3.BoolSort())
            self.partial(st, okf(v.z), "ValueError", node)
            return SV(INT, f(v.z))
        if base == 16:
            n = sym.lsimp(z3.Length(v.z))
            ln = self.concrete_len(v, st)
            if ln is None:
                raise EngineError("int(s, 16) on a string of unknown length")
            if ln == 0:
                self.partial(st, z3.BoolVal(False), "ValueError", node)
            total = z3.IntVal(0)
            oks = []
            for j in range(ln):
                c = self.seq_nth(v.z, z3.IntVal(j))
                oks.append(z3.Or(*[c == ord(h) for h in HEX]))
                d = z3.If(
                    c <= 57, c - 48, z3.If(c <= 70, c - 55, c - 87)
                )  # '0'-'9', 'A'-'F', 'a'-'f'
                total = total * 16 + d
            # all-hex-digits is a sufficient condition for int(s,16) to succeed with this value
            self.partial(st, z3.And(*oks), "ValueError", node)
            return SV(INT, total)
        raise EngineError(f"int() base {base}")

    def concrete_len(self, v: SV, st: State):
        """The length of a string if the path condition fixes it to one small constant."""
        if v.const is not None:
            return len(v.const.v)
        n = z3.Length(v.z)
        vals = self.enumerate_values(st, n, limit=1)
        if vals is not None and len(vals) == 1:
            return vals[0]
        return None

    def bi_chr(self, args, kwargs, st, node):
        (v,) = args
        if not isinstance(v.t, TInt):
            raise EngineError("chr of non-int")
        # chr raises ValueError outside range(0x110000) and OverflowError beyond a C int
        self.partial(st, z3.And(v.z >= -(2**31), v.z <= 2**31 - 1), "OverflowError", node)
        self.partial(st, z3.And(v.z >= 0, v.z <= 0x10FFFF), "ValueError", node)
        return SV(STR, z3.Unit(v.z), char=v.z)

    def bi_ord(self, args, kwargs, st, node):
        (v,) = args
        if v.char is not None:
            return SV(INT, v.char)
        self.partial(st, z3.Length(v.z) == 1, "TypeError", node)
        return SV(INT, v.z[0])

    def bi_str(self, args, kwargs, st, node):
        if not args:
            return mk_const("")
        (v,) = args
        if isinstance(v.t, TStr):
            return v
        if isinstance(v.t, TInt):
            return SV(STR, self.dec_str(v.z, st))
        g = self.ghost_str(v, st)
        if g is not None:
            return SV(STR, g)
        return sym.fresh(STR, "str")

    def bi_repr(self, args, kwargs, st, node):
        return sym.fresh(STR, "repr")

    def bi_max(self, args, kwargs, st, node):
        return self._minmax(args, st, node, True)

    def bi_min(self, args, kwargs, st, node):
        return self._minmax(args, st, node, False)

    def _minmax(self, args, st, node, is_max):
        if len(args) == 2 and all(isinstance(a.t, TInt) for a in args):
            a, b = args
            return SV(INT, z3.If((a.z >= b.z) if is_max else (a.z <= b.z), a.z, b.z))
        if len(args) == 1 and isinstance(args[0].t, TList) and isinstance(args[0].t.elem, TInt) and not (
                isinstance(args[0].extra, tuple) and args[0].extra and args[0].extra[0] == "listcomp"):
            s = args[0].z
            n = z3.Length(s)
            self.partial(st, n > 0, "ValueError", node)
            r = z3.Int(sym.fresh_name("max" if is_max else "min"))
            i = z3.Int(sym.fresh_name("i"))
            w = z3.Int(sym.fresh_name("w"))
            st.assume(z3.And(w >= 0, w < n, s[w] == r))
            st.assume(
                z3.ForAll([i], z3.Implies(z3.And(i >= 0, i < n), (s[i] <= r) if is_max else (s[i] >= r)))
            )
            return SV(INT, r)
        if len(args) == 1 and isinstance(args[0].extra, tuple) and args[0].extra and args[0].extra[0] == "listcomp":
            return self.max_of_filter(args[0], st, node, is_max)
        raise EngineError("max/min form not modelled")

    def bi_replace(self, args, kwargs, st, node):
        obj = args[0]
        if isinstance(obj.t, TOpt):
            self.partial(st, z3.Not(sym.opt_is_none(obj)), "TypeError", node)
            obj = sym.opt_val(obj)
        if not isinstance(obj.t, TRef):
            raise EngineError("dataclasses.replace on non-object")
        mod, ci = self.class_info(obj.t.cls)
        if mod is None:
            raise EngineError("replace on unknown class")
        # the dynamic class may be a subclass; require the static class to have no dataclass subclasses with extra fields
        subs = [c for c in mod.subclasses(obj.t.cls) if c != obj.t.cls]
        if subs:
            raise EngineError("dataclasses.replace on a class with subclasses")
        ref = st.new_ref(obj.t.cls)
        self.set_class_tag(st, ref.z, obj.t.cls)
        for fname, ann, default in mod.dataclass_fields(obj.t.cls):
            key, ft = self.field_decl(obj.t.cls, fname)
            if fname in kwargs:
                v = sym.coerce(self.reify(kwargs[fname]), ft)
            else:
                v = st.load(obj.z, key, ft)
            st.store_field(ref.z, key, v)
        for k in kwargs:
            if k not in [f[0] for f in mod.dataclass_fields(obj.t.cls)]:
                self.partial(st, z3.BoolVal(False), "TypeError", node)
        return ref

    def bi_dict(self, args, kwargs, st, node):
        if not args and not kwargs:
            return SV(CONST, None, Const({}))
        (v,) = args
        if isinstance(v.t, TConst) and isinstance(v.extra, tuple) and v.extra[0] == "dictitems":
            return v.extra[1]  # dict(d.items()): a copy of d (dict values are immutable values in this model)
        v = self.reify(v) if isinstance(v.t, TConst) else v
        if isinstance(v.t, TList):
            if v.t.elem is None:
                return SV(CONST, None, Const({}))
            if isinstance(v.t.elem, TTuple) and len(v.t.elem.elems) == 2:
                return self.dict_from_pairs(v, st)
        if isinstance(v.t, TDict):
            return v
        raise EngineError(f"dict() of {v.t!r}")

    def dict_from_pairs(self, v: SV, st):
        """dict(list of pairs): later pairs win; key order = order of first occurrence."""
        kt, vt = v.t.elem.elems
        t = TDict(kt, vt)
        d = sym.fresh(t, "dict")
        pairs = v.z
        n = z3.Length(pairs)
        ps = sort_of(v.t.elem)
        i = z3.Int(sym.fresh_name("i"))
        j = z3.Int(sym.fresh_name("j"))
        k = z3.Const(sym.fresh_name("k"), sort_of(kt))
        has, val, keys = d.extra["has"], d.extra["val"], d.extra["keys"]
        f0, f1 = ps.accessor(0, 0), ps.accessor(0, 1)
        # every pair's key is present; the value is that of the last pair with the key
        st.assume_raw(z3.ForAll([i], z3.Implies(z3.And(i >= 0, i < n), z3.Select(has, f0(pairs[i])))))
        st.assume_raw(
            z3.ForAll(
                [i],
                z3.Implies(
                    z3.And(i >= 0, i < n,
                           z3.Not(z3.Exists([j], z3.And(j > i, j < n, f0(pairs[j]) == f0(pairs[i]))))),
                    z3.Select(val, f0(pairs[i])) == f1(pairs[i]),
                ),
            )
        )
        st.assume_raw(
            z3.ForAll([k], z3.Implies(z3.Select(has, k),
                                      z3.Exists([i], z3.And(i >= 0, i < n, f0(pairs[i]) == k))))
        )
        st.assume_raw(z3.Length(keys) <= n)
        st.assume_raw(z3.ForAll([k], z3.Select(has, k) == z3.Contains(keys, z3.Unit(k))))
        return d

    def bi_list(self, args, kwargs, st, node):
        if not args:
            return SV(TList(None), None)
        (v,) = args
        v = self.reify(v) if isinstance(v.t, TConst) else v
        if isinstance(v.t, TList):
            return v
        raise EngineError(f"list() of {v.t!r}")

    def bi_tuple(self, args, kwargs, st, node):
        return self.bi_list(args, kwargs, st, node)

    def _any_all(self, args, st, is_any):
        (xs,) = args
        if isinstance(xs.extra, tuple) and xs.extra[0] == "listcomp":
            xs = self.materialize_comp(xs, st)
        xs = self.reify(xs) if isinstance(xs.t, TConst) else xs
        if not isinstance(xs.t, TList):
            raise EngineError(f"any/all of {xs.t!r}")
        if xs.t.elem is None:
            return mk_const(not is_any)
        i = z3.Int(sym.fresh_name("q.anyall"))
        n = self.seq_len(xs.z)
        el = self.truthy(SV(xs.t.elem, self.seq_nth(xs.z, i)))
        rng = z3.And(i >= 0, i < n)
        if is_any:
            return SV(BOOL, z3.Exists([i], z3.And(rng, el)))
        return SV(BOOL, z3.ForAll([i], z3.Implies(rng, el)))

    def bi_any(self, args, kwargs, st, node):
        return self._any_all(args, st, True)

    def bi_all(self, args, kwargs, st, node):
        return self._any_all(args, st, False)

    def bi_getattr(self, args, kwargs, st, node):
        """getattr(obj, "name"[, default]) with a literal name of a DECLARED field or method of obj's class:
        the attribute then always exists, so the default is never used."""
        if len(args) not in (2, 3) or args[1].const is None or not isinstance(args[1].const.v, str):
            raise EngineError("getattr with a non-literal name is not modelled")
        return self.getattr(args[0], args[1].const.v, st, node)

    def bi_hasattr(self, args, kwargs, st, node):
        """hasattr(obj, "name") on an object whose class declares the ghost flag `g_has_<name>` (a bool field)."""
        v, n = args
        if n.const is None or not isinstance(n.const.v, str) or not isinstance(v.t, TRef):
            raise EngineError("hasattr is only modelled for a literal name on an object with a declared g_has_<name> flag")
        fd = self.field_decl(v.t.cls, f"g_has_{n.const.v}")
        if fd is None:
            raise EngineError(f"hasattr({v.t.cls}, {n.const.v!r}): no g_has_{n.const.v} flag declared")
        return st.load(v.z, fd[0], fd[1])

    def bi_issubclass(self, args, kwargs, st, node):
        """issubclass(cls_value, Name) on a class-valued object whose pseudo-class declares the ghost flag `g_issub_<Name>`."""
        v = args[0]
        cname = ast.unparse(node.args[1]).split(".")[-1] if isinstance(node, ast.Call) and len(node.args) == 2 else None
        if isinstance(v.t, TOpt):
            self.partial(st, z3.Not(sym.opt_is_none(v)), "TypeError", node, label="issubclass() arg 1 must be a class")
            v = sym.opt_val(v)
        if cname is None or not isinstance(v.t, TRef):
            raise EngineError("issubclass is only modelled for a class-valued object with a declared g_issub_<Name> flag")
        fd = self.field_decl(v.t.cls, f"g_issub_{cname}")
        if fd is None:
            raise EngineError(f"issubclass({v.t.cls}, {cname}): no g_issub_{cname} flag declared")
        return st.load(v.z, fd[0], fd[1])

    def bi_callable(self, args, kwargs, st, node):
        raise EngineError("callable is not modelled")

    # ------------------------------------------------------------------
    # methods of builtin types
    def call_method_builtin(self, recv: SV, name, args, kwargs, st: State, node):
        recv = self.unbox(recv, st)
        t = recv.t
        if isinstance(t, TOpt):
            self.partial(st, z3.Not(sym.opt_is_none(recv)), "AttributeError", node)
            recv = sym.opt_val(recv)
            t = recv.t
        if isinstance(t, TConst) and recv.const is not None and isinstance(recv.const.v, (str, bytes)):
            recv = mk_const(recv.const.v)
            t = recv.t
        if is_strlike(t):
            m = getattr(self, "sm_" + name, None)
            if m is None:
                raise EngineError(f"str.{name} is not modelled")
            r = m(recv, args, kwargs, st, node)
            return r if isinstance(r, list) else [(st, r)]
        if isinstance(t, TList):
            m = getattr(self, "lm_" + name, None)
            if m is None:
                raise EngineError(f"list.{name} is not modelled")
            r = m(recv, args, kwargs, st, node)
            return r if isinstance(r, list) else [(st, r)]
        if isinstance(t, TDict) or (isinstance(t, TConst) and recv.const is not None and isinstance(recv.const.v, dict)):
            m = getattr(self, "dm_" + name, None)
            if m is None:
                raise EngineError(f"dict.{name} is not modelled")
            r = m(recv, args, kwargs, st, node)
            return r if isinstance(r, list) else [(st, r)]
        raise EngineError(f"method {name} on {t!r}: {ast.unparse(node)}")

    # -- str ------------------------------------------------------------
    def sm_join(self, recv, args, kwargs, st, node):
        (xs,) = args
        if isinstance(xs.extra, tuple) and xs.extra[0] == "listcomp":
            xs = self.materialize_comp(xs, st)
        xs = self.reify(xs) if isinstance(xs.t, TConst) else xs
        if not isinstance(xs.t, TList):
            raise EngineError("join of non-list")
        if xs.t.elem is None:
            return mk_const("" if isinstance(recv.t, TStr) else b"")
        if not is_strlike(xs.t.elem):
            self.partial(st, z3.Length(xs.z) == 0, "TypeError", node)
        if recv.const is None:
            raise EngineError("join with symbolic separator")
        return SV(recv.t, self.join(recv.const.v, xs.z, st))

    def join(self, sep, xs, st):
        """sep.join(xs) as an uninterpreted function with homomorphism instances."""
        key = "Join_" + "_".join(str(ord(c)) for c in sep) if sep else "Flat"
        f = z3.Function(key, z3.SeqSort(sym.IntSeq), sym.IntSeq)
        r = f(xs)
        for fact in self.join_facts(f, sep, xs, 0):
            st.assume_raw(fact)
        return r

    def join_facts(self, f, sep, xs, depth):
        """Valid instances of: f([])=''; f([a])=a; f(a++b)=f(a)+sep+f(b) for non-empty a, b."""
        facts = []
        sepz = sym.str_lit(sep)
        xs_s = sym.lsimp(xs)
        n = z3.Length(xs)
        facts.append(z3.Implies(n == 0, z3.Length(f(xs)) == 0))
        if z3.is_app(xs_s):
            k = xs_s.decl().kind()
            if k == z3.Z3_OP_SEQ_EMPTY:
                facts.append(f(xs) == z3.Empty(sym.IntSeq))
            elif k == z3.Z3_OP_SEQ_UNIT:
                facts.append(f(xs) == xs_s.children()[0])
            elif k == z3.Z3_OP_SEQ_EXTRACT and depth < 2 and not sep:
                # Flat(xs[o:o+l]) = xs[o] ++ Flat(xs[o+1:o+l])   (l > 0, slice in range)
                base, o, l = xs_s.children()
                nxt = z3.SubSeq(base, o + 1, l - 1)
                facts.append(z3.Implies(z3.And(l > 0, o >= 0, o + l <= z3.Length(base)),
                                        f(xs) == z3.Concat(base[o], f(nxt))))
                facts.append(z3.Implies(l <= 0, f(xs) == z3.Empty(sym.IntSeq)))
            elif k == z3.Z3_OP_SEQ_CONCAT and depth < 8:
                ch = xs_s.children()
                a, b = ch[0], (z3.Concat(*ch[1:]) if len(ch) > 2 else ch[1])
                la, lb = z3.Length(a), z3.Length(b)
                facts.append(
                    f(xs) == z3.If(la == 0, f(b), z3.If(lb == 0, f(a), z3.Concat(f(a), sepz, f(b)) if sep else z3.Concat(f(a), f(b))))
                )
                facts.extend(self.join_facts(f, sep, a, depth + 1))
                facts.extend(self.join_facts(f, sep, b, depth + 1))
        return facts

    def _affix_args(self, args):
        (a,) = args[:1]
        items = self.tuple_items(a)
        return items if items is not None else [a]

    def sm_startswith(self, recv, args, kwargs, st, node):
        if len(args) != 1:
            raise EngineError("startswith with offsets")
        cs = []
        for p in self._affix_args(args):
            if not is_strlike(p.t):
                raise EngineError("startswith arg")
            if p.const is not None:
                lit = p.const.v
                cps = list(lit) if isinstance(lit, bytes) else [ord(c) for c in lit]
                cs.append(z3.And(z3.Length(recv.z) >= len(cps),
                                 *[self.seq_nth(recv.z, z3.IntVal(j)) == c for j, c in enumerate(cps)]))
            else:
                cs.append(z3.PrefixOf(p.z, recv.z))
        return SV(BOOL, z3.Or(*cs))

    def sm_endswith(self, recv, args, kwargs, st, node):
        if len(args) != 1:
            raise EngineError("endswith with offsets")
        cs = []
        n = z3.Length(recv.z)
        for p in self._affix_args(args):
            if p.const is not None:
                lit = p.const.v
                cps = list(lit) if isinstance(lit, bytes) else [ord(c) for c in lit]
                k = len(cps)
                cs.append(z3.And(n >= k, *[recv.z[n - k + j] == c for j, c in enumerate(cps)]))
            else:
                cs.append(z3.SuffixOf(p.z, recv.z))
        return SV(BOOL, z3.Or(*cs))

    def sm_find(self, recv, args, kwargs, st, node):
        if len(args) != 1:
            raise EngineError("find with offsets")
        (p,) = args
        r = z3.IndexOf(recv.z, p.z, z3.IntVal(0))
        v = SV(INT, r)
        n = z3.Length(recv.z)
        st.assume(z3.And(r >= -1, r <= n))
        if p.const is not None and len(p.const.v) == 1:
            c = p.const.v[0] if isinstance(p.const.v, bytes) else ord(p.const.v)
            # lemma instances for single-character search
            st.assume(z3.Implies(r >= 0, z3.And(r < n, recv.z[r] == c)))
            i = z3.Int(sym.fresh_name("i"))
            st.assume(z3.ForAll([i], z3.Implies(z3.And(i >= 0, i < z3.If(r >= 0, r, n)), recv.z[i] != c)))
            rz = recv.z
            if z3.is_app(rz) and rz.decl().kind() == z3.Z3_OP_SEQ_CONCAT and rz.num_args() == 2:
                # find in a ++ b: the first occurrence in a if there is one, else |a| + the first occurrence in b
                a, b = rz.children()
                fa = z3.IndexOf(a, p.z, z3.IntVal(0))
                fb = z3.IndexOf(b, p.z, z3.IntVal(0))
                st.assume(z3.Implies(fa >= 0, r == fa))
                st.assume(z3.Implies(fa < 0, r == z3.If(fb >= 0, z3.Length(a) + fb, -1)))
        return v

    def _strip(self, recv, args, st, left, right, node):
        chars = None
        if args:
            if isinstance(args[0].t, TNone):
                chars = None
            elif args[0].const is None:
                raise EngineError("strip with symbolic chars")
            else:
                lit = args[0].const.v
                chars = list(lit) if isinstance(lit, bytes) else [ord(c) for c in lit]
        t = recv.t
        s = recv.z
        n = z3.Length(s)
        # the cut points are FUNCTIONS of the string (one per mode / character set / string type): two evaluations of
        # s.lstrip() on equal strings are the same term, no uniqueness argument is left to the solver
        mode = ("l" if left else "") + ("r" if right else "")
        key = f"{mode}.{'ws' if chars is None else '_'.join(map(str, chars))}.{'b' if isinstance(t, sym.TBytes) else 's'}" if hasattr(sym, "TBytes") else \
            f"{mode}.{'ws' if chars is None else '_'.join(map(str, chars))}.{type(t).__name__}"
        a = z3.Function(f"strip.a.{key}", s.sort(), z3.IntSort())(s) if left else z3.IntVal(0)
        b = z3.Function(f"strip.b.{key}", s.sort(), z3.IntSort())(s) if right else n
        isw = (lambda c: is_ws(c, t)) if chars is None else (lambda c: z3.Or(*[c == x for x in chars]))
        st.assume(z3.And(a >= 0, a <= b, b <= n))
        i = z3.Int(sym.fresh_name("i"))
        if left:
            st.assume(z3.ForAll([i], z3.Implies(z3.And(i >= 0, i < a), isw(s[i]))))
            st.assume(z3.Implies(a < n, z3.Or(a == b, z3.Not(isw(s[a])))))
        if right:
            st.assume(z3.ForAll([i], z3.Implies(z3.And(i >= b, i < n), isw(s[i]))))
            st.assume(z3.Implies(b > 0, z3.Or(a == b, z3.Not(isw(s[b - 1])))))
        if left and right:
            # an all-whitespace string strips to "" : a == b  (the split point is then arbitrary)
            pass
        r = z3.SubSeq(s, a, b - a)
        st.assume(z3.Length(r) == b - a)
        return SV(t, r)

    def sm_format(self, recv, args, kwargs, st, node):
        """template.format(...): some string (havoc) - what the formatted text is is not modelled; the arguments have been evaluated."""
        return sym.fresh(recv.t if isinstance(recv.t, TStr) else STR, "fmt")

    def sm_strip(self, recv, args, kwargs, st, node):
        return self._strip(recv, args, st, True, True, node)

    def sm_lstrip(self, recv, args, kwargs, st, node):
        return self._strip(recv, args, st, True, False, node)

    def sm_rstrip(self, recv, args, kwargs, st, node):
        return self._strip(recv, args, st, False, True, node)

    def sm_decode(self, recv, args, kwargs, st, node):
        f = z3.Function("Utf8Decode", sym.IntSeq, sym.IntSeq)
        ok = z3.Function("Utf8Valid", sym.IntSeq, z3.BoolSort())
        self.partial(st, ok(recv.z), "UnicodeDecodeError", node)
        return SV(STR, f(recv.z))

    def sm_isdigit(self, recv, args, kwargs, st, node):
        f = z3.Function("IsDigitStr", sym.IntSeq, z3.BoolSort())
        return SV(BOOL, f(recv.z))

    def sm_lower(self, recv, args, kwargs, st, node):
        f = z3.Function("spec.Lower", sym.IntSeq, sym.IntSeq)  # same symbol as an abstract @spec Lower
        return SV(STR, f(recv.z))

    def sm_casefold(self, recv, args, kwargs, st, node):
        f = z3.Function("spec.Casefold", sym.IntSeq, sym.IntSeq)
        return SV(STR, f(recv.z))

    def sm_upper(self, recv, args, kwargs, st, node):
        f = z3.Function("spec.Upper", sym.IntSeq, sym.IntSeq)
        return SV(STR, f(recv.z))

    def sm_replace(self, recv, args, kwargs, st, node):
        """s.replace(old, new) for constant old/new: uninterpreted per (old, new) pair."""
        if len(args) != 2 or args[0].const is None or args[1].const is None:
            raise EngineError("str.replace with non-constant arguments")
        key = "spec.Replace_" + "_".join(str(ord(c)) for c in args[0].const.v) + "__" + "_".join(str(ord(c)) for c in args[1].const.v)
        f = z3.Function(key, sym.IntSeq, sym.IntSeq)
        return SV(recv.t, f(recv.z))

    def sm_splitlines(self, recv, args, kwargs, st, node):
        """s.splitlines(): uninterpreted (the same symbol as an abstract @spec SplitLines); nothing about WHERE lines end
        is assumed, so what is proved holds for any notion of line boundary."""
        if args or kwargs:
            raise EngineError("splitlines(keepends) is not modelled")
        f = z3.Function("spec.SplitLines", sym.IntSeq, z3.SeqSort(sym.IntSeq))
        return SV(TList(recv.t), f(recv.z))

    def sm_split(self, recv, args, kwargs, st, node):
        sep = args[0] if args else mk_const(None)
        maxsplit = args[1] if len(args) > 1 else kwargs.get("maxsplit")
        if isinstance(sep.t, TNone):
            return self.split_ws(recv, maxsplit, st, node)
        if sep.const is None or len(sep.const.v) != 1:
            raise EngineError("split with non-constant / multi-char separator")
        c = ord(sep.const.v) if isinstance(sep.const.v, str) else sep.const.v[0]
        if maxsplit is None:
            # s.split(c) without a limit: a function of the string; what is known is the number of pieces - at least one, two or
            # more exactly when the separator occurs - and that a string without the separator is its only piece
            f = z3.Function(f"spec.SplitOn_{c}", sym.IntSeq, z3.SeqSort(sym.IntSeq))
            r = f(recv.z)
            has = z3.Contains(recv.z, z3.Unit(z3.IntVal(c)))
            st.assume(z3.Length(r) >= 1)
            st.assume((z3.Length(r) >= 2) == has)
            st.assume(z3.Implies(z3.Not(has), r == z3.Unit(recv.z)))
            return SV(TList(recv.t), r)
        if maxsplit.const is None or maxsplit.const.v != 1:
            raise EngineError("split(sep, maxsplit) is only modelled for maxsplit=1")
        s = recv.z
        n = z3.Length(s)
        p = z3.IndexOf(s, z3.Unit(z3.IntVal(c)), z3.IntVal(0))
        st.assume(z3.And(p >= -1, p < n))
        st.assume(z3.Implies(p >= 0, s[p] == c))
        i = z3.Int(sym.fresh_name("i"))
        st.assume(z3.ForAll([i], z3.Implies(z3.And(i >= 0, i < z3.If(p >= 0, p, n)), s[i] != c)))
        head = z3.SubSeq(s, 0, p)
        tail = z3.SubSeq(s, p + 1, n - p - 1)
        st.assume(z3.Implies(p >= 0, z3.And(z3.Length(head) == p, z3.Length(tail) == n - p - 1)))
        two = z3.Concat(z3.Unit(head), z3.Unit(tail))
        one = z3.Unit(s)
        r = SV(TList(recv.t), z3.If(p >= 0, two, one))
        return r

    def sm_partition(self, recv, args, kwargs, st, node):
        """s.partition(c) for a 1-char constant c -> (head, sep, tail); (s, "", "") when c does not occur."""
        (sep,) = args
        if sep.const is None or len(sep.const.v) != 1:
            raise EngineError("partition with non-constant / multi-char separator")
        c = ord(sep.const.v) if isinstance(sep.const.v, str) else sep.const.v[0]
        s = recv.z
        n = z3.Length(s)
        p = z3.IndexOf(s, z3.Unit(z3.IntVal(c)), z3.IntVal(0))
        st.assume(z3.And(p >= -1, p < n))
        st.assume(z3.Implies(p >= 0, s[p] == c))
        i = z3.Int(sym.fresh_name("i"))
        st.assume(z3.ForAll([i], z3.Implies(z3.And(i >= 0, i < z3.If(p >= 0, p, n)), s[i] != c)))
        head = z3.If(p >= 0, z3.SubSeq(s, 0, p), s)
        tail = z3.If(p >= 0, z3.SubSeq(s, p + 1, n - p - 1), z3.Empty(sym.IntSeq))
        sepz = z3.If(p >= 0, z3.Unit(z3.IntVal(c)), z3.Empty(sym.IntSeq))
        st.assume(z3.Implies(p >= 0, z3.And(z3.Length(z3.SubSeq(s, 0, p)) == p, z3.Length(z3.SubSeq(s, p + 1, n - p - 1)) == n - p - 1)))
        return sym.tup_mk([SV(recv.t, head), SV(recv.t, sepz), SV(recv.t, tail)])

    def split_ws(self, recv, maxsplit, st, node):
        """str.split() / split(None, k): uninterpreted result with the facts callers rely on."""
        t = TList(recv.t)
        # split is a function of its arguments: the same string (and limit) always gives the same list
        if maxsplit is None:
            r = SV(t, z3.Function("SplitWs", sym.IntSeq, z3.SeqSort(sym.IntSeq))(recv.z))
        elif isinstance(maxsplit.t, TInt):
            r = SV(t, z3.Function("SplitWsK", sym.IntSeq, z3.IntSort(), z3.SeqSort(sym.IntSeq))(recv.z, maxsplit.z))
        else:
            raise EngineError("maxsplit type")
        n = z3.Length(r.z)
        st.assume(n >= 0)
        if maxsplit is not None:
            if not isinstance(maxsplit.t, TInt):
                raise EngineError("maxsplit type")
            k = maxsplit.z
            full = z3.Function("SplitWsCount", sym.IntSeq, z3.IntSort())
            st.assume(full(recv.z) >= 0)
            # with maxsplit=k >= 0 the result has min(count, k+1) items; k < 0 means no limit
            st.assume(n == z3.If(k < 0, full(recv.z), z3.If(full(recv.z) <= k + 1, full(recv.z), k + 1)))
        else:
            full = z3.Function("SplitWsCount", sym.IntSeq, z3.IntSort())
            st.assume(n == full(recv.z))
        return r

    # -- list -----------------------------------------------------------
    def lm___len__(self, recv, args, kwargs, st, node):
        return self.bi_len([recv], {}, st, node)

    def lm_append(self, recv, args, kwargs, st, node):
        raise EngineError("list.append must be a statement on a local variable")

    # -- dict ---------------------------------------------------------------
    def dm_items(self, recv, args, kwargs, st, node):
        if not isinstance(recv.t, TDict):
            raise EngineError("items() of a constant dict")
        return SV(CONST, None, None, extra=("dictitems", recv))

    def dm_keys(self, recv, args, kwargs, st, node):
        if not isinstance(recv.t, TDict):
            raise EngineError("keys() of a constant dict")
        return SV(TList(recv.t.k), recv.extra["keys"])

    def dm_get(self, recv, args, kwargs, st, node):
        if isinstance(recv.t, TDict):
            k = sym.coerce(args[0], recv.t.k)
            has = z3.Select(recv.extra["has"], k.z)
            val = SV(recv.t.v, z3.Select(recv.extra["val"], k.z))
            default = args[1] if len(args) > 1 else mk_const(None)
            m = self.merge_ite(has, val, default)
            if m is None:
                raise EngineError("dict.get result types")
            return m
        raise EngineError("dict.get on constant dict")
