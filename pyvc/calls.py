"""Name resolution, attribute access, calls (contracts, inlining, constructors)."""
from __future__ import annotations

import ast

import z3

from . import loader, sym
from .state import EngineError, Outcome, Raised, State
from .sym import (
    ANY,
    BOOL,
    CONST,
    INT,
    NONE,
    STR,
    SV,
    Const,
    TAny,
    TConst,
    TDict,
    TList,
    TNone,
    TOpt,
    TRef,
    TTuple,
    mk_const,
)

# builtin exception hierarchy (child -> parent)
BUILTIN_EXC = {
    "BaseException": None,
    "Exception": "BaseException",
    "ArithmeticError": "Exception",
    "ZeroDivisionError": "ArithmeticError",
    "OverflowError": "ArithmeticError",
    "AssertionError": "Exception",
    "AttributeError": "Exception",
    "LookupError": "Exception",
    "IndexError": "LookupError",
    "KeyError": "LookupError",
    "OSError": "Exception",
    "FileNotFoundError": "OSError",
    "RuntimeError": "Exception",
    "NotImplementedError": "RuntimeError",
    "RecursionError": "RuntimeError",
    "StopIteration": "Exception",
    "TypeError": "Exception",
    "ValueError": "Exception",
    "UnicodeError": "ValueError",
    "UnicodeDecodeError": "UnicodeError",
    "ImportError": "Exception",
    "UnsupportedNegativeDivisor": "Exception",
}


class Frame:
    def __init__(self, module, qualname, node, spec=None):
        self.module = module
        self.qualname = qualname
        self.node = node
        self.spec = spec
        self.cls = qualname.split(".")[0] if "." in qualname else None
        self.is_generator = any(
            isinstance(n, (ast.Yield, ast.YieldFrom)) for n in _walk_own(node)
        )
        self.ret_type = None
        self.yield_type = None


def _walk_own(fn):
    """Walk a function body without descending into nested function/class definitions."""
    todo = list(fn.body)
    while todo:
        n = todo.pop()
        if isinstance(n, (ast.FunctionDef, ast.AsyncFunctionDef, ast.ClassDef, ast.Lambda)):
            continue  # a nested definition at statement level: its body is not this function's
        yield n
        for c in ast.iter_child_nodes(n):
            if isinstance(c, (ast.FunctionDef, ast.AsyncFunctionDef, ast.ClassDef, ast.Lambda)):
                continue
            todo.append(c)


class CallMixin:
    # ------------------------------------------------------------------
    # exception classes
    def exc_parent(self, cls: str, module=None):
        if cls in BUILTIN_EXC:
            return BUILTIN_EXC[cls]
        if cls in self.ext_exc:
            return self.ext_exc[cls]
        for m in self.modules_in_use():
            ci = m.classes.get(cls)
            if ci:
                for b in ci.bases:
                    b = b.split(".")[-1]
                    return b
        return "Exception"

    def exc_subclass(self, c: str, of: str) -> bool:
        c = c.split(".")[-1]
        of = of.split(".")[-1]
        seen = 0
        while c is not None and seen < 50:
            if c == of:
                return True
            c = self.exc_parent(c)
            seen += 1
        return False

    def is_exception_class(self, mod, cname: str) -> bool:
        if cname in BUILTIN_EXC or cname in self.ext_exc:
            return True
        try:
            return any(b.split(".")[-1] in BUILTIN_EXC or b.split(".")[-1] in self.ext_exc for b in mod.external_bases(cname))
        except Exception:
            return False

    def exc_expected(self, st: State, cls: str) -> bool:
        for hs in st.handlers:
            for h in hs:
                if self.exc_subclass(cls, h):
                    return True
        spec = self.root_spec
        if spec is not None:
            for r in spec.raises:
                if self.exc_subclass(cls, r):
                    return True
        return False

    def partial(self, st: State, ok, cls: str, node, label=None):
        """A partial operation: `ok` must hold or exception `cls` is raised."""
        if st.spec:
            return
        okv = sym.lsimp(ok)
        if z3.is_true(okv):
            return
        what = label or (ast.unparse(node) if node is not None else "?")
        if self.exc_expected(st, cls):
            s2 = st.copy()
            s2.pc.extend(s2.guards)
            s2.guards = []
            s2.pc.append(z3.Not(ok))
            if self.feasible(s2):
                ref = self.alloc_exception(s2, cls)
                self.exc_collect[-1].append(
                    (s2, Raised(cls, ref, exact=True, node=node, origin=f"{cls}@{what}"))
                )
        else:
            self.oblige(st, f"no-{cls}", what, st.cond(ok), node)
        st.assume(ok)

    def alloc_exception(self, st, cls):
        r = st.new_ref(cls)
        return r

    # ------------------------------------------------------------------
    def lookup_global(self, n: str, st: State):
        fr = st.frame
        mod = fr.module
        if st.spec or True:
            sf = self.reg.specfuns.get(n)
            if sf is not None and st.spec:
                return SV(CONST, None, None, extra=("specfun", sf))
        if n in mod.consts:
            return self.module_const(mod, n)
        if n in mod.functions:
            return SV(CONST, None, None, extra=("func", f"{mod.dotted}:{n}"))
        if n in mod.classes:
            return SV(CONST, None, None, extra=("class", mod.dotted, n))
        if n in self.ext_exc:
            return SV(CONST, None, None, extra=("excclass", n))
        if n in mod.imports:
            origin = mod.imports[n]
            # function or class imported from another module of the repo
            if origin.startswith("myst_parser") or origin.startswith("."):
                om, _, oname = origin.rpartition(".")
                if om.startswith("."):
                    pkg = mod.dotted.rsplit(".", 1)[0]
                    om = pkg + om.rstrip(".") if om != "." else pkg
                    om = om if not origin.startswith("..") else om
                try:
                    m2 = loader.load(om, self.repo)
                except FileNotFoundError:
                    m2 = None
                if m2 is not None:
                    if oname in m2.functions:
                        return SV(CONST, None, None, extra=("func", f"{m2.dotted}:{oname}"))
                    if oname in m2.classes:
                        return SV(CONST, None, None, extra=("class", m2.dotted, oname))
                    if oname in m2.consts:
                        return self.module_const(m2, oname)
            return SV(CONST, None, None, extra=("external", origin))
        if n in BUILTIN_EXC or n in self.ext_exc:
            return SV(CONST, None, None, extra=("excclass", n))
        if n in self.BUILTIN_NAMES:
            return SV(CONST, None, None, extra=("builtin", n))
        sf = self.reg.specfuns.get(n)
        if sf is not None:
            return SV(CONST, None, None, extra=("specfun", sf))
        return None

    BUILTIN_NAMES = {
        "len", "int", "str", "chr", "ord", "isinstance", "issubclass", "max", "min", "cast",
        "replace", "dict", "list", "tuple", "set", "sorted", "enumerate", "range", "bool",
        "any", "all", "hasattr", "getattr", "setattr", "callable", "type", "repr", "reversed",
        "zip", "abs", "iter", "next", "super", "print", "dedent", "bytes", "frozenset", "id",
    }

    def module_const(self, mod, n):
        k = (mod.dotted, n)
        if k not in self.const_cache:
            node = mod.consts[n]
            s = State()
            s.frame = Frame(mod, "<module>", _EmptyFn(), None)
            s.spec = True
            try:
                r = self.ev(node, s)
            except EngineError as err:
                # not a modelled constant (compiled regexes, class objects, ...)
                self.const_cache[k] = SV(CONST, None, None, extra=("opaque-const", mod.dotted, n))
                return self.const_cache[k]
            if len(r) != 1 or isinstance(r[0][1], Raised):
                raise EngineError(f"module constant {n} is not a constant expression")
            self.const_cache[k] = r[0][1]
        return self.const_cache[k]

    # ------------------------------------------------------------------
    def class_info(self, cls: str):
        for m in self.modules_in_use():
            if cls in m.classes:
                return m, m.classes[cls]
        return None, None

    def field_decl(self, cls: str, fname: str):
        """-> (heap key, engine type) of field `fname` on static class `cls`, or None."""
        mod, ci = self.class_info(cls)
        chain = mod.mro(cls) if mod else [cls]
        found = None
        for c in chain:
            # dataclass annotation
            if mod and c in mod.classes:
                for f in mod.classes[c].fields:
                    if f[0] == fname:
                        t = loader.parse_type(f[1], mod)
                        if t is not None:
                            found = (c, t)
            for key, decl in self.reg.fields.items():
                if key.split(":")[1] == c and fname in decl:
                    m2 = mod or st_module_of(self, key)
                    t = self.parse_type_str(decl[fname], m2)
                    found = (c, t)
        if found is None:
            return None
        return f"{found[0]}.{fname}", found[1]

    def parse_type_str(self, s: str, mod):
        extra = set()
        for key in self.reg.fields:
            extra.add(key.split(":")[1])
        t = loader.parse_type(s, mod, extra_classes=extra)
        if t is None:
            raise EngineError(f"cannot parse type {s!r}")
        return t

    def class_id(self, cls: str) -> int:
        if cls not in self.class_ids:
            self.class_ids[cls] = len(self.class_ids) + 1
        return self.class_ids[cls]

    def class_tag(self, st: State, ref):
        arr = st._arr("__class__", z3.IntSort())
        return z3.Select(arr, ref)

    def set_class_tag(self, st: State, ref, cls: str):
        arr = st._arr("__class__", z3.IntSort())
        st.heap["__class__"] = z3.Store(arr, ref, z3.IntVal(self.class_id(cls)))

    def subclass_names(self, cls: str):
        mod, ci = self.class_info(cls)
        if mod is None:
            return [cls]
        return mod.subclasses(cls)

    def isinstance_cond(self, st: State, v: SV, cls: str):
        if isinstance(v.t, TNone):
            return z3.BoolVal(False)
        if isinstance(v.t, TOpt):
            return z3.And(
                z3.Not(sym.opt_is_none(v)), self.isinstance_cond(st, sym.opt_val(v), cls)
            )
        if not isinstance(v.t, TRef):
            return None
        subs = self.subclass_names(cls)
        tag = self.class_tag(st, v.z)
        return z3.Or(*[tag == self.class_id(c) for c in subs])

    def coerce_to(self, v: SV, t, st: State, node):
        """Coerce to a declared type; python-side tuples elementwise; Opt[T] -> T needs a proof."""
        if v.t == t:
            return v
        items = self.tuple_items(v) if isinstance(v.t, TConst) else None
        if isinstance(t, TTuple) and items is not None:
            if len(items) != len(t.elems):
                raise EngineError("tuple arity in coercion")
            return sym.tup_mk([self.coerce_to(i, e, st, node) for i, e in zip(items, t.elems)])
        if isinstance(v.t, TOpt) and not isinstance(t, (TOpt, TAny)):
            self.oblige(st, "type-narrow", f"{ast.unparse(node) if isinstance(node, ast.expr) else 'value'} is not None",
                        st.cond(z3.Not(sym.opt_is_none(v))), node)
            return self.coerce_to(sym.opt_val(v), t, st, node)
        if isinstance(t, TOpt) and not isinstance(v.t, (TNone, TOpt)):
            return sym.opt_some(t, self.coerce_to(v, t.inner, st, node))
        if isinstance(v.t, TDict) and isinstance(t, TRef) and self.field_decl(t.cls, "opaque_id") is not None:
            # a modelled dict handed to a parameter declared as an opaque mapping (a pseudo-class with only `opaque_id`): the
            # callee learns nothing about its content - some existing object of that class
            r = sym.fresh(t, "boxed")
            self.assume_wellformed(st, r)
            return r
        try:
            return sym.coerce(self.reify(v), t)
        except TypeError as err:
            raise EngineError(str(err))

    def assume_wellformed(self, st: State, v: SV, depth=0):
        """Type invariants of a freshly introduced (symbolic) value."""
        t = v.t
        if isinstance(t, TTuple):
            for i in range(len(t.elems)):
                self.assume_wellformed(st, sym.tup_get(v, i))
            return
        if isinstance(t, sym.TBoxDict):
            return  # a boxed dict is not an object of a class: nothing to assume
        if isinstance(t, TRef):
            st.assume_raw(z3.And(v.z >= 0, v.z < st.alloc))
            subs = self.subclass_names(t.cls)
            tag = self.class_tag(st, v.z)
            st.assume_raw(z3.Or(*[tag == self.class_id(c) for c in subs]))
        elif isinstance(t, TOpt) and isinstance(t.inner, TRef):
            inner = sym.opt_val(v)
            subs = self.subclass_names(t.inner.cls)
            tag = self.class_tag(st, inner.z)
            st.assume_raw(
                z3.Implies(
                    z3.Not(sym.opt_is_none(v)),
                    z3.And(
                        inner.z >= 0,
                        inner.z < st.alloc,
                        z3.Or(*[tag == self.class_id(c) for c in subs]),
                    ),
                )
            )

    # ------------------------------------------------------------------
    def getattr(self, v: SV, attr: str, st: State, node):
        v = self.unbox(v, st)
        t = v.t
        if isinstance(t, TOpt):
            self.partial(st, z3.Not(sym.opt_is_none(v)), "AttributeError", node)
            v = sym.opt_val(v)
            t = v.t
        if isinstance(t, TRef):
            mod, ci = self.class_info(t.cls)
            if mod is not None:
                owner, m = mod.find_method(t.cls, attr)
                if m is not None:
                    decos = [ast.unparse(d) for d in m.decorator_list]
                    if "property" in decos:
                        if st.spec and f"{mod.dotted}:{owner}.{attr}" not in self.reg.funs:
                            return self.inline_property_spec(mod, owner, m, v, st)
                        return self.call_function(f"{mod.dotted}:{owner}.{attr}", [v], {}, st, node)
                    return [(st, SV(CONST, None, None, extra=("method", f"{mod.dotted}:{owner}.{attr}", v)))]
            extm = self.reg.funs.get(f"ext:{t.cls}.{attr}")
            if extm is not None:
                return [(st, SV(CONST, None, None, extra=("extmethod", extm.target, v)))]
            fd = self.field_decl(t.cls, attr)
            if fd is None:
                # class-level constant?
                if ci is not None and attr in ci.class_consts:
                    return self.ev(ci.class_consts[attr], st)
                raise EngineError(f"unknown field {t.cls}.{attr}")
            key, ft = fd
            r = st.load(v.z, key, ft)
            if isinstance(ft, (TRef, TOpt)):
                self.assume_wellformed(st, r)
            return [(st, r)]
        if isinstance(t, TConst):
            ex = v.extra
            if isinstance(ex, tuple) and ex[0] == "external":
                dotted = f"{ex[1]}.{attr}"
                if dotted in self.reg.ext_consts:
                    return [(st, mk_const(self.reg.ext_consts[dotted]))]
                return [(st, SV(CONST, None, None, extra=("external", dotted)))]
            if isinstance(ex, tuple) and ex[0] == "class":
                modn, cname = ex[1], ex[2]
                m = loader.load(modn, self.repo)
                owner, meth = m.find_method(cname, attr)
                if meth is not None:
                    return [(st, SV(CONST, None, None, extra=("func", f"{modn}:{owner}.{attr}")))]
                ci = m.classes[cname]
                for c in m.mro(cname):
                    if attr in m.classes[c].class_consts:
                        return self.ev(m.classes[c].class_consts[attr], st)
            return [(st, SV(CONST, None, None, extra=("attr", v, attr)))]
        # methods of builtin types are resolved at the call
        return [(st, SV(CONST, None, None, extra=("bmethod", v, attr)))]

    def inline_property_spec(self, mod, owner, m, selfv, st):
        body = [s for s in m.body if not _is_doc(s)]
        if len(body) == 1 and isinstance(body[0], ast.Return):
            s2 = st.copy()
            s2.store = {"self": selfv}
            r = self.evs(body[0].value, s2)
            return [(st, r)]
        raise EngineError(f"property {owner}.{m.name} is not a single return")

    # ------------------------------------------------------------------
    def is_pure_expr(self, e, st: State) -> bool:
        for n in ast.walk(e):
            if isinstance(n, (ast.Yield, ast.YieldFrom, ast.Await, ast.NamedExpr)):
                return False
            if isinstance(n, ast.Call) and not self.is_pure_call(n, st):
                return False
            if isinstance(n, ast.Attribute) and isinstance(n.ctx, ast.Load):
                pass
        return True

    def is_pure_call(self, n: ast.Call, st: State) -> bool:
        f = n.func
        if isinstance(f, ast.Name):
            if f.id in st.store:
                return False
            if f.id in self.reg.specfuns:
                return True
            g = self.lookup_global(f.id, st)
            if g is None:
                return False
            ex = g.extra
            if isinstance(ex, tuple):
                if ex[0] == "builtin":
                    return f.id not in ("setattr", "next", "print")
                if ex[0] == "func":
                    fs = self.reg.funs.get(ex[1])
                    return bool(fs and fs.pure)
                if ex[0] == "class":
                    return False
            return False
        if isinstance(f, ast.Attribute):
            # method: pure if a contracted pure method of a modelled class, or a builtin str/list query
            if f.attr in self.PURE_METHODS:
                return True
            # resolve receiver type when it is a simple name
            if isinstance(f.value, ast.Name) and f.value.id in st.store:
                rv = st.store[f.value.id]
                t = rv.t.inner if isinstance(rv.t, TOpt) else rv.t
                if isinstance(t, TRef):
                    mod, ci = self.class_info(t.cls)
                    if mod:
                        owner, m = mod.find_method(t.cls, f.attr)
                        if m is not None:
                            fs = self.reg.funs.get(f"{mod.dotted}:{owner}.{f.attr}")
                            return bool(fs and fs.pure)
            return False
        return False

    PURE_METHODS = {
        "startswith", "endswith", "find", "strip", "lstrip", "rstrip", "lower", "upper",
        "isdigit", "split", "splitlines", "join", "get", "items", "keys", "values", "decode",
        "encode", "replace", "index", "count", "rsplit", "issubset", "copy", "isspace",
    }

    # ------------------------------------------------------------------
    def ev_Call(self, e: ast.Call, st: State):
        if any(isinstance(a, ast.Starred) for a in e.args):
            raise EngineError(f"star-args in call: {ast.unparse(e)}")
        if any(k.arg is None for k in e.keywords):
            # f(x, **kw): only towards an ASSUMED external callee whose contract says the extra keywords do not matter
            # (types={"__ignore_starargs__": True}); the call is then checked without them
            e2 = ast.Call(func=e.func, args=e.args, keywords=[k for k in e.keywords if k.arg is not None])
            ast.copy_location(e2, e)
            ok = False
            for s0, fv0 in self.ev(e.func, st.copy()):
                ex0 = getattr(fv0, "extra", None)
                if isinstance(ex0, tuple) and ex0[0] == "extmethod":
                    ok = bool(self.reg.funs[ex0[1]].types.get("__ignore_starargs__"))
                elif isinstance(ex0, tuple) and ex0[0] == "external":
                    fs0 = self.reg.funs.get(f"ext:{ex0[1]}")
                    ok = fs0 is not None and bool(fs0.types.get("__ignore_starargs__"))
            if not ok:
                raise EngineError(f"star-args in call: {ast.unparse(e)}")
            return self.ev_Call(e2, st)
        f = e.func
        if isinstance(f, ast.Name) and f.id == "cast" and len(e.args) == 2 and f.id not in st.store:
            return self.ev(e.args[1], st)  # typing.cast: identity on the second argument
        # isinstance(x, nodes.K) / nodes.K1 | nodes.K2 / (nodes.K1, nodes.K2) on the docutils node MODEL: the `kind` field
        if isinstance(f, ast.Name) and f.id == "isinstance" and len(e.args) == 2 and "isinstance" not in st.store:
            kinds = _node_kinds(e.args[1])
            if kinds:
                out = []
                for s2, v in self.ev(e.args[0], st):
                    if isinstance(v, Raised):
                        out.append((s2, v))
                        continue
                    inner = v.t.inner if isinstance(v.t, TOpt) else v.t
                    fd = self.field_decl(inner.cls, "kind") if isinstance(inner, TRef) else None
                    if fd is None:
                        raise EngineError(f"isinstance against node classes on {v.t!r}")
                    obj = sym.opt_val(v) if isinstance(v.t, TOpt) else v
                    kv = s2.load(obj.z, fd[0], fd[1])
                    cond = z3.Or(*[self.eq(kv, mk_const(k)) for k in kinds])
                    if isinstance(v.t, TOpt):
                        cond = z3.And(z3.Not(sym.opt_is_none(v)), cond)
                    self.assumed_used.add("isinstance(n, nodes.K) <=> n.kind == 'K' for the concrete docutils node classes (node model)")
                    out.append((s2, SV(BOOL, cond)))
                return out
        # spec-only forms
        if isinstance(f, ast.Name) and st.spec:
            r = self.spec_form(f.id, e, st)
            if r is not None:
                return r
        if self.root_spec is not None and self.root_spec.at_call and not st.spec and st.depth == 0:
            text = ast.unparse(e)
            for key, clauses in self.root_spec.at_call.items():
                # a key is the whole call text, or (ending in "(") the callee expression: every call of it is then checked
                if not (text == key or (key.endswith("(") and text.startswith(key))):
                    continue
                self.at_call_seen.add(key)
                s0 = st.copy()
                s0.old = self.entry_state
                s0.pc = st.pc
                s0.store = dict(st.store)
                s0.spec = True
                # the actual arguments are visible to the clauses as _arg0, _arg1, ... and _kw_<name>
                for i, a in enumerate(e.args):
                    s0.store[f"_arg{i}"] = self.evs(a, s0)
                for k in e.keywords:
                    s0.store[f"_kw_{k.arg}"] = self.evs(k.value, s0)
                s0.spec = False
                for clause in clauses:
                    self.oblige(st, "at-call", f"{key}: {clause}", self.spec_bool(clause, s0), e)
        # evaluate callee
        out = []
        for s, fv in self.ev(f, st):
            if isinstance(fv, Raised):
                out.append((s, fv))
                continue
            argexprs = list(e.args) + [k.value for k in e.keywords]
            special = self.call_special(fv, e, s)
            if special is not None:
                out.extend(special)
                continue
            for s2, vals in self.ev_list(argexprs, s):
                if isinstance(vals, Raised):
                    out.append((s2, vals))
                    continue
                args = vals[: len(e.args)]
                kwargs = {k.arg: v for k, v in zip(e.keywords, vals[len(e.args):])}
                out.extend(self.apply(fv, args, kwargs, s2, e))
        return out

    def apply(self, fv: SV, args, kwargs, st: State, node):
        ex = fv.extra
        if isinstance(fv.t, TOpt):
            self.partial(st, z3.Not(sym.opt_is_none(fv)), "TypeError", node, label=f"call of None: {ast.unparse(node)}")
            fv = sym.opt_val(fv)
        if isinstance(fv.t, TRef):
            fs = self.reg.funs.get(f"ext:{fv.t.cls}.__call__")
            if fs is not None:  # a callable value of an opaque class: assumed contract of its __call__
                return self.call_contract(fs, [fv] + args, kwargs, st, node, params=fs.types.get("__params__"))
        if not isinstance(fv.t, TConst) or not isinstance(ex, tuple):
            raise EngineError(f"call of non-function value: {ast.unparse(node)}")
        kind = ex[0]
        if kind == "builtin":
            return self.call_builtin(ex[1], args, kwargs, st, node)
        if kind == "bmethod":
            return self.call_method_builtin(ex[1], ex[2], args, kwargs, st, node)
        if kind == "func":
            return self.call_function(ex[1], args, kwargs, st, node)
        if kind == "method":
            return self.call_function(ex[1], [ex[2]] + args, kwargs, st, node)
        if kind == "class":
            return self.construct(ex[1], ex[2], args, kwargs, st, node)
        if kind == "excclass":
            r = self.alloc_exception(st, ex[1])
            return [(st, r)]
        if kind == "specfun":
            return [(st, self.call_specfun(ex[1], args, st, node))]
        if kind == "external":
            return self.call_external(ex[1], args, kwargs, st, node)
        if kind == "extmethod":
            fs = self.reg.funs[ex[1]]
            if args and args[0].const is not None and isinstance(args[0].const.v, str):
                # an assumed contract per literal first argument (`env.get("relative-images", None)`) takes precedence
                fs = self.reg.funs.get(f"{ex[1]}[{args[0].const.v}]", fs)
            return self.call_contract(fs, [ex[2]] + args, kwargs, st, node, params=fs.types.get("__params__"))
        if kind == "attr":
            # attribute of an external object, e.g. re.escape -> ("attr", external re, "escape")
            base = ex[1]
            if isinstance(base.extra, tuple) and base.extra[0] == "external":
                return self.call_external(f"{base.extra[1]}.{ex[2]}", args, kwargs, st, node)
            if base.const is not None and isinstance(base.const.v, dict) and ex[2] == "get" and 1 <= len(args) <= 2 and not kwargs \
                    and all(isinstance(k, str) and isinstance(v, str) for k, v in base.const.v.items()):
                # {"a": "x", ...}.get(key[, default]) on a literal table of strings: a chain of conditionals over the keys
                key = sym.coerce(self.reify(args[0]), sym.TStr())
                acc = self.reify(args[1]) if len(args) > 1 and isinstance(args[1].t, TConst) else (args[1] if len(args) > 1 else mk_const(None))
                for k, v in reversed(list(base.const.v.items())):
                    acc = self.merge_ite(key.z == self.reify(mk_const(k)).z, self.reify(mk_const(v)), acc)
                    if acc is None:
                        raise EngineError("dict-literal .get result types")
                return [(st, acc)]
            if isinstance(base.extra, tuple) and base.extra[0] == "opaque-const":
                # method of an unmodelled module constant (e.g. a compiled regex): assumed contract by name
                return self.call_external(f"{base.extra[1]}.{base.extra[2]}.{ex[2]}", args, kwargs, st, node)
        raise EngineError(f"unsupported callee: {ast.unparse(node)}")

    def call_external(self, name, args, kwargs, st, node):
        target = f"ext:{name}"
        fs = self.reg.funs.get(target)
        if fs is None:
            # try by last components
            short = name.split(".")[-1]
            if short == "cast" and len(args) == 2:
                return [(st, args[1])]
            if short in ("replace",) and "dataclasses" in name:
                return self.call_builtin("replace", args, kwargs, st, node)
            if short == "dedent":
                fs = self.reg.funs.get("ext:textwrap.dedent")
            if fs is None:
                raise EngineError(f"external callee without assumed contract: {name}")
        return self.call_contract(fs, args, kwargs, st, node, params=fs.types.get("__params__"))

    # ------------------------------------------------------------------
    def bind_params(self, fnode: ast.FunctionDef, args, kwargs, st, what):
        a = fnode.args
        names = [p.arg for p in a.posonlyargs + a.args]
        bound = {}
        if len(args) > len(names):
            raise EngineError(f"too many positional args for {what}")
        for n, v in zip(names, args):
            bound[n] = v
        for k, v in kwargs.items():
            if k in bound:
                raise EngineError(f"duplicate arg {k}")
            bound[k] = v
        defaults = dict(zip(names[len(names) - len(a.defaults):], a.defaults))
        for kw, d in zip(a.kwonlyargs, a.kw_defaults):
            if d is not None:
                defaults[kw.arg] = d
        allnames = names + [p.arg for p in a.kwonlyargs]
        for n in allnames:
            if n not in bound:
                if n not in defaults:
                    raise EngineError(f"missing argument {n} for {what}")
                s = st.copy()
                s.spec = True
                bound[n] = self.evs(defaults[n], s)
        return bound, allnames

    def param_types(self, mod, fnode, spec, cls=None):
        """Declared engine types of parameters (annotations are sort hints)."""
        out = {}
        a = fnode.args
        for p in a.posonlyargs + a.args + a.kwonlyargs:
            t = None
            if spec and p.arg in spec.types:
                t = self.parse_type_str(spec.types[p.arg], mod)
            elif p.annotation is not None:
                t = loader.parse_type(p.annotation, mod, self.pseudo_classes())
            elif p.arg == "self" and cls:
                t = TRef(cls)
            out[p.arg] = t
        return out

    def pseudo_classes(self):
        return {k.split(":")[1] for k in self.reg.fields}

    def ret_type(self, mod, fnode, spec):
        if spec and spec.returns:
            return self.parse_type_str(spec.returns, mod)
        if fnode.returns is not None:
            return loader.parse_type(fnode.returns, mod, self.pseudo_classes())
        return None

    def call_function(self, target: str, args, kwargs, st: State, node):
        modn, qual = target.split(":")
        mod = loader.load(modn, self.repo)
        fnode = mod.functions.get(qual)
        if fnode is None:
            raise EngineError(f"no such function {target}")
        fs = self.reg.funs.get(target)
        self.note_module(mod)
        if fs is not None and fs.until:
            if fs.callers is None:
                raise EngineError(f"call to {target}, whose contract covers only a prefix of its body (no callers= view)")
            return self.call_contract(fs.callers, args, kwargs, st, node, fnode=fnode, mod=mod)
        if fs is not None and not fs.inline:
            return self.call_contract(fs, args, kwargs, st, node, fnode=fnode, mod=mod)
        decos = [ast.unparse(d) for d in fnode.decorator_list]
        small = qual.endswith(".__init__") or "property" in decos or (fs is not None and fs.inline)
        if not small:
            raise EngineError(f"call to {target} which has no contract")
        return self.call_inline(mod, qual, fnode, args, kwargs, st, node)

    def call_inline(self, mod, qual, fnode, args, kwargs, st: State, node):
        if st.depth > 3:
            raise EngineError("inline depth exceeded")
        bound, _ = self.bind_params(fnode, args, kwargs, st, qual)
        cls = qual.split(".")[0] if "." in qual else None
        ptypes = self.param_types(mod, fnode, self.reg.funs.get(f"{mod.dotted}:{qual}"), cls)
        for n, v in list(bound.items()):
            if ptypes.get(n) is not None and not isinstance(v.t, TConst):
                try:
                    bound[n] = sym.coerce(v, ptypes[n])
                except TypeError:
                    pass
        saved = (st.store, st.frame, st.handlers, st.loop_entries)
        st.store = bound
        st.frame = Frame(mod, qual, fnode, None)
        st.frame.ret_type = self.ret_type(mod, fnode, None)
        st.handlers = list(st.handlers)
        st.depth += 1
        results = []
        body = [s for s in fnode.body if not _is_doc(s)]
        for s2, oc in self.exec_block(body, st):
            s2.depth -= 1
            s2.store = saved[0] if s2 is st else dict(saved[0])
            s2.frame = saved[1]
            s2.handlers = list(saved[2])
            s2.loop_entries = list(saved[3])
            if oc.kind == "raise":
                results.append((s2, oc.value))
            elif oc.kind == "return":
                results.append((s2, oc.value if oc.value is not None else mk_const(None)))
            elif oc.kind == "normal":
                results.append((s2, mk_const(None)))
            else:
                raise EngineError(f"{oc.kind} escaping inlined function")
        return results

    # ------------------------------------------------------------------
    def construct(self, modn, cname, args, kwargs, st: State, node):
        mod = loader.load(modn, self.repo)
        self.note_module(mod)
        ci = mod.classes[cname]
        # exception classes defined in the repo with external base and no __init__
        owner, init = mod.find_method(cname, "__init__")
        if (self.root_spec is not None and not st.spec and st.depth == 0
                and not any(m in ("fresh", "alloc", "*") for m in self.root_spec.modifies)
                and not self.is_exception_class(mod, cname)):
            # allocation is an effect: it must be declared (`fresh`) in the frame of the function under contract
            self.oblige(st, "frame", f"allocation of {cname} (declare `fresh` in modifies)", z3.BoolVal(False), node)
        ref = st.new_ref(cname)
        self.set_class_tag(st, ref.z, cname)
        if init is not None:
            target = f"{modn}:{owner}.__init__"
            fs = self.reg.funs.get(target)
            if fs is not None and not fs.inline:
                if fs.until:
                    # a contract over a prefix of __init__: callers see the explicit (assumed) view of the whole constructor
                    if fs.callers is None:
                        raise EngineError(f"call to {target}, whose contract covers only a prefix of its body (no callers= view)")
                    fs = fs.callers
                rs = self.call_contract(fs, [ref] + args, kwargs, st, node, fnode=init, mod=mod)
            else:
                rs = self.call_inline(mod, f"{owner}.__init__", init, [ref] + args, kwargs, st, node)
            return [(s, v if isinstance(v, Raised) else ref) for s, v in rs]
        fields = mod.dataclass_fields(cname) if any(
            mod.classes[c].is_dataclass for c in mod.mro(cname)
        ) else None
        if fields is not None:
            names = [f[0] for f in fields]
            if len(args) > len(names):
                raise EngineError(f"too many args for dataclass {cname}")
            vals = dict(zip(names, args))
            vals.update(kwargs)
            for fname, ann, default in fields:
                if fname not in vals:
                    if default is None:
                        raise EngineError(f"missing dataclass field {cname}.{fname}")
                    s = st.copy()
                    vals[fname] = self.evs(default, s)
                key, ft = self.field_decl(cname, fname)
                fv0 = vals[fname]
                if isinstance(ft, TDict) and isinstance(fv0.t, TConst) and fv0.const is not None and fv0.const.v == {}:
                    # an empty dict literal stored into a dict-typed field
                    fv0 = SV(ft, None, extra={
                        "keys": z3.Empty(z3.SeqSort(sym.sort_of(ft.k))),
                        "has": z3.K(sym.sort_of(ft.k), z3.BoolVal(False)),
                        "val": sym.fresh(ft, "emptydict").extra["val"],
                    })
                    vals[fname] = fv0
                try:
                    v = sym.coerce(self.reify(vals[fname]), ft)
                except TypeError as err:
                    raise EngineError(f"dataclass field {cname}.{fname}: {err}")
                st.store_field(ref.z, key, v)
            return [(st, ref)]
        # plain class without __init__ (e.g. exception subclasses): args are dropped
        return [(st, ref)]

    # ------------------------------------------------------------------
    def call_specfun(self, sf, args, st: State, node):
        if sf.recursive:
            return self.call_recursive_spec(sf, args, st)
        body = [s for s in sf.node.body if not _is_doc(s)]
        expr = _spec_body_expr(body)
        s2 = st.copy()
        s2.store = dict(zip(sf.params, args))
        s2.spec = True
        s2.frame = st.frame
        s2.pc = st.pc  # shared list: facts generated while evaluating (char ranges, unfoldings) flow back
        r = self.evs(expr, s2)
        return r

    def bool_specfuns(self):
        return set(self.reg.specfuns)

    def spec_form(self, name, e, st: State):
        if name == "old":
            if st.old is None:
                raise EngineError("old() outside a postcondition")
            s = st.old.copy()
            s.pc = st.pc
            s.old = st.old  # old(old(e)) == old(e)
            s.ghost = dict(st.ghost)  # at_return(...) stays usable under old(...)
            s.guards = list(st.guards)
            # variables bound by enclosing quantifiers stay visible inside old(...)
            s.store = dict(s.store)
            for k, v in st.store.items():
                if k not in s.store:
                    s.store[k] = v
            r = self.evs(e.args[0], s)
            return [(st, r)]
        if name == "at_entry":
            if not st.loop_entries:
                raise EngineError("at_entry() outside a loop invariant")
            s = st.loop_entries[-1].copy()
            s.pc = st.pc
            s.guards = list(st.guards)
            s.store = dict(s.store)
            for k, v in st.store.items():  # variables bound by enclosing quantifiers stay visible
                if k not in s.store:
                    s.store[k] = v
            r = self.evs(e.args[0], s)
            st.pc = s.pc
            return [(st, r)]
        if name == "at_return":
            fin = st.ghost.get("final_store")
            if fin is None and st.ghost.get("callee_locals") is not None and isinstance(e.args[0], ast.Name):
                # the contract of a CALLEE: the caller only knows that the local had SOME value at the return point -
                # one fresh constant per local (of its declared type), shared by all clauses of this call
                cl = st.ghost["callee_locals"]
                nm = e.args[0].id
                if nm not in cl["vals"]:
                    t = cl["types"].get(nm)
                    if t is None:
                        raise EngineError(f"at_return({nm}) in a callee contract: declare the local's type in types=")
                    cl["vals"][nm] = sym.fresh(t, f"ret.{nm}")
                return [(st, cl["vals"][nm])]
            if fin is None:
                raise EngineError("at_return() outside a postcondition")
            s = st.copy()
            s.store = dict(fin)
            s.pc = st.pc
            return [(st, self.evs(e.args[0], s))]
        if name == "implies":
            a = self.spec_bool(e.args[0], st)
            st.guards.append(a)
            try:
                b = self.spec_bool(e.args[1], st)
            finally:
                st.guards.pop()
            return [(st, SV(BOOL, z3.Implies(a, b)))]
        if name in ("forall", "exists"):
            lo = self.evs(e.args[0], st)
            hi = self.evs(e.args[1], st)
            lam = e.args[2]
            unb_lo, unb_hi = isinstance(lo.t, TNone), isinstance(hi.t, TNone)
            if not isinstance(lam, ast.Lambda):
                raise EngineError("forall/exists needs a lambda")
            var = lam.args.args[0].arg
            q = z3.Int(sym.fresh_name(f"q.{var}"))
            s = st.copy()
            s.store = dict(st.store)
            s.store[var] = SV(INT, q)
            s.pc = []  # facts about the bound variable must stay inside the quantifier
            rng = z3.And(*([] if unb_lo else [q >= lo.z]) + ([] if unb_hi else [q < hi.z])) if not (unb_lo and unb_hi) else z3.BoolVal(True)
            s.guards = list(st.guards) + [rng]
            body = self.spec_bool(lam.body, s)
            local = z3.And(*s.pc) if s.pc else z3.BoolVal(True)
            if name == "forall":
                if getattr(self, "_assuming", 0):
                    # assumed position: the type invariants of values loaded under the binder are
                    # facts (the same assumption every unquantified load makes), not hypotheses
                    return [(st, SV(BOOL, z3.ForAll([q], z3.Implies(rng, z3.And(local, body)))))]
                return [(st, SV(BOOL, z3.ForAll([q], z3.Implies(rng, z3.Implies(local, body)))))]
            return [(st, SV(BOOL, z3.Exists([q], z3.And(rng, local, body))))]
        if name == "forall_obj":
            # forall_obj(ClassName, lambda e: body): every allocated object of that class (or a subclass)
            cname = e.args[0].id if isinstance(e.args[0], ast.Name) else e.args[0].value
            lam = e.args[1]
            var = lam.args.args[0].arg
            q = z3.Int(sym.fresh_name(f"q.{var}"))
            s = st.copy()
            s.store = dict(st.store)
            s.store[var] = SV(TRef(cname), q)
            s.pc = []
            subs = self.subclass_names(cname)
            tag = self.class_tag(st, q)
            rng = z3.And(q >= 0, q < st.alloc, z3.Or(*[tag == self.class_id(c) for c in subs]))
            s.guards = list(st.guards) + [rng]
            body = self.spec_bool(lam.body, s)
            local = z3.And(*s.pc) if s.pc else z3.BoolVal(True)
            if getattr(self, "_assuming", 0):
                return [(st, SV(BOOL, z3.ForAll([q], z3.Implies(rng, z3.And(local, body)))))]
            return [(st, SV(BOOL, z3.ForAll([q], z3.Implies(rng, z3.Implies(local, body)))))]
        if name == "fresh":
            v = self.evs(e.args[0], st)
            if st.old is None:
                raise EngineError("fresh() outside a postcondition")
            if isinstance(v.t, TNone):
                return [(st, SV(BOOL, z3.BoolVal(False)))]  # None is not an object
            if isinstance(v.t, TOpt):
                v = sym.opt_val(v)
            return [(st, SV(BOOL, z3.And(v.z >= st.old.alloc, v.z < st.alloc)))]
        if name == "allocated":
            v = self.evs(e.args[0], st)
            if isinstance(v.t, TOpt):
                v = sym.opt_val(v)
            return [(st, SV(BOOL, z3.And(v.z >= 0, v.z < st.alloc)))]
        if name == "typeis":
            v = self.evs(e.args[0], st)
            cname = e.args[1].value if isinstance(e.args[1], ast.Constant) else ast.unparse(e.args[1])
            return [(st, SV(BOOL, self.class_tag(st, v.z) == self.class_id(cname)))]
        return None


def st_module_of(engine, key):
    try:
        return loader.load(key.split(":")[0], engine.repo)
    except (FileNotFoundError, OSError):
        return None  # pseudo-class of an external library (fields declared in the contracts only)


def _node_kinds(t):
    """['document', 'section'] for `nodes.document | nodes.section`, `(nodes.document, nodes.section)` or `nodes.document`;
    None for anything else (only concrete, lower-case docutils node classes: the model has no class hierarchy)."""
    if isinstance(t, ast.Attribute) and isinstance(t.value, ast.Name) and t.value.id == "nodes" and t.attr[:1].islower():
        return [t.attr]
    if isinstance(t, ast.BinOp) and isinstance(t.op, ast.BitOr):
        a, b = _node_kinds(t.left), _node_kinds(t.right)
        return a + b if a and b else None
    if isinstance(t, ast.Tuple) and t.elts:
        parts = [_node_kinds(x) for x in t.elts]
        return [k for p in parts for k in p] if all(parts) else None
    return None


def _is_doc(s):
    return (
        isinstance(s, ast.Expr)
        and isinstance(s.value, ast.Constant)
        and isinstance(s.value.value, str)
    )


def _spec_body_expr(body):
    """A spec function body: `return e` or an if/return chain -> single expression."""
    if len(body) == 1 and isinstance(body[0], ast.Return):
        return body[0].value
    if isinstance(body[0], ast.If) and len(body[0].body) == 1 and isinstance(body[0].body[0], ast.Return):
        rest = body[0].orelse if body[0].orelse else body[1:]
        return ast.IfExp(test=body[0].test, body=body[0].body[0].value, orelse=_spec_body_expr(rest))
    raise EngineError("spec function body must be a return / if-return chain")


class _EmptyFn:
    body: list = []
    decorator_list: list = []
