"""Comprehensions and generator expressions.

Default model ("havoc semantics", a sound over-approximation): the element expression and the filters
are evaluated once for an ARBITRARY element of the iterable (so every safety obligation of one
evaluation is generated, for all elements), they must be pure, and the result is an unconstrained
fresh list of the element type.  Precise models exist for the shapes the contracts need:
max/min over a filtered generator of dict keys, and a filtering dict comprehension.
"""
from __future__ import annotations

import ast

import z3

from . import sym
from .state import EngineError, Raised, State
from .sym import BOOL, CONST, INT, SV, TConst, TDict, TInt, TList, TNone, TOpt, TRef, TSet, TStr, TTuple


class CompMixin:
    def comp_element(self, gen, st: State):
        """Evaluate the iterable of one generator -> [(state, elem SV bound to target in a scratch store)]"""
        out = []
        for s, it in self.ev(gen.iter, st):
            if isinstance(it, Raised):
                out.append((s, it, None))
                continue
            if isinstance(it.t, TConst):
                try:
                    it = self.reify(it)
                except EngineError:
                    pass
            it = self.unbox(it, s)
            if isinstance(it.t, TOpt):
                raise EngineError("comprehension over an Optional iterable")
            if isinstance(it.extra, tuple) and it.extra and it.extra[0] == "dictitems":
                d = it.extra[1]
                k = sym.fresh(d.t.k, "ck")
                v = SV(d.t.v, z3.Select(d.extra["val"], k.z))
                s.assume(z3.Select(d.extra["has"], k.z))
                out.append((s, it, sym.tup_mk([k, v]) if not isinstance(d.t.v, TDict) else None))
                continue
            if isinstance(it.t, TDict):
                k = sym.fresh(it.t.k, "ck")
                s.assume(z3.Select(it.extra["has"], k.z))
                out.append((s, it, k))
                continue
            if isinstance(it.t, TList):
                if it.t.elem is None:
                    out.append((s, it, None))
                    continue
                x = sym.fresh(it.t.elem, "cx")
                self.assume_wellformed(s, x)
                if not isinstance(it.t.elem, (TRef,)):
                    s.assume(z3.Contains(it.z, z3.Unit(x.z)))
                out.append((s, it, x))
                continue
            if isinstance(it.t, TStr):
                c = z3.Int(sym.fresh_name("cc"))
                out.append((s, it, self.mk_char(s, c)))
                continue
            raise EngineError(f"comprehension over {it.t!r}")
        return out

    def comprehension(self, e, st: State):
        if len(e.generators) != 1 or e.generators[0].is_async:
            raise EngineError(f"comprehension with several generators: {ast.unparse(e)}")
        gen = e.generators[0]
        if not all(self.is_pure_expr(c, st) for c in gen.ifs) or not self.is_pure_expr(e.elt, st):
            raise EngineError(f"impure comprehension: {ast.unparse(e)}")
        out = []
        for s, it, x in self.comp_element(gen, st):
            if isinstance(it, Raised):
                out.append((s, it))
                continue
            if x is None:
                out.append((s, SV(TList(None), None)))
                continue
            # scratch evaluation for an arbitrary element: obligations are generated on a copy so that the
            # facts about the arbitrary element do not leak into the continuing path
            sc = s.copy()
            for s2, oc in self.assign(gen.target, x, sc):
                if oc.kind != "normal":
                    raise EngineError("comprehension target")
                conds = []
                for c in gen.ifs:
                    r = self.ev_cond(c, s2)
                    if len(r) != 1 or isinstance(r[0][1], Raised):
                        raise EngineError(f"comprehension filter forks: {ast.unparse(c)}")
                    s2 = r[0][0]
                    s2.assume(r[0][1])
                    conds.append(r[0][1])
                r = self.ev(e.elt, s2)
                if len(r) != 1 or isinstance(r[0][1], Raised):
                    raise EngineError(f"comprehension element forks: {ast.unparse(e.elt)}")
                elt = self.reify(r[0][1]) if isinstance(r[0][1].t, TConst) else r[0][1]
            res = sym.fresh(TList(elt.t), "comp")
            payload = ("listcomp", e, it, gen, dict(s.store))
            out.append((s, SV(res.t, res.z, extra=payload)))
        return out

    def materialize_comp(self, v, st):
        return SV(v.t, v.z)

    # ------------------------------------------------------------------
    def max_of_filter(self, v, st, node, is_max):
        """max(k for k in d if cond(k)) over the keys of a dict with int keys (precise)."""
        _tag, e, it, gen, store = v.extra
        if not (isinstance(it.t, TDict) and isinstance(it.t.k, TInt) and isinstance(e.elt, ast.Name)
                and isinstance(gen.target, ast.Name) and e.elt.id == gen.target.id):
            raise EngineError("max/min over this generator is not modelled")
        has = it.extra["has"]

        def cond(kz):
            s2 = st.copy()
            s2.store = dict(store)
            s2.store[gen.target.id] = SV(INT, kz)
            s2.spec = True
            cs = [self.spec_bool(c, s2) for c in gen.ifs]
            return z3.And(z3.Select(has, kz), *cs)

        r = z3.Int(sym.fresh_name("max" if is_max else "min"))
        q = z3.Int(sym.fresh_name("q"))
        self.partial(st, z3.Exists([q], cond(q)), "ValueError", node, label=f"max() of empty sequence: {ast.unparse(e)}")
        st.assume(cond(r))
        st.assume(z3.ForAll([q], z3.Implies(cond(q), (q <= r) if is_max else (q >= r))))
        return SV(INT, r)

    def dict_comprehension_havoc(self, e, gen, it, s):
        """Any other {key(k, v): value(k, v) for k, v in d.items() [if ...]}: havoc semantics as for lists - key, value and filters are
        evaluated once for an ARBITRARY item (all their safety obligations, for all items; they must be pure and must not fork)
        and the result is an unconstrained dict of the key / value types."""
        if not all(self.is_pure_expr(c, s) for c in gen.ifs) or not self.is_pure_expr(e.key, s) or not self.is_pure_expr(e.value, s):
            raise EngineError(f"impure dict comprehension: {ast.unparse(e)}")
        d = it.extra[1]
        k = sym.fresh(d.t.k, "ck")
        v = SV(d.t.v, z3.Select(d.extra["val"], k.z))
        sc = s.copy()
        sc.assume(z3.Select(d.extra["has"], k.z))
        kt = vt = None
        for s2, oc in self.assign(gen.target, sym.tup_mk([k, v]), sc):
            if oc.kind != "normal":
                raise EngineError("comprehension target")
            for c in gen.ifs:
                r = self.ev_cond(c, s2)
                if len(r) != 1 or isinstance(r[0][1], Raised):
                    raise EngineError(f"comprehension filter forks: {ast.unparse(c)}")
                s2 = r[0][0]
                s2.assume(r[0][1])
            for part in (e.key, e.value):
                r = self.ev(part, s2)
                if len(r) != 1 or isinstance(r[0][1], Raised):
                    raise EngineError(f"comprehension element forks: {ast.unparse(part)}")
                s2 = r[0][0]
                x = self.reify(r[0][1]) if isinstance(r[0][1].t, TConst) else r[0][1]
                if part is e.key:
                    kt = x.t
                else:
                    vt = x.t
        return sym.fresh(TDict(kt, vt), "dcomp")

    def dict_comprehension(self, e, st: State):
        """{k: v for k, v in d.items() if cond(k, v)}  (identity on keys and values; precise filter)."""
        if len(e.generators) != 1:
            raise EngineError("dict comprehension with several generators")
        gen = e.generators[0]
        out = []
        for s, it in self.ev(gen.iter, st):
            if isinstance(it, Raised):
                out.append((s, it))
                continue
            if not (isinstance(it.extra, tuple) and it.extra and it.extra[0] == "dictitems"):
                raise EngineError(f"dict comprehension over {ast.unparse(gen.iter)}")
            d = it.extra[1]
            tg = gen.target
            if not (isinstance(tg, ast.Tuple) and len(tg.elts) == 2 and all(isinstance(x, ast.Name) for x in tg.elts)
                    and isinstance(e.key, ast.Name) and isinstance(e.value, ast.Name)
                    and e.key.id == tg.elts[0].id and e.value.id == tg.elts[1].id):
                out.append((s, self.dict_comprehension_havoc(e, gen, it, s)))
                continue
            ks = sym.sort_of(d.t.k)
            q = z3.Const(sym.fresh_name("dk"), ks)

            def cond(kz, s=s, d=d):
                s2 = s.copy()
                s2.store = dict(s.store)
                s2.store[tg.elts[0].id] = SV(d.t.k, kz)
                s2.store[tg.elts[1].id] = SV(d.t.v, z3.Select(d.extra["val"], kz))
                s2.spec = True
                return z3.And(*[self.spec_bool(c, s2) for c in gen.ifs]) if gen.ifs else z3.BoolVal(True)

            new = sym.fresh(d.t, "dcomp")
            s.assume(z3.ForAll([q], z3.Select(new.extra["has"], q) == z3.And(z3.Select(d.extra["has"], q), cond(q))))
            s.assume(z3.ForAll([q], z3.Implies(z3.Select(new.extra["has"], q),
                                               z3.Select(new.extra["val"], q) == z3.Select(d.extra["val"], q))))
            s.assume(z3.ForAll([q], z3.Select(new.extra["has"], q) == z3.Contains(new.extra["keys"], z3.Unit(q))))
            s.assume(z3.Length(new.extra["keys"]) <= z3.Length(d.extra["keys"]))
            out.append((s, new))
        return out
