"""Comprehensions and generator expressions (special forms)."""
from __future__ import annotations

import ast

import z3

from . import sym
from .state import EngineError, Raised, State
from .sym import SV, TConst, TList


class CompMixin:
    def comprehension(self, e, st: State):
        raise EngineError(f"comprehension not modelled: {ast.unparse(e)}")

    def dict_comprehension(self, e, st: State):
        raise EngineError(f"dict comprehension not modelled: {ast.unparse(e)}")

    def materialize_comp(self, v, st):
        raise EngineError("comprehension value")

    def max_of_filter(self, v, st, node, is_max):
        raise EngineError("max over comprehension")
