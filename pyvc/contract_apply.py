"""Modular call rule: assert requires, havoc modifies, assume ensures, fork raises."""
from __future__ import annotations

import ast

import z3

from . import loader, sym
from .calls import Frame
from .state import EngineError, Raised, State
from .sym import SV, TConst, TDict, TList, TNone, TOpt, TRef, mk_const


class ContractMixin:
    def callee_env(self, fs, args, kwargs, st, node, fnode=None, mod=None, params=None):
        """Bind actuals to the callee's formals -> (store, ptypes, mod)."""
        if fnode is not None:
            bound, names = self.bind_params(fnode, args, kwargs, st, fs.target)
            cls = fs.qualname.split(".")[0] if "." in fs.qualname else None
            ptypes = self.param_types(mod, fnode, fs, cls)
        else:
            # external function: parameter names come from the assumed contract
            names = list(params or fs.types.get("__params__", []))
            if isinstance(names, str):
                names = [n.strip() for n in names.split(",")]
            bound = {}
            if len(args) > len(names):
                raise EngineError(f"too many args for {fs.target}")
            for n, v in zip(names, args):
                bound[n] = v
            bound.update(kwargs)
            for n in names:
                if n not in bound:
                    d = fs.types.get(f"__default__{n}")
                    if d is None:
                        raise EngineError(f"missing arg {n} for {fs.target}")
                    bound[n] = self.evs(ast.parse(d, mode="eval").body, st.copy())
            mod = st.frame.module
            ptypes = {
                n: (self.parse_type_str(fs.types[n], mod) if n in fs.types else None) for n in names
            }
        for n, v in list(bound.items()):
            t = ptypes.get(n)
            if t is not None and not (isinstance(v.t, TConst) and v.const is None and not isinstance(v.extra, list)):
                if isinstance(t, TOpt) and isinstance(t.inner, TDict):
                    # Optional[dict] has no single sort: a dict (or None) actual is handed on as it is
                    if isinstance(v.t, TConst) and v.const is not None and isinstance(v.const.v, dict):
                        bound[n] = self.reify(v)
                    continue
                if isinstance(t, TList) and v.const is not None and isinstance(v.const.v, tuple):
                    v = mk_const(list(v.const.v))  # a literal tuple passed where a sequence is expected
                try:
                    if (isinstance(v.t, TOpt) and not isinstance(t, TOpt)) or isinstance(v.t, sym.TDict):
                        bound[n] = self.coerce_to(v, t, st, node)  # None must be excluded: obligation (a dict: boxed if opaque)
                    else:
                        bound[n] = sym.coerce(self.reify(v), t)
                except (TypeError, EngineError) as err:
                    raise EngineError(f"argument {n} of {fs.target}: {err}")
        return bound, ptypes, mod

    def spec_state(self, st: State, store, mod, qual, fnode, heap_from: State | None = None):
        s = st.copy()
        s.store = dict(store)
        s.frame = Frame(mod, qual, fnode if fnode is not None else _NoBody(), None)
        s.guards = list(st.guards)
        s.spec = True
        s.old = None
        return s

    def call_contract(self, fs, args, kwargs, st: State, node, fnode=None, mod=None, params=None):
        bound, ptypes, mod = self.callee_env(fs, args, kwargs, st, node, fnode, mod, params)
        callsite = f"{fs.qualname}"
        self.calls_seen.add(fs.target)
        if fs.trusted:
            self.assumed_used.add(fs.target)
        # 1. preconditions
        pre = self.spec_state(st, bound, mod, fs.qualname, fnode)
        pre.pc = st.pc  # share: facts discovered while evaluating flow to the caller
        for k, clause in enumerate(fs.requires):
            c = self.spec_bool(clause, pre)
            if not st.spec:
                self.oblige(st, f"pre@{callsite}", clause, st.cond(c), node)
            st.assume(c)
        # recursion: variant
        if fs.decreases and self.root_spec is not None and fs.target == self.root_spec.target and not st.spec:
            m_now = self.evs(ast.parse(fs.decreases, mode="eval").body, pre)
            m_entry = self.root_measure
            self.oblige(
                st,
                "variant/recursion",
                fs.decreases,
                st.cond(z3.And(m_now.z >= 0, m_now.z < m_entry)),
                node,
            )
        pre_snapshot = pre.copy()
        pre_snapshot.pc = []
        # 2. pure call: result is a fresh value constrained by ensures (no state change)
        rtype = self.contract_ret_type(fs, fnode, mod)
        results = []
        # exceptional outcomes first (they fork from the pre-call state)
        if not st.spec:
            for ecls, clauses in fs.raises.items():
                s2 = st.copy()
                s2.pc.extend(s2.guards)
                s2.guards = []
                self.havoc_modifies(fs, bound, s2, mod, fnode, node, check=False)
                exc = s2.new_ref(ecls.split(".")[-1])
                post = self.spec_state(s2, bound, mod, fs.qualname, fnode)
                post.store["exc"] = exc
                post.old = pre_snapshot
                post.pc = s2.pc
                for clause in clauses:
                    s2.assume_raw(self.spec_assume(clause, post))
                self.assume_histories(pre_snapshot, s2, bound)
                if self.feasible(s2):
                    results.append(
                        (s2, Raised(ecls.split(".")[-1], exc, exact=False, node=node, origin=f"{ecls}@call:{fs.qualname}"))
                    )
        # normal outcome
        if not fs.pure:
            self.havoc_modifies(fs, bound, st, mod, fnode, node)
        direct = None
        if fs.pure and fs.ensures:
            c0 = ast.parse(fs.ensures[0], mode="eval").body
            if (isinstance(c0, ast.Compare) and len(c0.ops) == 1 and isinstance(c0.ops[0], ast.Eq)
                    and isinstance(c0.left, ast.Name) and c0.left.id == "result"):
                direct = c0.comparators[0]
        if direct is not None:
            # pure function with a defining equation: use the defining term itself
            post0 = self.spec_state(st, bound, mod, fs.qualname, fnode)
            post0.pc = st.pc
            result = self.evs(direct, post0)
            if rtype is not None and not isinstance(rtype, TNone):
                result = self.coerce_to(result, rtype, st, node)
            self.assume_wellformed(st, result)
        elif rtype is None or isinstance(rtype, TNone):
            result = mk_const(None)
        elif isinstance(rtype, TRef) and "fresh1" in fs.modifies:
            # the callee allocates exactly one object, its result (an instance of the declared class or a subclass)
            result = SV(rtype, z3.Int(sym.fresh_name(f"new.{rtype.cls}")))
            st.assume_raw(result.z == st.alloc)
            st.alloc = st.alloc + 1
            self.assume_wellformed(st, result)
        else:
            result = sym.fresh(rtype, f"ret.{fs.qualname}")
            self.assume_wellformed(st, result)
        post = self.spec_state(st, bound, mod, fs.qualname, fnode)
        post.store["result"] = result
        post.old = pre_snapshot
        post.pc = st.pc
        post.ghost = dict(post.ghost)
        post.ghost.pop("final_store", None)
        ltypes = {}
        for nm, ts in fs.types.items():
            if not nm.startswith("__") and isinstance(ts, str):
                try:
                    ltypes[nm] = self.parse_type_str(ts, mod)
                except EngineError:
                    pass
        if fnode is not None:
            for nm, ann in self.local_annotations(Frame(mod, fs.qualname, fnode, fs)).items():
                if nm not in ltypes:
                    t = loader.parse_type(ann, mod, self.pseudo_classes())
                    if t is not None:
                        ltypes[nm] = t
        post.ghost["callee_locals"] = {"types": ltypes, "vals": {}}
        for clause in fs.ensures:
            c = self.spec_assume(clause, post)
            st.assume(c)
        if not fs.pure:
            self.assume_histories(pre_snapshot, st, bound)
        results.append((st, result))
        return results

    def contract_ret_type(self, fs, fnode, mod):
        if fs.returns:
            return self.parse_type_str(fs.returns, mod)
        if fnode is not None and fnode.returns is not None:
            return loader.parse_type(fnode.returns, mod, self.pseudo_classes())
        return None

    # ------------------------------------------------------------------
    def modifies_locs(self, fs, bound, st: State, mod, fnode):
        """Resolve a `modifies` list to [(ref z3 | None, heap key, type)]."""
        locs = []
        for m in fs.modifies:
            if m in ("fresh", "alloc", "fresh1", "*"):
                continue
            node = ast.parse(m, mode="eval").body
            if not isinstance(node, ast.Attribute):
                raise EngineError(f"modifies clause must be an attribute location: {m}")
            if isinstance(node.value, ast.Name) and node.value.id not in bound and (
                    node.value.id in self.pseudo_classes() or self.class_info(node.value.id)[0] is not None):
                # `Class.field`: the field of ANY object of that class (whole-field frame)
                fd = self.field_decl(node.value.id, node.attr)
                if fd is None:
                    raise EngineError(f"modifies unknown field: {m}")
                locs.append((None, fd[0], fd[1]))
                continue
            s = self.spec_state(st, bound, mod, fs.qualname, fnode)
            base = self.evs(node.value, s)
            bt = base.t.inner if isinstance(base.t, TOpt) else base.t
            if not isinstance(bt, TRef):
                raise EngineError(f"modifies base is not an object: {m}")
            fd = self.field_decl(bt.cls, node.attr)
            if fd is None:
                raise EngineError(f"modifies unknown field: {m}")
            ref = sym.opt_val(base).z if isinstance(base.t, TOpt) else base.z
            locs.append((ref, fd[0], fd[1]))
        return locs

    def check_alloc_frame(self, fs, st, node):
        """A callee that allocates makes its caller allocate: the root's frame must declare `fresh` too."""
        if (check_ := self.root_spec) is not None and not st.spec and st.depth == 0 and fs.target != check_.target:
            if any(m in ("fresh", "alloc", "fresh1") for m in fs.modifies) and not any(
                    m in ("fresh", "alloc", "fresh1", "*") for m in check_.modifies):
                self.oblige(st, "frame", f"allocation by callee {fs.qualname} (declare `fresh` in modifies)", z3.BoolVal(False), node)

    def havoc_modifies(self, fs, bound, st: State, mod, fnode, node=None, check=True):
        if check:
            self.check_alloc_frame(fs, st, node)
        if "*" in fs.modifies:
            if check and self.root_spec is not None and not st.spec and "*" not in self.root_spec.modifies:
                self.oblige(st, "frame", f"callee {fs.qualname} may write anything (`*`)", z3.BoolVal(False), node)
            st.havoc_all()
            return
        for ref, key, t in self.modifies_locs(fs, bound, st, mod, fnode):
            if check:
                self.check_frame(st, ref, key, node)
            if ref is None:
                st.havoc_field(key, t)
            else:
                st.havoc_loc(ref, key, t)
        if not fs.pure and any(m in ("fresh", "alloc", "*") for m in fs.modifies):
            st.havoc_alloc()  # only a callee that declares allocation (`fresh` in its frame) may allocate

    # ------------------------------------------------------------------
    def history_clauses(self, cls: str):
        out = []
        mod, ci = self.class_info(cls)
        chain = mod.mro(cls) if mod else [cls]
        for key, clauses in self.reg.history.items():
            if key.split(":")[1] in chain:
                out.extend(clauses)
        return out

    def assume_histories(self, before: State, after: State, store):
        """Assume the two-state class constraints for every object in `store`."""
        for name, v in store.items():
            t = v.t
            if isinstance(t, TRef):
                for clause in self.history_clauses(t.cls):
                    s = after.copy()
                    s.store = {"self": v}
                    s.old = before.copy()
                    s.old.store = {"self": v}
                    s.spec = True
                    s.pc = after.pc
                    s.guards = []
                    after.assume_raw(self.spec_assume(clause, s))

    def history_obligations(self, before: State, after: State, store, node):
        for name, v in store.items():
            t = v.t
            if isinstance(t, TRef):
                for clause in self.history_clauses(t.cls):
                    s = after.copy()
                    s.store = {"self": v}
                    s.old = before.copy()
                    s.old.store = {"self": v}
                    s.spec = True
                    s.pc = after.pc
                    s.guards = []
                    self.oblige(after, "history", f"{t.cls}: {clause}", self.spec_bool(clause, s), node)


class _NoBody:
    body: list = []
    decorator_list: list = []
