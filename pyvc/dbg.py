"""Debug: python3-vt -m pyvc.dbg <contracts-module> <target-suffix> <oid-substring> [dump|bound]"""
import importlib, sys, z3, time
from pyvc.spec import REG
from pyvc.verify import Engine
from pyvc import smt
importlib.import_module(sys.argv[1])
t=[t for t in REG.funs if t.endswith(sys.argv[2])][0]
e=Engine(); obs=e.verify(t)
mode = sys.argv[4] if len(sys.argv)>4 else "check"
def s_reason(ob):
    s=z3.Solver(); s.set("timeout",3000); s.add(*ob.pc); s.add(z3.Not(ob.goal)); r=s.check()
    return (str(r), s.reason_unknown() if r==z3.unknown else "")
for ob in obs:
    if sys.argv[3] in ob.oid and ob.status is None:
        if mode=="dump":
            for h in ob.pc: print("H:", h)
            print("G:", ob.goal); break
        t0=time.time()
        if mode=="bound":
            r=smt.check(ob.pc, ob.goal, 5000)
            if r[0]=="unsat": continue
            print("   full:", r[0], s_reason(ob))
        else:
            r=smt.check(ob.pc, ob.goal, 10000)
        print(ob.oid[:120], ob.trace[-4:], r[0], r[1], round(time.time()-t0,1))
