"""Expression evaluation (program mode and spec mode)."""
from __future__ import annotations

import ast

import z3

from . import sym
from .state import EngineError, Raised, State
from .sym import (
    ANY,
    BOOL,
    BYTES,
    CONST,
    INT,
    NONE,
    STR,
    SV,
    Const,
    TAny,
    TBool,
    TBytes,
    TConst,
    TDict,
    TInt,
    TList,
    TNone,
    TOpt,
    TRef,
    TSet,
    TStr,
    TTuple,
    mk_const,
    sort_of,
)

MAXCP = 0x10FFFF


def is_strlike(t):
    return isinstance(t, (TStr, TBytes))


def _none_test(t):
    """(`x`, True) for `x is not None`, (`x`, False) for `x is None`, else None."""
    if (isinstance(t, ast.Compare) and len(t.ops) == 1 and isinstance(t.left, ast.Name)
            and isinstance(t.comparators[0], ast.Constant) and t.comparators[0].value is None):
        if isinstance(t.ops[0], ast.IsNot):
            return t.left.id, True
        if isinstance(t.ops[0], ast.Is):
            return t.left.id, False
    return None


class ExprMixin:
    # ------------------------------------------------------------------
    # monadic helpers
    def bind(self, results, fn):
        out = []
        for st, v in results:
            if isinstance(v, Raised):
                out.append((st, v))
            else:
                out.extend(fn(st, v))
        return out

    def ev_list(self, exprs, st):
        """Evaluate expressions left to right -> [(state, [values])]."""
        results = [(st, [])]
        for e in exprs:
            nxt = []
            for s, vals in results:
                if isinstance(vals, Raised):
                    nxt.append((s, vals))
                    continue
                for s2, v in self.ev(e, s):
                    if isinstance(v, Raised):
                        nxt.append((s2, v))
                    else:
                        nxt.append((s2, vals + [v]))
            results = nxt
        return results

    def evs(self, e, st: State) -> SV:
        """Spec-mode evaluation: total, no forks, no obligations."""
        was = st.spec
        st.spec = True
        try:
            r = self.ev(e, st)
        finally:
            st.spec = was
        if len(r) != 1 or isinstance(r[0][1], Raised):
            raise EngineError(f"spec expression forks or raises: {ast.unparse(e)}")
        return r[0][1]

    def spec_bool(self, text_or_node, st: State):
        node = (
            ast.parse(text_or_node, mode="eval").body
            if isinstance(text_or_node, str)
            else text_or_node
        )
        was = st.spec
        st.spec = True
        try:
            r = self.ev_cond(node, st)
        finally:
            st.spec = was
        if len(r) != 1 or isinstance(r[0][1], Raised):
            raise EngineError(f"spec clause forks or raises: {ast.unparse(node)}")
        return r[0][1]

    def spec_assume(self, text_or_node, st: State):
        """spec_bool for a clause that is going to be *assumed* (positive position)."""
        self._assuming = getattr(self, "_assuming", 0) + 1
        try:
            return self.spec_bool(text_or_node, st)
        finally:
            self._assuming -= 1

    # ------------------------------------------------------------------
    def truthy(self, v: SV, st=None):
        t = v.t
        if isinstance(t, TBool):
            return v.z
        if isinstance(t, TInt):
            return v.z != 0
        if is_strlike(t):
            return self.seq_len(v.z) > 0
        if isinstance(t, TList):
            if t.elem is None:
                return z3.BoolVal(False)
            return self.seq_len(v.z) > 0
        if isinstance(t, TNone):
            return z3.BoolVal(False)
        if isinstance(t, TOpt):
            return z3.And(z3.Not(sym.opt_is_none(v)), self.truthy(sym.opt_val(v), st))
        if isinstance(t, TRef):
            # a class that declares the ghost field `_truthy` has a __bool__ / __len__: bool(x) is that field (a function of
            # the object's state; whoever changes the object lists the field in its frame).  Every other object is true.
            fd = self.field_decl(t.cls, "_truthy")
            if fd is not None:
                if st is None:
                    raise EngineError(f"truthiness of an object of class {t.cls} (ghost field _truthy) without a state")
                return st.load(v.z, fd[0], fd[1]).z
            # a repository class with its own __bool__ / __len__ and no ghost view: `True` would be a guess - refuse
            mod, ci = self.class_info(t.cls)
            if mod is not None:
                for c in mod.mro(t.cls):
                    cc = mod.classes.get(c)
                    if cc is not None and ("__bool__" in cc.methods or "__len__" in cc.methods):
                        raise EngineError(f"truthiness of an object of class {t.cls}: {c} defines __bool__/__len__ (declare the ghost field _truthy)")
            return z3.BoolVal(True)
        if isinstance(t, TDict):
            return z3.Length(v.extra["keys"]) > 0
        if isinstance(t, TConst) and v.const is not None:
            return z3.BoolVal(bool(v.const.v))
        if isinstance(t, TTuple):
            return z3.BoolVal(len(t.elems) > 0)
        raise EngineError(f"truthiness of {t!r}")

    def eq(self, a: SV, b: SV):
        """Python == on modelled values (z3 Bool)."""
        ta, tb = a.t, b.t
        if isinstance(ta, TNone) and isinstance(tb, TNone):
            return z3.BoolVal(True)
        if isinstance(ta, TNone):
            a, b, ta, tb = b, a, tb, ta
        if isinstance(tb, TNone):
            if isinstance(ta, TOpt):
                return sym.opt_is_none(a)
            return z3.BoolVal(False)
        if isinstance(ta, TOpt) and isinstance(tb, TOpt):
            if ta == tb:
                return a.z == b.z
            raise EngineError("== on different option types")
        if isinstance(ta, TOpt):
            return z3.And(z3.Not(sym.opt_is_none(a)), self.eq(sym.opt_val(a), b))
        if isinstance(tb, TOpt):
            return z3.And(z3.Not(sym.opt_is_none(b)), self.eq(a, sym.opt_val(b)))
        if is_strlike(ta) and is_strlike(tb):
            if type(ta) is not type(tb):
                return z3.BoolVal(False)
            # char-level comparison where possible
            if a.char is not None and b.char is not None:
                return a.char == b.char
            for x, y in ((a, b), (b, a)):
                if x.char is not None and y.const is not None:
                    if len(y.const.v) != 1:
                        return z3.BoolVal(False)
            if a.const is not None and b.const is not None:
                return z3.BoolVal(a.const.v == b.const.v)
            for x, y in ((a, b), (b, a)):
                if y.const is not None:
                    return self.str_eq_lit(x, y.const.v)
            return a.z == b.z
        if isinstance(ta, (TInt, TBool)) and isinstance(tb, (TInt, TBool)):
            if type(ta) is type(tb):
                return a.z == b.z
            return sym.coerce(a, INT).z == sym.coerce(b, INT).z
        if ta == tb:
            if isinstance(ta, TDict):
                # the same model value: same key order, same membership, same values (stronger than Python's ==, which
                # ignores order; used only between a dict and itself / its recorded copy)
                return z3.And(a.extra["keys"] == b.extra["keys"], a.extra["has"] == b.extra["has"], a.extra["val"] == b.extra["val"])
            return a.z == b.z
        if isinstance(ta, TRef) and isinstance(tb, TRef):
            return a.z == b.z
        if isinstance(ta, TList) and isinstance(tb, TList):
            if ta.elem is None and tb.elem is None:
                return z3.BoolVal(True)
            if ta.elem is None:
                return z3.Length(b.z) == 0
            if tb.elem is None:
                return z3.Length(a.z) == 0
        if isinstance(ta, TTuple) and isinstance(tb, TTuple):
            if len(ta.elems) != len(tb.elems):
                return z3.BoolVal(False)
            return z3.And(
                *[self.eq(sym.tup_get(a, i), sym.tup_get(b, i)) for i in range(len(ta.elems))]
            )
        if isinstance(ta, TAny) or isinstance(tb, TAny):
            raise EngineError("== on opaque values")
        return z3.BoolVal(False)

    def str_eq_lit(self, x: SV, lit):
        cps = list(lit) if isinstance(lit, bytes) else [ord(c) for c in lit]
        n = len(cps)
        conj = [z3.Length(x.z) == n]
        for j, c in enumerate(cps):
            conj.append(self.seq_nth(x.z, z3.IntVal(j)) == c)
        return z3.And(*conj)

    # -- sequence helpers with engine-side lemma instances ------------------
    def seq_nth(self, s, i):
        """nth with structural simplification through extract/concat/unit."""
        return self._nth(s, i, 0)

    def _nth(self, s, i, depth):
        if depth < 6 and z3.is_app(s):
            k = s.decl().kind()
            if k == z3.Z3_OP_SEQ_EXTRACT:
                base, off, _ln = s.children()
                # valid when 0 <= i < len(s) (callers index in range); nth(extract(b,o,l),i)=nth(b,o+i)
                return self._nth(base, sym.lsimp(off + i), depth + 1)
            if k == z3.Z3_OP_SEQ_UNIT:
                iv = sym.lsimp(i)
                if z3.is_int_value(iv) and iv.as_long() == 0:
                    return s.children()[0]
            if k == z3.Z3_OP_SEQ_CONCAT:
                iv = sym.lsimp(i)
                if z3.is_int_value(iv):
                    idx = iv.as_long()
                    chs = s.children()
                    for n_, ch in enumerate(chs):
                        if ch.decl().kind() == z3.Z3_OP_SEQ_UNIT:
                            if idx == 0:
                                return ch.children()[0]
                            idx -= 1
                        else:
                            if n_ == len(chs) - 1:
                                # nth(u1..uk ++ X, k+j) = nth(X, j)   (callers index in range)
                                return self._nth(ch, z3.IntVal(idx), depth + 1)
                            break
        return s[i]

    def seq_len(self, z, depth=0):
        """len(z) computed structurally (units, concats, slices whose length the engine fixed)."""
        if z is None:
            return z3.IntVal(0)
        if depth < 8 and z3.is_app(z):
            k = z.decl().kind()
            if k == z3.Z3_OP_SEQ_EMPTY:
                return z3.IntVal(0)
            if k == z3.Z3_OP_SEQ_UNIT:
                return z3.IntVal(1)
            if k == z3.Z3_OP_SEQ_CONCAT:
                return sym.lsimp(z3.Sum(*[self.seq_len(c, depth + 1) for c in z.children()]))
        return z3.Length(z)

    def simp_extract(self, s, off, ln, depth=0):
        """extract(s, off, ln) with structural rewriting through leading units and nested extracts
        (valid sequence identities for 0 <= off, 0 <= ln, off + ln <= len(s); callers guarantee this)."""
        if depth < 6 and z3.is_app(s):
            k = s.decl().kind()
            offv = sym.lsimp(off)
            if k == z3.Z3_OP_SEQ_CONCAT and z3.is_int_value(offv) and offv.as_long() >= 1:
                chs = s.children()
                if chs[0].decl().kind() == z3.Z3_OP_SEQ_UNIT:
                    rest = chs[1] if len(chs) == 2 else z3.Concat(*chs[1:])
                    return self.simp_extract(rest, z3.IntVal(offv.as_long() - 1), ln, depth + 1)
            if k == z3.Z3_OP_SEQ_EXTRACT:
                base, o, _l0 = s.children()
                return self.simp_extract(base, sym.lsimp(o + off), ln, depth + 1)
        return z3.SubSeq(s, off, ln)

    def mk_char(self, st: State, c, t=STR) -> SV:
        c = sym.lsimp(c)
        if not z3.is_int_value(c):
            hi = 255 if isinstance(t, TBytes) else MAXCP
            st.assume_raw(z3.And(c >= 0, c <= hi))
        return SV(t, z3.Unit(c), char=c)

    # ------------------------------------------------------------------
    def ev_cond(self, e, st: State):
        """Evaluate in boolean context -> [(state, z3 Bool | Raised)]."""
        if isinstance(e, ast.BoolOp):
            is_and = isinstance(e.op, ast.And)
            rest_pure = all(self.is_pure_expr(v, st) for v in e.values[1:])
            if st.spec or rest_pure:
                results = [(st, [])]
                npushed = 0
                # sequential evaluation under growing guards (single path unless an operand forks)
                out = []

                def go(s, idx, acc, pushed):
                    if idx == len(e.values):
                        for _ in range(pushed):
                            s.guards.pop()
                        out.append((s, z3.And(*acc) if is_and else z3.Or(*acc)))
                        return
                    for s2, c in self.ev_cond(e.values[idx], s):
                        if isinstance(c, Raised):
                            # an exception escaping from under guards: guards already in its pc
                            out.append((s2, c))
                            continue
                        if idx + 1 < len(e.values):
                            s2.guards.append(c if is_and else z3.Not(c))
                            go(s2, idx + 1, acc + [c], pushed + 1)
                        else:
                            go(s2, idx + 1, acc + [c], pushed)

                go(st, 0, [], 0)
                return out
            # impure tail: fork on the value of the head
            out = []
            for s, c in self.ev_cond(e.values[0], st):
                if isinstance(c, Raised):
                    out.append((s, c))
                    continue
                rest = (
                    e.values[1]
                    if len(e.values) == 2
                    else ast.BoolOp(op=e.op, values=e.values[1:])
                )
                for branch, decided in ((c, not is_and), (z3.Not(c), is_and)):
                    s2 = s.copy()
                    s2.assume(branch)
                    if not self.feasible(s2):
                        continue
                    if decided:
                        out.append((s2, z3.BoolVal(not is_and)))
                    else:
                        out.extend(self.ev_cond(rest, s2))
            return out
        if isinstance(e, ast.UnaryOp) and isinstance(e.op, ast.Not):
            return [
                (s, c if isinstance(c, Raised) else z3.Not(c))
                for s, c in self.ev_cond(e.operand, st)
            ]
        if isinstance(e, ast.Call) and st.spec and isinstance(e.func, ast.Name):
            if e.func.id == "implies":
                a = self.spec_bool(e.args[0], st)
                st.guards.append(a)
                try:
                    b = self.spec_bool(e.args[1], st)
                finally:
                    st.guards.pop()
                return [(st, z3.Implies(a, b))]
        return self.bind(self.ev(e, st), lambda s, v: [(s, self.truthy(v, s))])

    # ------------------------------------------------------------------
    def ev(self, e, st: State):
        m = getattr(self, "ev_" + type(e).__name__, None)
        if m is None:
            raise EngineError(f"unsupported expression {type(e).__name__}: {ast.unparse(e)}")
        return m(e, st)

    def ev_Constant(self, e, st):
        if e.value is ...:
            raise EngineError("Ellipsis")
        return [(st, mk_const(e.value))]

    def ev_Name(self, e, st):
        n = e.id
        if n in st.store:
            return [(st, st.store[n])]
        v = self.lookup_global(n, st)
        if v is None and n == "__name__":
            v = mk_const(st.frame.module.dotted)  # the module's dotted name
        if v is None:
            raise EngineError(f"unbound name {n}")
        return [(st, v)]

    def ev_Tuple(self, e, st):
        def fin(s, vals):
            if isinstance(vals, Raised):
                return [(s, vals)]
            if all(v.const is not None for v in vals):
                return [(s, SV(CONST, None, Const(tuple(v.const.v for v in vals)), extra=vals))]
            for v in vals:
                if isinstance(v.t, (TNone,)):
                    pass
            try:
                return [(s, self.mk_tuple(vals))]
            except TypeError as err:
                raise EngineError(str(err))

        return [r for s, vals in self.ev_list(e.elts, st) for r in fin(s, vals)]

    def mk_tuple(self, vals):
        # python-side tuple (kept structurally; converted to a datatype on demand)
        vals = list(vals)
        return SV(CONST, None, None, extra=vals)

    def ev_List(self, e, st):
        if not e.elts:
            return [(st, SV(TList(None), None))]

        def fin(s, vals):
            if isinstance(vals, Raised):
                return [(s, vals)]
            if all(v.const is not None for v in vals):
                return [(s, SV(CONST, None, Const([v.const.v for v in vals]), extra=vals))]
            vals = [self.reify(v) for v in vals]
            # an Optional element that is known (path condition + short-circuit guards) not to be None is its value:
            # `[x] if x else []` is a list of the value type
            vals = [sym.opt_val(v) if isinstance(v.t, TOpt) and not s.spec and self.implied(s, z3.Not(sym.opt_is_none(v))) else v
                    for v in vals]
            t = vals[0].t
            for v in vals[1:]:
                if v.t != t:
                    raise EngineError("heterogeneous list literal")
            z = z3.Concat(*[z3.Unit(v.z) for v in vals]) if len(vals) > 1 else z3.Unit(vals[0].z)
            return [(s, SV(TList(t), z))]

        return [r for s, vals in self.ev_list(e.elts, st) for r in fin(s, vals)]

    def ev_Dict(self, e, st):
        if not e.keys:
            return [(st, SV(CONST, None, Const({})))]
        try:
            v = ast.literal_eval(e)
        except Exception:
            # a dict literal with computed values: its values are evaluated (for their obligations) and the dict itself is an
            # opaque python-side value - usable only where nothing looks inside it (e.g. passed on as **kwargs to a callee
            # whose assumed contract ignores them)
            if any(k is None for k in e.keys):
                raise EngineError(f"dict literal with ** unpacking: {ast.unparse(e)}")
            out = []
            for s2, vals in self.ev_list(list(e.values), st):
                out.append((s2, vals if isinstance(vals, Raised) else SV(CONST, None, None, extra=("pydict", ast.unparse(e)))))
            return out
        return [(st, SV(CONST, None, Const(v)))]

    def ev_Set(self, e, st):
        try:
            v = ast.literal_eval(e)
        except Exception:
            raise EngineError(f"non-constant set literal: {ast.unparse(e)}")
        return [(st, SV(CONST, None, Const(v)))]

    def reify(self, v: SV) -> SV:
        """Turn python-side tuples / constants into z3-backed values."""
        if isinstance(v.t, TConst):
            if v.extra is not None and isinstance(v.extra, list) and (
                v.const is None or isinstance(v.const.v, tuple)
            ):
                return sym.tup_mk([self.reify(x) for x in v.extra])
            if v.const is not None:
                c = v.const.v
                if isinstance(c, (str, int, bool, bytes)) or c is None:
                    return mk_const(c)
                if isinstance(c, tuple):
                    return sym.tup_mk([self.reify(mk_const(x)) for x in c])
                if isinstance(c, list):
                    if not c:
                        return SV(TList(None), None)
                    items = [self.reify(mk_const(x)) for x in c]
                    z = (
                        z3.Concat(*[z3.Unit(i.z) for i in items])
                        if len(items) > 1
                        else z3.Unit(items[0].z)
                    )
                    return SV(TList(items[0].t), z)
                if isinstance(c, dict) and c and all(isinstance(k, str) and isinstance(x, str) for k, x in c.items()):
                    # a literal {str: str} table
                    ks = [mk_const(k).z for k in c]
                    has = z3.K(sym.IntSeq, z3.BoolVal(False))
                    val = z3.K(sym.IntSeq, z3.Empty(sym.IntSeq))
                    for k, x in c.items():
                        has = z3.Store(has, mk_const(k).z, z3.BoolVal(True))
                        val = z3.Store(val, mk_const(k).z, mk_const(x).z)
                    keys = z3.Concat(*[z3.Unit(k) for k in ks]) if len(ks) > 1 else z3.Unit(ks[0])
                    return SV(TDict(sym.STR, sym.STR), None, extra={"keys": keys, "has": has, "val": val})
            raise EngineError(f"cannot reify constant {v.const.v if v.const else v.extra!r}")
        return v

    def tuple_items(self, v: SV):
        """Elements of a tuple value (python-side or datatype)."""
        if isinstance(v.t, TConst) and isinstance(v.extra, list):
            return v.extra
        if isinstance(v.t, TConst) and v.const is not None and isinstance(v.const.v, (tuple, list)):
            return [mk_const(x) for x in v.const.v]
        if isinstance(v.t, TTuple):
            return [sym.tup_get(v, i) for i in range(len(v.t.elems))]
        return None

    def ev_JoinedStr(self, e, st):
        parts = [p.value for p in e.values if isinstance(p, ast.FormattedValue)]

        def fin(s, vals):
            if isinstance(vals, Raised):
                return [(s, vals)]
            r = self.fstring_model(e, vals, s)
            return [(s, r)]

        return [r for s, vals in self.ev_list(parts, st) for r in fin(s, vals)]

    def fstring_model(self, e, vals, st):
        # default: opaque string; operands were evaluated for their safety obligations.
        # exact when every piece is a literal or a str value formatted without conversion
        pieces = []
        vi = 0
        exact = True
        for p in e.values:
            if isinstance(p, ast.Constant):
                pieces.append(sym.str_lit(p.value))
            else:
                v = vals[vi]
                vi += 1
                if p.conversion == -1 and p.format_spec is None and is_strlike(v.t):
                    pieces.append(v.z)
                elif p.conversion == -1 and p.format_spec is None and isinstance(v.t, TInt):
                    pieces.append(self.dec_str(v.z, st))
                elif p.conversion == -1 and p.format_spec is None and self.ghost_str(v, st) is not None:
                    pieces.append(self.ghost_str(v, st))
                else:
                    exact = False
        if exact and pieces:
            z = z3.Concat(*pieces) if len(pieces) > 1 else pieces[0]
            return SV(STR, z)
        return sym.fresh(STR, "fstr")

    def ghost_str(self, v, st):
        """str(x) / format(x, '') of an object whose class declares the ghost field `_str` (its __str__, a function of the
        object's state and nothing else; object.__format__ with an empty spec is str(self))."""
        if not isinstance(v.t, TRef):
            return None
        fd = self.field_decl(v.t.cls, "_str")
        if fd is None or not is_strlike(fd[1]):
            return None
        return st.load(v.z, fd[0], fd[1]).z

    def dec_str(self, n, st):
        """str(n) for an int: uninterpreted, injective on naturals via inverse function."""
        dec = z3.Function("Dec", z3.IntSort(), sym.IntSeq)
        undec = z3.Function("UnDec", sym.IntSeq, z3.IntSort())
        r = dec(n)
        st.assume_raw(undec(r) == n)
        st.assume_raw(z3.Length(r) >= 1)
        # first character is a digit or '-': in particular not the hyphen for n >= 0
        c0 = r[0]
        st.assume_raw(z3.Implies(n >= 0, z3.And(c0 >= 48, c0 <= 57)))
        return r

    def ev_UnaryOp(self, e, st):
        if isinstance(e.op, ast.Not):
            return [
                (s, c if isinstance(c, Raised) else SV(BOOL, z3.Not(c)))
                for s, c in self.ev_cond(e.operand, st)
            ]
        if isinstance(e.op, ast.USub):
            def neg(s, v):
                if not isinstance(v.t, TInt):
                    raise EngineError("unary minus on non-int")
                c = Const(-v.const.v) if v.const is not None else None
                return [(s, SV(INT, -v.z, c))]

            return self.bind(self.ev(e.operand, st), neg)
        raise EngineError(f"unary op {type(e.op).__name__}")

    def ev_BoolOp(self, e, st):
        boolish = all(self.looks_bool(v) for v in e.values)
        if st.spec or boolish:
            return [
                (s, c if isinstance(c, Raised) else SV(BOOL, c))
                for s, c in self.ev_cond(e, st)
            ]
        # value semantics: fork on the truthiness of the head
        is_and = isinstance(e.op, ast.And)
        out = []
        rest = e.values[1] if len(e.values) == 2 else ast.BoolOp(op=e.op, values=e.values[1:])
        for s, v in self.ev(e.values[0], st):
            if isinstance(v, Raised):
                out.append((s, v))
                continue
            c = self.truthy(v, s)
            for branch, take_head in ((c, not is_and), (z3.Not(c), is_and)):
                s2 = s.copy()
                s2.assume(branch)
                if not self.feasible(s2):
                    continue
                if take_head:
                    if not is_and and isinstance(v.t, TOpt):
                        v2 = sym.opt_val(v)  # `x or y` returns x only when x is truthy, hence not None
                        out.append((s2, v2))
                    else:
                        out.append((s2, v))
                else:
                    out.extend(self.ev(rest, s2))
        return out

    def looks_bool(self, e):
        if isinstance(e, (ast.Compare, ast.BoolOp)):
            return (
                all(self.looks_bool(v) for v in e.values) if isinstance(e, ast.BoolOp) else True
            )
        if isinstance(e, ast.UnaryOp) and isinstance(e.op, ast.Not):
            return True
        if isinstance(e, ast.Constant) and isinstance(e.value, bool):
            return True
        if isinstance(e, ast.Call):
            f = e.func
            name = f.id if isinstance(f, ast.Name) else f.attr if isinstance(f, ast.Attribute) else ""
            return name in (
                "isinstance",
                "issubclass",
                "startswith",
                "endswith",
                "isdigit",
                "implies",
                "forall",
                "exists",
                "hasattr",
                "callable",
                "any",
                "all",
                "bool",
            ) or name in self.bool_specfuns()
        if isinstance(e, ast.Name):
            return False
        return False

    def ev_IfExp(self, e, st):
        out = []
        for s, c in self.ev_cond(e.test, st):
            if isinstance(c, Raised):
                out.append((s, c))
                continue
            if (st.spec or (self.is_pure_expr(e.body, s) and self.is_pure_expr(e.orelse, s))):
                # evaluate both under guards and merge when the sorts agree
                s.guards.append(c)
                ra = self.ev(e.body, s)
                s.guards.pop()
                if len(ra) == 1 and not isinstance(ra[0][1], Raised):
                    s.guards.append(z3.Not(c))
                    rb = self.ev(e.orelse, s)
                    s.guards.pop()
                    if len(rb) == 1 and not isinstance(rb[0][1], Raised):
                        a, b = ra[0][1], rb[0][1]
                        # `x if x is not None else d` / `d if x is None else x`: on its branch x is not None - its value
                        nm = _none_test(e.test)
                        if nm is not None:
                            if nm[1] and isinstance(e.body, ast.Name) and e.body.id == nm[0] and isinstance(a.t, TOpt):
                                a = sym.opt_val(a)
                            if not nm[1] and isinstance(e.orelse, ast.Name) and e.orelse.id == nm[0] and isinstance(b.t, TOpt):
                                b = sym.opt_val(b)
                        m = self.merge_ite(c, a, b)
                        if m is not None:
                            out.append((s, m))
                            continue
            for branch, sub in ((c, e.body), (z3.Not(c), e.orelse)):
                s2 = s.copy()
                s2.assume(branch)
                if not self.feasible(s2):
                    continue
                out.extend(self.ev(sub, s2))
        return out

    def merge_ite(self, c, a: SV, b: SV):
        if isinstance(a.t, TConst) or isinstance(b.t, TConst):
            try:
                a, b = self.reify(a), self.reify(b)
            except EngineError:
                return None
        if a.t == b.t:
            if isinstance(a.t, TNone):
                return a
            if isinstance(a.t, TDict) or a.z is None:
                return None
            return SV(a.t, z3.If(c, a.z, b.z))
        # None | T
        for x, y, flip in ((a, b, False), (b, a, True)):
            if isinstance(x.t, TNone) and not isinstance(y.t, (TNone, TOpt, TDict, TConst)):
                if isinstance(y.t, TList) and y.t.elem is None:
                    return None
                t = TOpt(y.t)
                n, sm = sym.opt_none(t), sym.opt_some(t, y)
                return SV(t, z3.If(c, sm.z, n.z) if flip else z3.If(c, n.z, sm.z))
            if isinstance(x.t, TNone) and isinstance(y.t, TOpt):
                n = sym.opt_none(y.t)
                return SV(y.t, z3.If(c, y.z, n.z) if flip else z3.If(c, n.z, y.z))
            if isinstance(x.t, TOpt) and x.t.inner == y.t:
                sm = sym.opt_some(x.t, y)
                return SV(x.t, z3.If(c, sm.z, x.z) if flip else z3.If(c, x.z, sm.z))
        if isinstance(a.t, TList) and isinstance(b.t, TList):
            if a.t.elem is None and b.t.elem is not None:
                return SV(b.t, z3.If(c, z3.Empty(sort_of(b.t)), b.z))
            if b.t.elem is None and a.t.elem is not None:
                return SV(a.t, z3.If(c, a.z, z3.Empty(sort_of(a.t))))
        return None

    # ------------------------------------------------------------------
    def ev_Compare(self, e, st):
        operands = [e.left] + list(e.comparators)

        def fin(s, vals):
            if isinstance(vals, Raised):
                return [(s, vals)]
            cs = []
            for op, a, b in zip(e.ops, vals, vals[1:]):
                cs.append(self.compare(op, a, b, s, e))
            return [(s, SV(BOOL, z3.And(*cs) if len(cs) > 1 else cs[0]))]

        return [r for s, vals in self.ev_list(operands, st) for r in fin(s, vals)]

    def compare(self, op, a: SV, b: SV, st, node):
        if isinstance(op, (ast.Eq, ast.NotEq)) and isinstance(a.t, TDict) and isinstance(b.t, TDict) and not st.spec:
            # the model's dict equality (same key ORDER too) is stronger than Python's: fine in a specification, not for
            # deciding a branch of the program
            raise EngineError("== on dicts in program code")
        if isinstance(op, ast.Eq):
            return self.eq(a, b)
        if isinstance(op, ast.NotEq):
            return z3.Not(self.eq(a, b))
        if isinstance(op, (ast.Is, ast.IsNot)):
            if isinstance(b.t, TNone) or isinstance(a.t, TNone):
                r = self.eq(a, b)
            elif isinstance(a.t, TRef) and isinstance(b.t, TRef):
                r = a.z == b.z
            elif isinstance(a.t, TBool) and isinstance(b.t, TBool):
                r = a.z == b.z
            elif isinstance(a.t, TOpt) and isinstance(b.t, TBool):
                r = self.eq(a, b)
            elif isinstance(a.t, TConst) and isinstance(b.t, TConst) and a.const and b.const:
                r = z3.BoolVal(a.const.v is b.const.v)
            else:
                raise EngineError(f"'is' on {a.t!r}, {b.t!r}")
            return r if isinstance(op, ast.Is) else z3.Not(r)
        if isinstance(op, (ast.In, ast.NotIn)):
            r = self.contains(b, a, st)
            return r if isinstance(op, ast.In) else z3.Not(r)
        if isinstance(a.t, TOpt):
            self.partial(st, z3.Not(sym.opt_is_none(a)), "TypeError", node)
            a = sym.opt_val(a)
        if isinstance(b.t, TOpt):
            self.partial(st, z3.Not(sym.opt_is_none(b)), "TypeError", node)
            b = sym.opt_val(b)
        if isinstance(a.t, (TInt, TBool)) and isinstance(b.t, (TInt, TBool)):
            x, y = sym.coerce(a, INT).z if isinstance(a.t, TBool) else a.z, (
                sym.coerce(b, INT).z if isinstance(b.t, TBool) else b.z
            )
            return {
                ast.Lt: lambda: x < y,
                ast.LtE: lambda: x <= y,
                ast.Gt: lambda: x > y,
                ast.GtE: lambda: x >= y,
            }[type(op)]()
        raise EngineError(f"comparison {type(op).__name__} on {a.t!r}, {b.t!r}")

    def contains(self, container: SV, x: SV, st):
        container = self.unbox(container, st)
        if isinstance(container.t, TOpt):
            if not st.spec:  # `x in None` is a TypeError; in a specification the clause itself guards the case
                self.partial(st, z3.Not(sym.opt_is_none(container)), "TypeError", ast.Constant(value=None))
            container = sym.opt_val(container)
        t = container.t
        if isinstance(t, TRef):
            # x in obj: the class's assumed (pure) __contains__
            fs = self.reg.funs.get(f"ext:{t.cls}.__contains__")
            if fs is None or not fs.pure:
                raise EngineError(f"'in' on an object of class {t.cls} (no pure assumed __contains__)")
            rs = self.call_contract(fs, [container, x], {}, st, ast.Constant(value=None), params=fs.types.get("__params__"))
            return self.truthy(rs[-1][1], st)
        if isinstance(t, TConst):
            items = None
            if container.const is not None:
                c = container.const.v
                if isinstance(c, dict):
                    items = [mk_const(k) for k in c]
                elif isinstance(c, (tuple, list, set, frozenset)):
                    items = [mk_const(k) for k in c]
            if items is None and isinstance(container.extra, list):
                items = container.extra
            if items is None:
                raise EngineError("'in' on opaque constant")
            return z3.Or(*[self.eq(x, it) for it in items]) if items else z3.BoolVal(False)
        if is_strlike(t):
            if not is_strlike(x.t):
                raise EngineError("'in' str with non-str")
            if container.const is not None:
                lit = container.const.v
                if x.char is not None:
                    cps = sorted(set(lit if isinstance(lit, bytes) else map(ord, lit)))
                    return z3.Or(*[x.char == c for c in cps]) if cps else z3.BoolVal(False)
                if x.const is not None:
                    return z3.BoolVal(x.const.v in lit)
            return z3.Contains(container.z, x.z)
        if isinstance(t, TList):
            if t.elem is None:
                return z3.BoolVal(False)
            xv = sym.coerce(self.reify(x), t.elem)
            return z3.Contains(container.z, z3.Unit(xv.z))
        if isinstance(t, TSet):
            return z3.Select(container.z, sym.coerce(x, t.k).z)
        if isinstance(t, TDict):
            if isinstance(x.t, TNone) and not isinstance(t.k, TOpt):
                return z3.BoolVal(False)  # None is not a key of a dict whose keys are never None
            if isinstance(x.t, TOpt) and not isinstance(t.k, TOpt):
                return z3.And(z3.Not(sym.opt_is_none(x)), z3.Select(container.extra["has"], sym.coerce(sym.opt_val(x), t.k).z))
            return z3.Select(container.extra["has"], sym.coerce(x, t.k).z)
        raise EngineError(f"'in' on {t!r}")

    # ------------------------------------------------------------------
    def ev_BinOp(self, e, st):
        def fin(s, vals):
            if isinstance(vals, Raised):
                return [(s, vals)]
            a, b = vals
            return [(s, self.binop(e.op, a, b, s, e))]

        return [r for s, vals in self.ev_list([e.left, e.right], st) for r in fin(s, vals)]

    def binop(self, op, a: SV, b: SV, st, node):
        if isinstance(a.t, TOpt):
            self.partial(st, z3.Not(sym.opt_is_none(a)), "TypeError", node)
            a = sym.opt_val(a)
        if isinstance(b.t, TOpt):
            self.partial(st, z3.Not(sym.opt_is_none(b)), "TypeError", node)
            b = sym.opt_val(b)
        ta, tb = a.t, b.t
        if isinstance(ta, (TInt, TBool)) and isinstance(tb, (TInt, TBool)):
            x, y = sym.coerce(a, INT).z if isinstance(ta, TBool) else a.z, (
                sym.coerce(b, INT).z if isinstance(tb, TBool) else b.z
            )
            cst = None
            if a.const is not None and b.const is not None:
                try:
                    cst = Const(
                        {
                            ast.Add: lambda p, q: p + q,
                            ast.Sub: lambda p, q: p - q,
                            ast.Mult: lambda p, q: p * q,
                            ast.FloorDiv: lambda p, q: p // q,
                            ast.Mod: lambda p, q: p % q,
                        }[type(op)](a.const.v, b.const.v)
                    )
                except Exception:
                    cst = None
            if isinstance(op, ast.Add):
                return SV(INT, x + y, cst)
            if isinstance(op, ast.Sub):
                return SV(INT, x - y, cst)
            if isinstance(op, ast.Mult):
                return SV(INT, x * y, cst)
            if isinstance(op, (ast.FloorDiv, ast.Mod)):
                self.partial(st, y != 0, "ZeroDivisionError", node)
                if not (b.const is not None and b.const.v > 0):
                    self.partial(st, y > 0, "UnsupportedNegativeDivisor", node)
                return SV(INT, x / y if isinstance(op, ast.FloorDiv) else x % y, cst)
        if is_strlike(ta) and is_strlike(tb) and isinstance(op, ast.Add) and type(ta) is type(tb):
            cst = Const(a.const.v + b.const.v) if a.const is not None and b.const is not None else None
            if cst is not None:
                return mk_const(cst.v)
            return SV(ta, z3.Concat(a.z, b.z))
        if isinstance(op, ast.Add) and isinstance(ta, (TList, TConst)) and isinstance(tb, (TList, TConst)):
            a, b = self.reify(a), self.reify(b)
            if isinstance(a.t, TList) and isinstance(b.t, TList):
                if a.t.elem is None:
                    return b
                if b.t.elem is None:
                    return a
                if a.t == b.t:
                    return SV(a.t, z3.Concat(a.z, b.z))
        raise EngineError(f"binary op {type(op).__name__} on {ta!r}, {tb!r}: {ast.unparse(node)}")

    # ------------------------------------------------------------------
    def ev_Subscript(self, e, st):
        if isinstance(e.slice, ast.Slice):
            parts = [e.value] + [
                p if p is not None else ast.Constant(value=None)
                for p in (e.slice.lower, e.slice.upper)
            ]
            if e.slice.step is not None:
                raise EngineError("slice step")

            def fin(s, vals):
                if isinstance(vals, Raised):
                    return [(s, vals)]
                return [(s, self.slice(vals[0], vals[1], vals[2], s, e))]

            return [r for s, vals in self.ev_list(parts, st) for r in fin(s, vals)]

        def fin2(s, vals):
            if isinstance(vals, Raised):
                return [(s, vals)]
            b = self.unbox(vals[0], s)
            vals = [b] + list(vals[1:])
            if isinstance(b.t, TRef) or (isinstance(b.t, TOpt) and isinstance(b.t.inner, TRef)):
                # obj[key] on an object: its class's __getitem__ (a contracted repo method or an assumed external one);
                # an assumed contract may be given per literal key: ext:<Class>.__getitem__[<key>]  (TypedDict-like objects)
                bt = b.t.inner if isinstance(b.t, TOpt) else b.t
                k0 = vals[1]
                if k0.const is not None and isinstance(k0.const.v, str):
                    keyed = self.reg.funs.get(f"ext:{bt.cls}.__getitem__[{k0.const.v}]")
                    if keyed is not None:
                        return self.call_contract(keyed, [b, k0], {}, s, e, params=keyed.types.get("__params__"))
                rs = []
                for s2, m in self.getattr(b, "__getitem__", s, e):
                    rs.extend(self.apply(m, [vals[1]], {}, s2, e))
                return rs
            return [(s, self.index(vals[0], vals[1], s, e))]

        return [r for s, vals in self.ev_list([e.value, e.slice], st) for r in fin2(s, vals)]

    def norm_index(self, i, n, st=None):
        iv = sym.lsimp(i)
        if z3.is_int_value(iv):
            return iv if iv.as_long() >= 0 else sym.lsimp(n + iv)
        if st is not None and self.implied(st, i >= 0):
            return i
        return z3.If(i >= 0, i, i + n)

    def implied(self, st, cond) -> bool:
        """Is `cond` a consequence of the path condition (and guards)?  Used only to pick a
        simpler but equivalent term; `unknown` counts as no."""
        s = z3.Solver()
        s.set("timeout", 150)
        s.add(*st.pc)
        s.add(*st.guards)
        s.add(z3.Not(cond))
        return s.check() == z3.unsat

    def unbox(self, v: SV, st):
        """A dict that sits inside another container is a reference to an immutable mapping object (TBoxDict): where it is
        used as a dict, load its content (a dict-typed heap field) and assume the key list / membership connection."""
        if isinstance(v.t, sym.TBoxDict):
            d = st.load(v.z, f"{v.t.cls}.__mapping__", v.t.inner)
            return d
        return v

    def index(self, base: SV, idx: SV, st, node):
        base = self.unbox(base, st)
        t = base.t
        if isinstance(t, TOpt):
            if not st.spec:  # in a specification the clause itself guards the access (implies(x is not None, ...))
                self.partial(st, z3.Not(sym.opt_is_none(base)), "TypeError", node)
            base = sym.opt_val(base)
            t = base.t
        if isinstance(t, TConst):
            if base.const is not None and isinstance(base.const.v, dict):
                return self.const_dict_get(base, idx, st, node)
            items = self.tuple_items(base)
            if items is not None:
                if idx.const is None:
                    raise EngineError("symbolic index into python-side tuple")
                try:
                    return items[idx.const.v]
                except IndexError:
                    raise EngineError("constant index out of range")
            raise EngineError(f"subscript on constant: {ast.unparse(node)}")
        if isinstance(t, TTuple):
            if idx.const is None:
                raise EngineError("symbolic tuple index")
            return sym.tup_get(base, idx.const.v)
        if isinstance(t, TDict):
            k = sym.coerce(idx, t.k)
            self.partial(st, z3.Select(base.extra["has"], k.z), "KeyError", node)
            return SV(t.v, z3.Select(base.extra["val"], k.z))
        if not isinstance(idx.t, TInt):
            raise EngineError(f"index of type {idx.t!r}")
        if is_strlike(t) or isinstance(t, TList):
            if isinstance(t, TList) and t.elem is None:
                self.partial(st, z3.BoolVal(False), "IndexError", node)
                raise EngineError("index into untyped empty list")
            n = self.seq_len(base.z)
            self.partial(st, z3.And(idx.z >= -n, idx.z < n), "IndexError", node)
            k = self.norm_index(idx.z, n, st)
            el = self.seq_nth(base.z, k)
            if isinstance(t, TBytes):
                st.assume(z3.And(el >= 0, el <= 255))
                return SV(INT, el)
            if isinstance(t, TStr):
                return self.mk_char(st, el)
            r = SV(t.elem, el)
            if isinstance(t.elem, (TRef, TOpt)) and not st.spec:
                self.assume_wellformed(st, r)  # objects held in containers are allocated objects of their class
            return r
        raise EngineError(f"subscript on {t!r}: {ast.unparse(node)}")

    def const_dict_get(self, base, idx, st, node):
        d = base.const.v
        if idx.const is not None:
            if idx.const.v in d:
                return mk_const(d[idx.const.v])
            self.partial(st, z3.BoolVal(False), "KeyError", node)
            raise EngineError("constant KeyError")
        keys = list(d)
        self.partial(st, z3.Or(*[self.eq(idx, mk_const(k)) for k in keys]), "KeyError", node)
        vals = [self.reify(mk_const(d[k])) for k in keys]
        t = vals[0].t
        if any(v.t != t for v in vals):
            raise EngineError("heterogeneous constant dict values")
        z = vals[-1].z
        for k, v in zip(reversed(keys[:-1]), reversed(vals[:-1])):
            z = z3.If(self.eq(idx, mk_const(k)), v.z, z)
        r = SV(t, z)
        if isinstance(t, TStr) and all(len(d[k]) == 1 for k in keys):
            c = z3.IntVal(ord(d[keys[-1]]))
            for k in reversed(keys[:-1]):
                c = z3.If(self.eq(idx, mk_const(k)), z3.IntVal(ord(d[k])), c)
            r = SV(STR, z3.Unit(c), char=c)
        return r

    def slice(self, base: SV, lo: SV, hi: SV, st, node):
        t = base.t
        if isinstance(t, TConst):
            base = self.reify(base)
            t = base.t
        if isinstance(t, TList) and t.elem is None:
            return base
        if isinstance(t, TOpt):
            # None is not subscriptable: an obligation in code; in a specification the value is read through (callers guard it)
            if not st.spec:
                self.partial(st, z3.Not(sym.opt_is_none(base)), "TypeError", node, label=f"None is not subscriptable: {ast.unparse(node)}")
            base = sym.opt_val(base)
            t = base.t
        if not (is_strlike(t) or isinstance(t, TList)):
            raise EngineError(f"slice of {t!r}")
        if base.const is not None and all(
            isinstance(x.t, TNone) or x.const is not None for x in (lo, hi)
        ):
            l = None if isinstance(lo.t, TNone) else lo.const.v
            h = None if isinstance(hi.t, TNone) else hi.const.v
            return mk_const(base.const.v[l:h])
        n = self.seq_len(base.z)

        def bound(v, default):
            if isinstance(v.t, TNone):
                return default
            if isinstance(v.t, TOpt):
                inner = sym.opt_val(v).z
                return z3.If(sym.opt_is_none(v), default, clamp(inner))
            if not isinstance(v.t, TInt):
                raise EngineError("slice bound type")
            return clamp(v.z)

        def clamp(x):
            xv = sym.lsimp(x)
            if z3.is_int_value(xv) and xv.as_long() >= 0:
                k = xv.as_long()
                if k == 0:
                    return z3.IntVal(0)
                if self.implied(st, xv <= n):
                    return xv
                return z3.If(xv > n, n, xv)
            if self.implied(st, x >= 0):
                if self.implied(st, x <= n):
                    return x
                return z3.If(x > n, n, x)
            y = z3.If(x < 0, x + n, x)
            return z3.If(y < 0, 0, z3.If(y > n, n, y))

        l = bound(lo, z3.IntVal(0))
        h = bound(hi, n)
        if self.implied(st, h - l >= 0):
            ln = h - l
        else:
            ln = z3.If(h - l < 0, 0, h - l)
        l, ln = sym.lsimp(l), sym.lsimp(ln)
        r = self.simp_extract(base.z, l, ln)
        # lemma instance: the length of the slice (valid for 0 <= l <= n, 0 <= ln, l+ln <= n)
        # (guarded: bounds used to simplify l/ln may only hold under the current short-circuit guards)
        st.assume(z3.Length(r) == ln)
        # lemma instances for a slice of a two-part concatenation a ++ b (valid sequence identities):
        #   within a:            (a++b)[l:l+ln] = a[l:l+ln]                 if l+ln <= |a|
        #   from inside a to end (a++b)[l:]     = a[l:] ++ b                if l <= |a| and l+ln = |a|+|b|
        bz = base.z
        if z3.is_app(bz) and bz.decl().kind() == z3.Z3_OP_SEQ_CONCAT and bz.num_args() == 2:
            a, b = bz.children()
            if a.decl().kind() != z3.Z3_OP_SEQ_UNIT:
                la, lb = self.seq_len(a), self.seq_len(b)
                st.assume(z3.Implies(z3.And(l >= 0, ln >= 0, l + ln <= la), r == z3.SubSeq(a, l, ln)))
                st.assume(z3.Implies(z3.And(l >= 0, l <= la, l + ln == la + lb),
                                     r == z3.Concat(z3.SubSeq(a, l, la - l), b)))
                st.assume(z3.Implies(z3.And(l >= 0, l <= la), z3.Length(z3.SubSeq(a, l, la - l)) == la - l))
        return SV(t, r)

    # ------------------------------------------------------------------
    def ev_Attribute(self, e, st):
        return self.bind(self.ev(e.value, st), lambda s, v: self.getattr(v, e.attr, s, e))

    def ev_Lambda(self, e, st):
        return [(st, SV(CONST, None, None, extra=("lambda", e, dict(st.store))))]

    def ev_Starred(self, e, st):
        raise EngineError("starred expression")

    def ev_ListComp(self, e, st):
        return self.comprehension(e, st)

    def ev_GeneratorExp(self, e, st):
        return self.comprehension(e, st)

    def ev_DictComp(self, e, st):
        return self.dict_comprehension(e, st)
