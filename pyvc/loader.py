"""Load the real source from /repo on every run (nothing is copied by hand).

What extraction keeps: the `ast` of every function body, class bases, dataclass
field annotations and defaults, module-level constant assignments.
What extraction drops: comments, docstrings (skipped as expression statements),
and type annotations as *facts* (they are only used as sort hints).
"""
from __future__ import annotations

import ast
import hashlib
import os

from . import sym
from .sym import (
    ANY,
    BOOL,
    BYTES,
    INT,
    NONE,
    STR,
    TDict,
    TList,
    TOpt,
    TRef,
    TSet,
    TTuple,
)

REPO = os.environ.get("PYVC_REPO", "/repo")


class ClassInfo:
    def __init__(self, module, node: ast.ClassDef):
        self.module = module
        self.node = node
        self.name = node.name
        self.bases = [ast.unparse(b) for b in node.bases]
        self.is_dataclass = any(
            "dataclass" in ast.unparse(d) for d in node.decorator_list
        )
        self.methods: dict[str, ast.FunctionDef] = {}
        self.fields: list[tuple[str, ast.expr, ast.expr | None]] = []  # own dataclass fields
        self.class_consts: dict[str, ast.expr] = {}
        for st in node.body:
            if isinstance(st, (ast.FunctionDef, ast.AsyncFunctionDef)):
                self.methods[st.name] = st
            elif isinstance(st, ast.AnnAssign) and isinstance(st.target, ast.Name):
                ann = ast.unparse(st.annotation)
                if ann.startswith("ClassVar"):
                    if st.value is not None:
                        self.class_consts[st.target.id] = st.value
                else:
                    self.fields.append((st.target.id, st.annotation, st.value))
            elif isinstance(st, ast.Assign) and len(st.targets) == 1 and isinstance(
                st.targets[0], ast.Name
            ):
                self.class_consts[st.targets[0].id] = st.value

    def decorators(self, fn: ast.FunctionDef) -> list[str]:
        return [ast.unparse(d) for d in fn.decorator_list]


class Module:
    def __init__(self, dotted: str, repo: str | None = None):
        self.dotted = dotted
        repo = repo or REPO
        rel = dotted.replace(".", "/")
        path = os.path.join(repo, rel + ".py")
        if not os.path.exists(path):
            path = os.path.join(repo, rel, "__init__.py")
        self.path = path
        with open(path, encoding="utf8") as f:
            self.source = f.read()
        self.tree = ast.parse(self.source)
        self.functions: dict[str, ast.FunctionDef] = {}
        self.classes: dict[str, ClassInfo] = {}
        self.consts: dict[str, ast.expr] = {}
        self.imports: dict[str, str] = {}  # local name -> dotted origin
        for st in self.tree.body:
            self._top(st)

    def _top(self, st):
        if isinstance(st, (ast.FunctionDef, ast.AsyncFunctionDef)):
            self.functions[st.name] = st
        elif isinstance(st, ast.ClassDef):
            ci = ClassInfo(self, st)
            self.classes[st.name] = ci
            for mname, m in ci.methods.items():
                self.functions[f"{st.name}.{mname}"] = m
        elif isinstance(st, ast.Assign) and len(st.targets) == 1 and isinstance(
            st.targets[0], ast.Name
        ):
            self.consts[st.targets[0].id] = st.value
        elif isinstance(st, ast.AnnAssign) and isinstance(st.target, ast.Name):
            if st.value is not None:
                self.consts[st.target.id] = st.value
        elif isinstance(st, ast.ImportFrom):
            for a in st.names:
                self.imports[a.asname or a.name] = f"{st.module}.{a.name}"
        elif isinstance(st, ast.Import):
            for a in st.names:
                self.imports[a.asname or a.name.split(".")[0]] = a.name
        elif isinstance(st, ast.If):
            # `if TYPE_CHECKING:` blocks etc. -- only imports are looked at
            for s in st.body:
                if isinstance(s, (ast.Import, ast.ImportFrom)):
                    self._top(s)

    def function(self, qualname: str) -> ast.FunctionDef:
        return self.functions[qualname]

    def source_sha(self, qualname: str) -> str:
        seg = ast.get_source_segment(self.source, self.functions[qualname]) or ""
        return hashlib.sha256(seg.encode()).hexdigest()[:16]

    # class helpers -----------------------------------------------------
    def mro(self, cname: str) -> list[str]:
        """Linearised list of in-module ancestor class names (single inheritance chain first)."""
        out = []
        todo = [cname]
        while todo:
            c = todo.pop(0)
            if c in out:
                continue
            out.append(c)
            ci = self.classes.get(c)
            if ci:
                todo.extend(b for b in ci.bases if b in self.classes)
        return out

    def external_bases(self, cname: str) -> list[str]:
        out = []
        for c in self.mro(cname):
            for b in self.classes[c].bases:
                if b not in self.classes:
                    out.append(b)
        return out

    def is_subclass(self, c: str, of: str) -> bool:
        return of in self.mro(c)

    def subclasses(self, of: str) -> list[str]:
        return [c for c in self.classes if self.is_subclass(c, of)]

    def dataclass_fields(self, cname: str) -> list[tuple[str, ast.expr, ast.expr | None]]:
        """All dataclass fields in definition order (base first)."""
        out: list = []
        for c in reversed(self.mro(cname)):
            for f in self.classes[c].fields:
                out = [x for x in out if x[0] != f[0]] + [f]
        return out

    def find_method(self, cname: str, mname: str):
        for c in self.mro(cname):
            ci = self.classes[c]
            if mname in ci.methods:
                return c, ci.methods[mname]
        return None, None

    def field_owner(self, cname: str, fname: str) -> str:
        """The top-most in-module class that declares the field (for heap keys)."""
        owner = cname
        for c in self.mro(cname):
            ci = self.classes[c]
            if any(f[0] == fname for f in ci.fields):
                owner = c
        return owner


_modules: dict[tuple[str, str], Module] = {}


def load(dotted: str, repo: str | None = None) -> Module:
    k = (dotted, repo or REPO)
    if k not in _modules:
        _modules[k] = Module(dotted, repo)
    return _modules[k]


def clear_cache():
    _modules.clear()


# ---------------------------------------------------------------------------
# type annotations -> engine types (sort hints only)


def parse_type(ann, module: Module | None = None, extra_classes=()):
    """Map an annotation (ast node or string) to an engine type, or None when unknown."""
    if ann is None:
        return None
    if isinstance(ann, str):
        try:
            ann = ast.parse(ann, mode="eval").body
        except SyntaxError:
            return None
    if isinstance(ann, ast.Constant):
        if ann.value is None:
            return NONE
        if isinstance(ann.value, str):
            return parse_type(ann.value, module, extra_classes)
        return None
    if isinstance(ann, ast.Name):
        n = ann.id
        simple = {
            "int": INT,
            "bool": BOOL,
            "str": STR,
            "bytes": BYTES,
            "None": NONE,
            "Any": ANY,
            "object": ANY,
        }
        if n in simple:
            return simple[n]
        if module and n in module.classes or n in extra_classes:
            return TRef(n)
        return None
    if isinstance(ann, ast.Attribute):
        return None
    if isinstance(ann, ast.BinOp) and isinstance(ann.op, ast.BitOr):
        parts = _flatten_or(ann)
        ts = [parse_type(p, module, extra_classes) for p in parts]
        if any(t is None for t in ts):
            return None
        non = [t for t in ts if not isinstance(t, sym.TNone)]
        has_none = len(non) != len(ts)
        non = list(dict.fromkeys(non))
        if len(non) == 1:
            return TOpt(non[0]) if has_none else non[0]
        if non and all(isinstance(t, TRef) for t in non):
            # union of classes: use the common in-module ancestor if there is one
            if module:
                common = None
                for c in module.mro(non[0].cls):
                    if all(module.is_subclass(t.cls, c) for t in non):
                        common = c
                        break
                if common:
                    return TOpt(TRef(common)) if has_none else TRef(common)
        return None
    if isinstance(ann, ast.Subscript):
        base = ast.unparse(ann.value)
        sl = ann.slice
        args = list(sl.elts) if isinstance(sl, ast.Tuple) else [sl]
        if base in ("list", "List", "Sequence", "Iterable", "Iterator"):
            e = parse_type(args[0], module, extra_classes)
            return TList(e) if e is not None else None
        if base in ("tuple", "Tuple"):
            if len(args) == 2 and isinstance(args[1], ast.Constant) and args[1].value is ...:
                e = parse_type(args[0], module, extra_classes)
                return TList(e) if e is not None else None
            es = [parse_type(a, module, extra_classes) for a in args]
            return TTuple(es) if all(e is not None for e in es) else None
        if base in ("dict", "Dict"):
            k = parse_type(args[0], module, extra_classes)
            v = parse_type(args[1], module, extra_classes)
            if isinstance(v, TDict):
                v = sym.TBoxDict(v)  # a dict as a dict value: boxed (read-only mapping object)
            return TDict(k, v) if k is not None and v is not None else None
        if base in ("set", "Set"):
            k = parse_type(args[0], module, extra_classes)
            return TSet(k) if k is not None else None
        if base == "Optional":
            e = parse_type(args[0], module, extra_classes)
            return TOpt(e) if e is not None else None
        if base == "Literal":
            vals = [a.value for a in args if isinstance(a, ast.Constant)]
            if len(vals) != len(args):
                return None
            has_none = any(v is None for v in vals)
            non = [v for v in vals if v is not None]
            if all(isinstance(v, str) for v in non) and non:
                return TOpt(STR) if has_none else STR
            if all(isinstance(v, bool) for v in non) and non:
                return TOpt(BOOL) if has_none else BOOL
            if all(isinstance(v, int) for v in non) and non:
                return TOpt(INT) if has_none else INT
            return None
        if base in ("Final", "ClassVar"):
            return parse_type(args[0], module, extra_classes)
        if base == "type":
            return None
        return None
    return None


def _flatten_or(n):
    if isinstance(n, ast.BinOp) and isinstance(n.op, ast.BitOr):
        return _flatten_or(n.left) + _flatten_or(n.right)
    return [n]
