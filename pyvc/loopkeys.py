"""Print the loop keys of a function (used when writing contracts)."""
import ast, sys
from pyvc import loader
from pyvc.loops import loop_key
from pyvc.calls import _walk_own
m = loader.load(sys.argv[1])
for q in sys.argv[2:] or list(m.functions):
    fn = m.functions[q]
    loops = sorted((n for n in _walk_own(fn) if isinstance(n,(ast.While,ast.For))), key=lambda n:(n.lineno,n.col_offset))
    keys = [loop_key(n) for n in loops]
    for n,k in zip(loops,keys):
        same=[x for x in keys if x==k]
        idx = [i for i,(nn,kk) in enumerate(zip(loops,keys)) if kk==k].index(loops.index(n))+1
        print(f"{q}:{n.lineno}: {k!r}" + (f"  #{idx}" if len(same)>1 else ""))
