"""Loops: cut by invariant (entry / preservation / variant), or complete unrolling
when the iteration space is a finite set fixed by the path condition."""
from __future__ import annotations

import ast

import z3

from . import loader, sym
from .calls import _walk_own
from .state import NORMAL, EngineError, Outcome, Raised, State
from .sym import (
    BOOL,
    CONST,
    INT,
    SV,
    Const,
    TConst,
    TDict,
    TInt,
    TList,
    TNone,
    TOpt,
    TRef,
    TTuple,
    mk_const,
)

MUTATORS = {"append", "extend", "insert", "pop", "clear", "remove", "sort", "update", "add", "setdefault"}


def loop_key(s):
    if isinstance(s, ast.While):
        return f"while {ast.unparse(s.test)}"
    return f"for {ast.unparse(s.target)} in {ast.unparse(s.iter)}"


class LoopMixin:
    def find_loop_spec(self, s, st: State):
        ls, key = self._find_loop_spec(s, st)
        if ls is not None and st.frame.spec is self.root_spec:
            self.loop_specs_used.add(id(ls))
        return ls, key

    def _find_loop_spec(self, s, st: State):
        fr = st.frame
        spec = fr.spec
        if spec is None:
            return None, loop_key(s)
        key = loop_key(s)
        # ordinal among same-keyed loops of the function, in source order
        same = [
            n for n in sorted(
                (n for n in _walk_own(fr.node) if isinstance(n, (ast.While, ast.For))),
                key=lambda n: (n.lineno, n.col_offset),
            )
            if loop_key(n) == key
        ]
        if len(same) > 1:
            idx = [id(n) for n in same].index(id(s)) if id(s) in [id(n) for n in same] else 0
            k2 = f"{key}#{idx + 1}"
            if k2 in spec.loops:
                return spec.loops[k2], k2
            if key in spec.loops:
                return spec.loops[key], key
            return self._prefix_spec(spec, key, idx + 1), k2
        if key in spec.loops:
            return spec.loops[key], key
        return self._prefix_spec(spec, key, None), key

    def _prefix_spec(self, spec, key, ordinal):
        """A contract may key a loop by a unique prefix of its header text."""
        cands = []
        for k, v in spec.loops.items():
            base, _, n = k.partition("#")
            if key.startswith(base) and (not n or ordinal is None or int(n) == ordinal):
                if n and ordinal is None:
                    continue
                cands.append(v)
        return cands[0] if len(cands) == 1 else None

    # ------------------------------------------------------------------
    def assigned_names(self, body):
        names = set()
        for st_ in body:
            for n in ast.walk(st_):
                if isinstance(n, ast.Name) and isinstance(n.ctx, (ast.Store, ast.Del)):
                    names.add(n.id)
                elif isinstance(n, ast.Call) and isinstance(n.func, ast.Attribute) and isinstance(
                    n.func.value, ast.Name
                ) and n.func.attr in MUTATORS:
                    names.add(n.func.value.id)
                elif isinstance(n, (ast.ListComp, ast.GeneratorExp, ast.DictComp, ast.SetComp)):
                    pass
        return names

    def heap_targets(self, body, st: State, assigned):
        """Heap locations possibly written by the loop body -> list of (ref|None, key, type).

        ref None means the whole field is havocked."""
        locs = []
        for st_ in body:
            for n in ast.walk(st_):
                if isinstance(n, ast.Attribute) and isinstance(n.ctx, ast.Store):
                    locs.extend(self.loc_of_attr(n.value, n.attr, st, assigned))
                elif isinstance(n, ast.Call):
                    locs.extend(self.call_heap_targets(n, st, assigned))
        return locs

    def loc_of_attr(self, base_expr, attr, st, assigned):
        if isinstance(base_expr, ast.Name) and base_expr.id in st.store and base_expr.id not in assigned:
            bv = st.store[base_expr.id]
            bt = bv.t.inner if isinstance(bv.t, TOpt) else bv.t
            if isinstance(bt, TRef):
                fd = self.field_decl(bt.cls, attr)
                if fd is None:
                    raise EngineError(f"unknown field {bt.cls}.{attr}")
                ref = sym.opt_val(bv).z if isinstance(bv.t, TOpt) else bv.z
                return [(ref, fd[0], fd[1])]
        # unknown base object: havoc the field wholesale (for every class declaring it)
        out = []
        for key, decl in self.reg.fields.items():
            if attr in decl:
                cls = key.split(":")[1]
                fd = self.field_decl(cls, attr)
                out.append((None, fd[0], fd[1]))
        for m in self.modules_in_use():
            for cname, ci in m.classes.items():
                if any(f[0] == attr for f in ci.fields):
                    fd = self.field_decl(cname, attr)
                    out.append((None, fd[0], fd[1]))
        if not out:
            raise EngineError(f"cannot resolve store target .{attr}")
        return out

    def call_heap_targets(self, n: ast.Call, st: State, assigned):
        target, recv_expr = self.static_callee(n, st)
        if target is None:
            return []
        fs = self.reg.funs.get(target)
        if fs is None or fs.inline:
            modn, qual = target.split(":")
            mod = loader.load(modn, self.repo)
            fnode = mod.functions.get(qual)
            if fnode is None:
                return []
            # inlined callee: its own stores (self -> receiver expression)
            out = []
            for m in _walk_own(fnode):
                if isinstance(m, ast.Attribute) and isinstance(m.ctx, ast.Store):
                    if qual.endswith("__init__"):
                        continue  # stores into the fresh object
                    out.extend(self.loc_of_attr(ast.Name(id="__unknown__", ctx=ast.Load()), m.attr, st, assigned))
                elif isinstance(m, ast.Call):
                    out.extend(self.call_heap_targets_in(m, mod, qual, st))
            return out
        if fs.pure or not fs.modifies:
            return []
        modn, qual = target.split(":")
        fnode = None
        params = None
        if not modn.startswith("ext"):
            mod = loader.load(modn, self.repo)
            fnode = mod.functions[qual]
            a = fnode.args
            params = [p.arg for p in a.posonlyargs + a.args]
        else:
            params = fs.types.get("__params__", [])
            if isinstance(params, str):
                params = [p.strip() for p in params.split(",")]
        actuals = {}
        args = list(n.args)
        if recv_expr is not None:
            args = [recv_expr] + args
        for p, a in zip(params, args):
            actuals[p] = a
        for k in n.keywords:
            actuals[k.arg] = k.value
        out = []
        for m in fs.modifies:
            if m in ("fresh", "alloc", "*", "fresh1"):
                continue
            node = ast.parse(m, mode="eval").body
            base = node.value
            if isinstance(base, ast.Name) and base.id in actuals:
                out.extend(self.loc_of_attr(actuals[base.id], node.attr, st, assigned))
            else:
                out.extend(self.loc_of_attr(ast.Name(id="__unknown__", ctx=ast.Load()), node.attr, st, assigned))
        return out

    def call_heap_targets_in(self, n, mod, qual, st):
        return []

    def static_callee(self, n: ast.Call, st: State):
        """Best-effort static resolution of a call -> (target, receiver expr | None)."""
        f = n.func
        if isinstance(f, ast.Name):
            if f.id in st.store:
                return None, None
            g = self.lookup_global(f.id, st)
            if g is not None and isinstance(g.extra, tuple):
                if g.extra[0] == "func":
                    return g.extra[1], None
                if g.extra[0] == "class":
                    m = loader.load(g.extra[1], self.repo)
                    owner, init = m.find_method(g.extra[2], "__init__")
                    if init is not None:
                        return f"{g.extra[1]}:{owner}.__init__", None
            return None, None
        if isinstance(f, ast.Attribute):
            rt = self.static_type(f.value, st)
            if isinstance(rt, TOpt):
                rt = rt.inner
            if isinstance(rt, TRef):
                mod, ci = self.class_info(rt.cls)
                if mod:
                    owner, m = mod.find_method(rt.cls, f.attr)
                    if m is not None:
                        return f"{mod.dotted}:{owner}.{f.attr}", f.value
        return None, None

    def static_type(self, e, st: State):
        if isinstance(e, ast.Name) and e.id in st.store:
            return st.store[e.id].t
        if isinstance(e, ast.Attribute):
            bt = self.static_type(e.value, st)
            if isinstance(bt, TOpt):
                bt = bt.inner
            if isinstance(bt, TRef):
                fd = self.field_decl(bt.cls, e.attr)
                if fd:
                    return fd[1]
        return None

    # ------------------------------------------------------------------
    def havoc_for_loop(self, st: State, body, lspec, extra_names=()):
        assigned = self.assigned_names(body) | set(extra_names)
        if any(isinstance(n, (ast.Yield, ast.YieldFrom)) for b in body for n in ast.walk(b)):
            assigned.add("_yielded")
        locs = self.heap_targets(body, st, assigned)
        before = st.copy()
        for name in sorted(assigned):
            t = None
            if lspec is not None and name in lspec.types:
                t = self.parse_type_str(lspec.types[name], st.frame.module)
            if t is None:
                t = self.local_type(st, name)
            if t is None and name in st.store:
                cur = st.store[name]
                if isinstance(cur.t, TConst) or isinstance(cur.t, TNone) or (
                    isinstance(cur.t, TList) and cur.t.elem is None
                ):
                    raise EngineError(
                        f"loop-modified variable {name!r} needs a declared type (annotation or contract types=)"
                    )
                t = cur.t
            if t is None:
                # first assigned inside the loop: not live at the loop head
                st.store.pop(name, None)
                continue
            v = sym.fresh(t, f"{name}")
            self.assume_wellformed(st, v)
            st.store[name] = v
        for ref, key, t in locs:
            if ref is None:
                st.havoc_field(key, t)
            else:
                st.havoc_loc(ref, key, t)
        st.havoc_alloc()
        self.assume_histories(before, st, {k: v for k, v in before.store.items() if k not in assigned})
        return before

    def check_invariants(self, st: State, lspec, kind, key, node, entry_state):
        if lspec is None:
            return
        s = st.copy()
        s.loop_entries = st.loop_entries[:-1] + [entry_state] if kind != "entry" else st.loop_entries + [entry_state]
        s.old = self.entry_state
        s.pc = st.pc
        for clause in lspec.invariant:
            c = self.spec_bool(clause, s)
            self.oblige(st, f"inv-{kind}/{key}", clause, c, node)

    def assume_invariants(self, st: State, lspec, entry_state):
        if lspec is None:
            return
        s = st.copy()
        s.loop_entries = st.loop_entries + [entry_state]
        s.old = self.entry_state
        s.pc = st.pc
        for clause in lspec.invariant:
            st.assume_raw(self.spec_assume(clause, s))

    def variant_value(self, st: State, lspec, entry_state):
        if lspec is None or lspec.decreases is None:
            return None
        d = lspec.decreases
        parts = list(d) if isinstance(d, (tuple, list)) else [d]
        s = st.copy()
        s.loop_entries = st.loop_entries + [entry_state]
        s.old = self.entry_state
        s.pc = st.pc
        return [self.evs(ast.parse(p, mode="eval").body, s).z for p in parts]

    def check_variant(self, st: State, lspec, v0, key, node, entry_state):
        if v0 is None:
            return
        v1 = self.variant_value(st, lspec, entry_state)
        # lexicographic decrease, every component bounded below by 0 at the loop head
        lex = z3.BoolVal(False)
        for i in reversed(range(len(v0))):
            lex = z3.Or(v1[i] < v0[i], z3.And(v1[i] == v0[i], lex))
        self.oblige(st, f"variant/{key}", str(lspec.decreases), lex, node)

    # ------------------------------------------------------------------
    def ex_While(self, s, st: State):
        lspec, key = self.find_loop_spec(s, st)
        if lspec is None:
            raise EngineError(f"loop without invariant: {key!r} (line {s.lineno})")
        return self.cut_loop(s, st, lspec, key, s.test, s.body, s.orelse)

    def cut_loop(self, s, st: State, lspec, key, test, body, orelse, pre_body=None, extra_names=()):
        """pre_body: statements executed at the start of each iteration (for-loop element binding)."""
        entry = st.copy()
        self.check_invariants(st, lspec, "entry", key, s, entry)
        self.havoc_for_loop(st, body + (pre_body or []), lspec, extra_names)
        self.assume_invariants(st, lspec, entry)
        st.loop_entries = st.loop_entries + [entry]
        results = []
        conds = self.ev_cond_top(test, st) if test is not None else [(st, z3.BoolVal(True))]
        for s2, c in conds:
            if isinstance(c, Raised):
                s2.loop_entries = s2.loop_entries[:-1]
                results.append(self._raise(s2, c))
                continue
            # exit branch
            sx = s2.copy()
            sx.assume(z3.Not(c))
            if not z3.is_true(sym.lsimp(c)) and self.feasible(sx):
                sx.loop_entries = sx.loop_entries[:-1]
                sx.trace.append(f"L{s.lineno}:exit")
                if orelse:
                    results.extend(self.exec_block(orelse, sx))
                else:
                    results.append((sx, NORMAL))
            # body branch
            sb = s2
            sb.assume(c)
            if not self.feasible(sb):
                continue
            sb.trace.append(f"L{s.lineno}:iter")
            v0 = self.variant_value(sb, lspec, entry)
            if v0 is not None:
                self.oblige(sb, f"variant-bounded/{key}", str(lspec.decreases), z3.And(*[v >= 0 for v in v0]), s)
            elif isinstance(s, ast.While):
                if lspec is not None and getattr(lspec, "assume_terminates", None):
                    self.assumed_used.add(f"termination of loop {key!r} in {self.root_spec.target}: {lspec.assume_terminates}")
                else:
                    self.note_undecided(f"termination/{key}", "no decreases clause")
            for s3, oc in self.exec_block((pre_body or []) + body, sb):
                if oc.kind in ("normal", "continue"):
                    self.check_invariants(s3, lspec, "pres", key, s, entry)
                    self.check_variant(s3, lspec, v0, key, s, entry)
                    # path ends at the back edge
                elif oc.kind == "break":
                    s3.loop_entries = s3.loop_entries[:-1]
                    results.append((s3, NORMAL))
                else:
                    s3.loop_entries = s3.loop_entries[:-1]
                    results.append((s3, oc))
        return results

    # ------------------------------------------------------------------
    def ex_For(self, s, st: State):
        out = []
        it_expr = s.iter
        if (isinstance(it_expr, ast.Call) and isinstance(it_expr.func, ast.Name) and it_expr.func.id == "enumerate"
                and len(it_expr.args) == 1 and not it_expr.keywords and "enumerate" not in st.store):
            # for i, x in enumerate(xs): the pairs (index, xs[index]) over the list xs
            for s2, it in self.ev_top(it_expr.args[0], st):
                if isinstance(it, Raised):
                    out.append(self._raise(s2, it))
                    continue
                it = self.unbox(self.reify(it) if isinstance(it.t, TConst) else it, s2)
                if not isinstance(it.t, TList) or it.t.elem is None:
                    raise EngineError(f"enumerate over {it.t!r}")
                lspec, key = self.find_loop_spec(s, s2)
                out.extend(self.cut_seq(s, s2, it, lspec, key, enumerated=True))
            return out
        for s2, it in self.ev_top(s.iter, st):
            if isinstance(it, Raised):
                out.append(self._raise(s2, it))
                continue
            out.extend(self.for_over(s, s2, it))
        return out

    def for_over(self, s, st: State, it: SV):
        lspec, key = self.find_loop_spec(s, st)
        # python-side finite sequences: unroll completely
        items = None
        if isinstance(it.extra, tuple) and it.extra[0] == "range":
            lo, hi = it.extra[1], it.extra[2]
            if lspec is None or lspec.unroll:
                vals_lo = self.enumerate_values(st, lo.z, limit=1)
                vals_hi = self.enumerate_values(st, hi.z, limit=12)
                if vals_lo is not None and len(vals_lo) == 1 and vals_hi is not None:
                    res = []
                    for hv in vals_hi:
                        s2 = st.copy()
                        s2.assume_raw(hi.z == hv)
                        if not self.feasible(s2):
                            continue
                        for name, val in list(s2.store.items()):
                            if isinstance(val.t, TInt) and val.z is not None and val.z.eq(hi.z):
                                s2.store[name] = mk_const(hv)
                        res.extend(self.unroll(s, s2, [mk_const(k) for k in range(vals_lo[0], hv)]))
                    return res
                raise EngineError(f"range loop without invariant and without a finite bound: {key}")
            seq = None
            return self.cut_range(s, st, lo, hi, lspec, key)
        titems = self.tuple_items(it)
        if titems is not None and (lspec is None or lspec.unroll):
            return self.unroll(s, st, titems)
        if isinstance(it.extra, tuple) and it.extra[0] == "dictitems":
            return self.for_dict_items(s, st, it, lspec, key)
        if isinstance(it.t, TConst):
            it = self.reify(it)
        it = self.unbox(it, st)
        if isinstance(it.t, TDict):
            self.assume_keys_present(it, st)
            it = SV(TList(it.t.k), it.extra["keys"])
        if isinstance(it.t, TList):
            if it.t.elem is None:
                if s.orelse:
                    return self.exec_block(s.orelse, st)
                return [(st, NORMAL)]
            return self.cut_seq(s, st, it, lspec, key)
        if isinstance(it.t, sym.TStr):
            return self.cut_seq(s, st, it, lspec, key)
        raise EngineError(f"for-loop over {it.t!r} (line {s.lineno})")

    def unroll(self, s, st: State, items):
        results = []
        active = [st]
        for item in items:
            nxt = []
            for a in active:
                for s2, oc in self.assign(s.target, item, a):
                    if oc.kind != "normal":
                        results.append((s2, oc))
                        continue
                    for s3, oc2 in self.exec_block(s.body, s2):
                        if oc2.kind in ("normal", "continue"):
                            nxt.append(s3)
                        elif oc2.kind == "break":
                            results.append((s3, NORMAL))
                        else:
                            results.append((s3, oc2))
            active = nxt
        for a in active:
            if s.orelse:
                results.extend(self.exec_block(s.orelse, a))
            else:
                results.append((a, NORMAL))
        return results

    def loop_var_names(self, s):
        tgt = s.target
        first = tgt.id if isinstance(tgt, ast.Name) else next(
            (n.id for n in ast.walk(tgt) if isinstance(n, ast.Name)), "x"
        )
        return f"_i_{first}", f"_seq_{first}"

    def assume_keys_present(self, d: SV, st: State):
        """Every element of a dict's key list is a key of the dict (the connection between the two halves of the model)."""
        i = z3.Int(sym.fresh_name("q.key"))
        keys, has = d.extra["keys"], d.extra["has"]
        st.assume(z3.ForAll([i], z3.Implies(z3.And(i >= 0, i < z3.Length(keys)), z3.Select(has, keys[i]))))

    def cut_seq(self, s, st: State, seq: SV, lspec, key, items_of=None, enumerated=False):
        iname, sname = self.loop_var_names(s)
        st.store[sname] = seq
        st.store[iname] = SV(INT, z3.IntVal(0))
        from .spec import LoopSpec

        base = lspec or LoopSpec()
        ls = LoopSpec(
            invariant=[f"0 <= {iname} <= len({sname})"] + base.invariant,
            decreases=base.decreases or f"len({sname}) - {iname}",
            types=base.types,
            assume_terminates=base.assume_terminates,
        )
        test = ast.parse(f"{iname} < len({sname})", mode="eval").body
        if items_of is not None:
            # for k, v in d.items(): the pair (key, d[key]) for the keys in the dict's order
            dname = "_dict_" + iname[3:]
            st.store[dname] = items_of
            bind = ast.parse(f"__t = ({sname}[{iname}], {dname}[{sname}[{iname}]])\n{iname} += 1").body
        elif enumerated:
            bind = ast.parse(f"__t = ({iname}, {sname}[{iname}])\n{iname} += 1").body
        else:
            bind = ast.parse(f"__t = {sname}[{iname}]\n{iname} += 1").body
        bind[0].targets = [s.target]
        for b in bind:
            ast.copy_location(b, s)
            for n in ast.walk(b):
                if not hasattr(n, "lineno"):
                    ast.copy_location(n, s)
                else:
                    n.lineno, n.col_offset = s.lineno, s.col_offset
        ast.copy_location(test, s)
        for n in ast.walk(test):
            ast.copy_location(n, s)
        return self.cut_loop(s, st, ls, key, test, s.body, s.orelse, pre_body=bind)

    def cut_range(self, s, st: State, lo: SV, hi: SV, lspec, key):
        iname, sname = self.loop_var_names(s)
        st.store[iname] = lo
        st.store["_hi" + iname] = hi
        from .spec import LoopSpec

        ls = LoopSpec(
            invariant=[f"{iname} >= at_entry({iname})", f"implies(at_entry({iname}) <= _hi{iname}, {iname} <= _hi{iname})"] + lspec.invariant,
            decreases=lspec.decreases or f"_hi{iname} - {iname}",
            types=lspec.types,
        )
        test = ast.parse(f"{iname} < _hi{iname}", mode="eval").body
        bind = ast.parse(f"__t = {iname}\n{iname} += 1").body
        bind[0].targets = [s.target]
        for b in bind + [test]:
            for n in ast.walk(b):
                ast.copy_location(n, s)
        return self.cut_loop(s, st, ls, key, test, s.body, s.orelse, pre_body=bind)

    def for_dict_items(self, s, st, it, lspec, key):
        d = self.unbox(it.extra[1], st)
        if not isinstance(d.t, TDict):
            raise EngineError("items() of a non-dict")
        self.assume_keys_present(d, st)
        return self.cut_seq(s, st, SV(TList(d.t.k), d.extra["keys"]), lspec, key, items_of=d)

    # ------------------------------------------------------------------
    def bi_range(self, args, kwargs, st, node):
        if len(args) == 1:
            lo, hi = mk_const(0), args[0]
        elif len(args) == 2:
            lo, hi = args
        else:
            raise EngineError("range with step")
        if not (isinstance(lo.t, TInt) and isinstance(hi.t, TInt)):
            raise EngineError("range of non-int")
        return SV(CONST, None, None, extra=("range", lo, hi))

    def bi_reversed(self, args, kwargs, st, node):
        """reversed(xs) of a list: a fresh sequence R with |R| = |xs| and R[i] = xs[|xs|-1-i]."""
        (v,) = args
        v = self.reify(v) if isinstance(v.t, TConst) else v
        if not isinstance(v.t, TList) or v.t.elem is None:
            raise EngineError("reversed of a non-list")
        r = sym.fresh(v.t, "rev")
        n = z3.Length(v.z)
        st.assume(z3.Length(r.z) == n)
        i = z3.Int(sym.fresh_name("ri"))
        st.assume(z3.ForAll([i], z3.Implies(z3.And(i >= 0, i < n), r.z[i] == v.z[n - 1 - i])))
        return r

    # ------------------------------------------------------------------
    # list mutation through method calls on an lvalue
    def call_special(self, fv, e: ast.Call, st: State):
        f = e.func
        if not (isinstance(f, ast.Attribute) and f.attr in ("append", "extend", "insert", "pop", "clear", "__setitem__")):
            return None
        if not (isinstance(fv.extra, tuple) and fv.extra[0] == "bmethod"):
            return None
        recv = fv.extra[1]
        if isinstance(recv.t, sym.TDict) and f.attr == "pop" and isinstance(f.value, (ast.Name, ast.Attribute)) and len(e.args) == 1 and not e.keywords:
            return self.dict_pop(recv, f.value, e, st)
        if not isinstance(recv.t, TList):
            return None
        lv = f.value
        if isinstance(lv, ast.Subscript) and f.attr in ("append", "extend") and len(e.args) == 1:
            # obj[key].append(x) / .extend(xs) on an object whose item is a list attribute: the class's assumed
            # `__item_append__(key, x)` / `__item_extend__(key, xs)`
            out = []
            for s2, vals in self.ev_list([lv.value, lv.slice, e.args[0]], st):
                if isinstance(vals, Raised):
                    out.append((s2, vals))
                    continue
                base = vals[0]
                if not isinstance(base.t, TRef):
                    raise EngineError(f"list mutation on a temporary: {ast.unparse(e)}")
                keyed = None
                if vals[1].const is not None and isinstance(vals[1].const.v, str):
                    keyed = self.reg.funs.get(f"ext:{base.t.cls}.__item_{f.attr}__[{vals[1].const.v}]")
                if keyed is not None:  # an assumed contract per literal key
                    out.extend(self.call_contract(keyed, [base, vals[1], vals[2]], {}, s2, e, params=keyed.types.get("__params__")))
                    continue
                for s3, m in self.getattr(base, f"__item_{f.attr}__", s2, e):
                    out.extend(self.apply(m, [vals[1], vals[2]], {}, s3, e))
            return out
        if not isinstance(lv, (ast.Name, ast.Attribute)):
            raise EngineError(f"list mutation on a temporary: {ast.unparse(e)}")
        out = []
        for s2, vals in self.ev_list(list(e.args), st):
            if isinstance(vals, Raised):
                out.append((s2, vals))
                continue
            cur = recv
            ret = mk_const(None)
            if f.attr == "append":
                new = self.list_append(cur if cur.t.elem is not None else None, self.reify(vals[0]))
            elif f.attr == "extend":
                other = self.reify(vals[0]) if isinstance(vals[0].t, TConst) else vals[0]
                if not isinstance(other.t, TList):
                    raise EngineError("extend with non-list")
                new = self.list_concat(cur if cur.t.elem is not None else None, other)
            elif f.attr == "clear":
                new = SV(cur.t, z3.Empty(sym.sort_of(cur.t))) if cur.t.elem is not None else cur
            elif f.attr == "__setitem__":
                idx, item = vals
                if cur.t.elem is None:
                    self.partial(s2, z3.BoolVal(False), "IndexError", e)
                    raise EngineError("__setitem__ on untyped empty list")
                n = z3.Length(cur.z)
                self.partial(s2, z3.And(idx.z >= -n, idx.z < n), "IndexError", e)
                k = self.norm_index(idx.z, n, s2)
                item = sym.coerce(self.reify(item), cur.t.elem)
                new = SV(cur.t, z3.Concat(z3.SubSeq(cur.z, 0, k), z3.Unit(item.z), z3.SubSeq(cur.z, k + 1, n - k - 1)))
                s2.assume(z3.Length(new.z) == n)
            elif f.attr == "insert":
                idx, item = vals
                item = self.reify(item)
                if cur.t.elem is None:
                    new = SV(TList(item.t), z3.Unit(item.z))
                elif idx.const is not None and idx.const.v == 0:
                    new = SV(cur.t, z3.Concat(z3.Unit(sym.coerce(item, cur.t.elem).z), cur.z))
                else:
                    # list.insert(i, x): i < 0 counts from the end; the position is clamped to [0, len]
                    n = z3.Length(cur.z)
                    i0 = z3.If(idx.z < 0, idx.z + n, idx.z)
                    k = z3.If(i0 < 0, 0, z3.If(i0 > n, n, i0))
                    itz = sym.coerce(item, cur.t.elem).z
                    new = SV(cur.t, z3.Concat(z3.SubSeq(cur.z, 0, k), z3.Unit(itz), z3.SubSeq(cur.z, k, n - k)))
                    s2.assume(z3.Length(new.z) == n + 1)
                    s2.assume(z3.Implies(k == n, new.z == z3.Concat(cur.z, z3.Unit(itz))))
                    self.needs_shifted_instances = True
                    # element-wise description of the result (lemma instances for nth over the three-part concatenation)
                    j = z3.Int(sym.fresh_name("ij"))
                    s2.assume(z3.ForAll([j], z3.Implies(z3.And(j >= 0, j <= n),
                                                         new.z[j] == z3.If(j < k, cur.z[j], z3.If(j == k, itz, cur.z[j - 1])))))
            else:  # pop
                if cur.t.elem is None:
                    self.partial(s2, z3.BoolVal(False), "IndexError", e)
                    raise EngineError("pop from untyped empty list")
                n = z3.Length(cur.z)
                self.partial(s2, n > 0, "IndexError", e)
                if vals and not (vals[0].const is not None and vals[0].const.v in (0, -1)):
                    raise EngineError("pop only modelled for index 0 / -1")
                if vals and vals[0].const.v == 0:
                    self.needs_plus_instances = True  # elements move down by one: facts about x[q] are needed at q + 1
                    ret = SV(cur.t.elem, cur.z[0])
                    new = SV(cur.t, z3.SubSeq(cur.z, 1, n - 1))
                else:
                    ret = SV(cur.t.elem, cur.z[n - 1])
                    new = SV(cur.t, z3.SubSeq(cur.z, 0, n - 1))
                s2.assume(z3.Length(new.z) == n - 1)
                if isinstance(cur.t.elem, sym.TStr):
                    ret = SV(cur.t.elem, ret.z)
                if isinstance(cur.t.elem, (TRef, TOpt)):
                    self.assume_wellformed(s2, ret)
            rs = self.assign(_as_store(lv), new, s2)
            for s3, oc in rs:
                out.append((s3, oc.value if oc.kind == "raise" else ret))
        return out


def _dict_pop(self, d, lv, e, st):
    """d.pop(key) on a dict held in a variable / attribute: KeyError when the key is absent; otherwise the value, and the dict
    without that key (the other keys keep their values; the key order of the rest is not modelled)."""
    out = []
    for s2, vals in self.ev_list(list(e.args), st):
        if isinstance(vals, Raised):
            out.append((s2, vals))
            continue
        k = sym.coerce(self.reify(vals[0]), d.t.k)
        has, val, keys = d.extra["has"], d.extra["val"], d.extra["keys"]
        self.partial(s2, z3.Select(has, k.z), "KeyError", e)
        ret = SV(d.t.v, z3.Select(val, k.z))
        new = sym.fresh(d.t, "dpop")
        q = z3.Const(sym.fresh_name("dk"), sym.sort_of(d.t.k))
        s2.assume(new.extra["has"] == z3.Store(has, k.z, z3.BoolVal(False)))
        s2.assume(new.extra["val"] == val)
        s2.assume(z3.ForAll([q], z3.Select(new.extra["has"], q) == z3.Contains(new.extra["keys"], z3.Unit(q))))
        s2.assume(z3.Length(new.extra["keys"]) == z3.Length(keys) - 1)
        for s3, oc in self.assign(_as_store(lv), new, s2):
            out.append((s3, oc.value if oc.kind == "raise" else ret))
    return out


def _as_store(lv):
    t = ast.parse(f"{ast.unparse(lv)} = 0").body[0].targets[0]
    for n in ast.walk(t):
        ast.copy_location(n, lv)
    return t


LoopMixin.dict_pop = _dict_pop
