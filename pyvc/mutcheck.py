"""Seeded-fault sanity: apply a textual edit to a scratch copy of one repo file and verify a function.
usage: python -m pyvc.mutcheck <contracts-module> <target-suffix> <relpath> <old> <new>"""
import importlib, os, shutil, sys, tempfile, collections
from pyvc import smt, loader
from pyvc.spec import REG
from pyvc.verify import Engine
from pyvc.state import EngineError

def run(cm, target, rel, old, new, timeout=10000):
    importlib.import_module(cm)
    d = tempfile.mkdtemp(prefix="pyvc-mut-")
    try:
        shutil.copytree(os.path.join(os.environ.get("PYVC_REPO", "/repo"), "myst_parser"), os.path.join(d, "myst_parser"))
        p = os.path.join(d, rel)
        s = open(p).read()
        assert s.count(old) == 1, f"pattern must occur exactly once (found {s.count(old)} times)"
        open(p, "w").write(s.replace(old, new, 1))
        loader.clear_cache()
        res = {}
        for t in [t for t in REG.funs if t.endswith(target)]:
            e = Engine(repo=d)
            try:
                obs = e.verify(t)
            except EngineError as err:
                res[t] = ("undecided", str(err)); continue
            bad = collections.OrderedDict()
            for ob in obs:
                if ob.status is None:
                    ob.status, ob.backend, ob.time, ob.model = smt.check(ob.pc, ob.goal, timeout)
                if ob.status != "unsat":
                    bad.setdefault(ob.oid, ob.status)
            res[t] = ("failed" if bad else ("undecided" if e.undecided else "verified"), dict(bad) or {str(u): "undecided" for u in e.undecided}, e.undecided)
        return res
    finally:
        shutil.rmtree(d, ignore_errors=True)
        loader.clear_cache()

if __name__ == "__main__":
    cm, target, rel, old, new = sys.argv[1:6]
    old = old.encode().decode("unicode_escape"); new = new.encode().decode("unicode_escape")
    for t, r in run(cm, target, rel, old, new).items():
        print(t, r[0])
        if len(r) > 1 and isinstance(r[1], dict):
            for k, v in r[1].items(): print("    ", v, k)
        else: print("    ", r[1:])
