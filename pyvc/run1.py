"""Debug driver: verify one function in-process and print every obligation."""
import importlib, sys, time, collections
import z3
from pyvc import smt
from pyvc.spec import REG
from pyvc.verify import Engine
from pyvc.state import EngineError

def main():
    cm, target = sys.argv[1], sys.argv[2]
    importlib.import_module(cm)
    targets = [t for t in REG.funs if t.endswith(target) or target == "all"]
    for t in targets:
        if REG.funs[t].trusted: continue
        e = Engine()
        t0 = time.time()
        try:
            obs = e.verify(t)
        except EngineError as err:
            print(f"## {t}: UNDECIDED (engine): {err}")
            if "-t" in sys.argv:
                import traceback; traceback.print_exc()
            continue
        agg = collections.OrderedDict()
        for ob in obs:
            if ob.status is None:
                ob.status, ob.backend, ob.time, ob.model = smt.check(ob.pc, ob.goal, 10000)
            a = agg.setdefault(ob.oid, [])
            a.append(ob)
        bad = 0
        for oid, lst in agg.items():
            sts = {o.status for o in lst}
            st = "unsat" if sts == {"unsat"} else ("sat" if "sat" in sts else "unknown")
            if st != "unsat":
                bad += 1
                print(f"   {st.upper():8} {oid}  paths={len(lst)}")
                for o in lst:
                    if o.status != "unsat":
                        print("       line", o.line, "trace", o.trace[-8:], o.status)
                        if o.model is not None and "-v" in sys.argv:
                            print("       model:", str(o.model)[:1500])
                        break
        print(f"## {t}: {len(agg)} obligations ({len(obs)} path-obl), {bad} not discharged, paths={e.paths}, undecided={e.undecided}, {time.time()-t0:.1f}s")

main()
