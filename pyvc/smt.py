"""Discharge of obligations: z3 (Python API) first, then a CLI portfolio on `unknown`."""
from __future__ import annotations

import os
import re
import subprocess
import tempfile
import time

import z3

CLI = [
    ("z3-4.8.12", ["/usr/bin/z3", "-smt2"], "-T:{t}"),
    ("cvc5-1.0.3", ["/usr/bin/cvc5", "--strings-exp", "--lang=smt2"], "--tlimit={tms}"),
    ("z3-new-5.1", ["z3-new", "-smt2"], "-T:{t}"),
]


def to_smt2(assertions) -> str:
    s = z3.Solver()
    s.add(*assertions)
    return s.to_smt2()


_ident = re.compile(r"(?<![|\w!.#@$%^&*~<>=/+-])([A-Za-z_][\w!.#@]*![\w!.#@]*|[A-Za-z_][\w.#@]*\.[\w!.#@]*)(?![|\w])")


def run_cli(smt2: str, timeout_s: int, which=None):
    """Returns (verdict, backend) with verdict in sat/unsat/unknown."""
    text = "(set-logic ALL)\n" + smt2 if "(set-logic" not in smt2 else smt2
    with tempfile.NamedTemporaryFile("w", suffix=".smt2", delete=False, dir=os.environ.get("PYVC_TMP")) as f:
        f.write(text)
        path = f.name
    try:
        for name, cmd, tflag in CLI:
            if which and name not in which:
                continue
            args = cmd + [tflag.format(t=timeout_s, tms=timeout_s * 1000), path]
            try:
                p = subprocess.run(args, capture_output=True, text=True, timeout=timeout_s + 5)
            except (subprocess.TimeoutExpired, FileNotFoundError):
                continue
            out = p.stdout.strip().splitlines()
            head = out[0].strip() if out else ""
            if head in ("sat", "unsat"):
                return head, name
        return "unknown", None
    finally:
        try:
            os.unlink(path)
        except OSError:
            pass


def check(pc, goal, timeout_ms=10000, portfolio=True, want_model=False):
    """Is pc => goal valid?  -> (status, backend, seconds, model|None); status unsat = discharged.

    A conjunctive goal is split: each conjunct is a separate, smaller query."""
    t0 = time.time()
    if z3.is_and(goal) and goal.num_args() > 1:
        backends = set()
        for g in goal.children():
            st, be, _t, m = check(pc, g, timeout_ms, portfolio, want_model)
            if st != "unsat":
                return st, be, time.time() - t0, m
            backends.add(be)
        return "unsat", "+".join(sorted(b for b in backends if b)), time.time() - t0, None
    s = z3.Solver()
    s.set("timeout", timeout_ms)
    s.add(*pc)
    s.add(z3.Not(goal))
    r = s.check()
    if r == z3.unsat:
        return "unsat", "z3py-%s" % z3.get_version_string(), time.time() - t0, None
    if r == z3.sat:
        return "sat", "z3py-%s" % z3.get_version_string(), time.time() - t0, s.model()
    if portfolio:
        try:
            smt2 = s.to_smt2()
        except Exception:
            smt2 = None
        if smt2:
            verdict, backend = run_cli(smt2, max(1, timeout_ms // 1000))
            if verdict == "unsat":
                return "unsat", backend, time.time() - t0, None
            if verdict == "sat":
                return "sat", backend, time.time() - t0, None
    return "unknown", None, time.time() - t0, None
