"""Discharge of obligations: z3 (Python API) first, then a CLI portfolio on `unknown`."""
from __future__ import annotations

import os
import re
import subprocess
import tempfile
import time

import z3

CLI = [
    ("z3-4.8.12", ["/usr/bin/z3", "-smt2"], "-T:{t}"),
    ("cvc5-1.0.3", ["/usr/bin/cvc5", "--strings-exp", "--lang=smt2"], "--tlimit={tms}"),
    ("z3-new-5.1", ["z3-new", "-smt2"], "-T:{t}"),
]


def to_smt2(assertions) -> str:
    s = z3.Solver()
    s.add(*assertions)
    return s.to_smt2()


_ident = re.compile(r"(?<![|\w!.#@$%^&*~<>=/+-])([A-Za-z_][\w!.#@]*![\w!.#@]*|[A-Za-z_][\w.#@]*\.[\w!.#@]*)(?![|\w])")


def run_cli(smt2: str, timeout_s: int, which=None):
    """Returns (verdict, backend) with verdict in sat/unsat/unknown."""
    text = "(set-logic ALL)\n" + smt2 if "(set-logic" not in smt2 else smt2
    with tempfile.NamedTemporaryFile("w", suffix=".smt2", delete=False, dir=os.environ.get("PYVC_TMP")) as f:
        f.write(text)
        path = f.name
    try:
        procs = []
        for name, cmd, tflag in CLI:
            if which and name not in which:
                continue
            args = cmd + [tflag.format(t=timeout_s, tms=timeout_s * 1000), path]
            try:
                procs.append((name, subprocess.Popen(args, stdout=subprocess.PIPE, stderr=subprocess.DEVNULL, text=True)))
            except FileNotFoundError:
                continue
        # all back ends run concurrently; the first definitive answer wins
        deadline = time.time() + timeout_s + 5
        verdict = ("unknown", None)
        live = list(procs)
        while live and time.time() < deadline:
            for name, p in list(live):
                if p.poll() is not None:
                    live.remove((name, p))
                    out = (p.stdout.read() or "").strip().splitlines()
                    head = out[0].strip() if out else ""
                    if head in ("sat", "unsat"):
                        verdict = (head, name)
                        live = []
                        break
            else:
                time.sleep(0.02)
        for name, p in procs:
            if p.poll() is None:
                p.kill()
            try:
                p.wait(timeout=2)
            except Exception:
                pass
        return verdict
    finally:
        try:
            os.unlink(path)
        except OSError:
            pass


def run_cli_all(smt2: str, timeout_s: int):
    """Every command-line back end's own verdict on one query: {name: sat/unsat/unknown} (cross-solver agreement run)."""
    text = "(set-logic ALL)\n" + smt2 if "(set-logic" not in smt2 else smt2
    with tempfile.NamedTemporaryFile("w", suffix=".smt2", delete=False, dir=os.environ.get("PYVC_TMP")) as f:
        f.write(text)
        path = f.name
    out = {}
    try:
        procs = []
        for name, cmd, tflag in CLI:
            args = cmd + [tflag.format(t=timeout_s, tms=timeout_s * 1000), path]
            try:
                procs.append((name, subprocess.Popen(args, stdout=subprocess.PIPE, stderr=subprocess.DEVNULL, text=True)))
            except FileNotFoundError:
                continue
        for name, p in procs:
            try:
                stdout, _ = p.communicate(timeout=timeout_s + 5)
            except subprocess.TimeoutExpired:
                p.kill()
                stdout = ""
            lines = (stdout or "").strip().splitlines()
            head = lines[0].strip() if lines else ""
            out[name] = head if head in ("sat", "unsat") else "unknown"
        return out
    finally:
        try:
            os.unlink(path)
        except OSError:
            pass


# wall-clock budget of the in-process attempts: obligations of the unchanged tree need well under 2.5 s on an idle machine;
# the margin is for a machine whose 16 cores are all busy (a verdict must not flip to `unknown` under load)
IN_PROCESS_MS = 8000


def _has_quantifier(x):
    todo, seen = [x], set()
    while todo:
        y = todo.pop()
        if y.get_id() in seen:
            continue
        seen.add(y.get_id())
        if z3.is_quantifier(y):
            return True
        if z3.is_app(y):
            todo.extend(y.children())
    return False


_LAST = {"seconds": 0.0}


def _solve(assertions, timeout_ms, seed=None, want_model=False):
    """One check in a fresh z3 context -> ("sat" | "unsat" | "unknown", model in the ORIGINAL context or None)."""
    ctx = z3.Context()
    s = z3.Solver(ctx=ctx)
    s.set("timeout", int(timeout_ms))
    if seed is not None:
        s.set("random_seed", seed)
    for a in assertions:
        s.add(a.translate(ctx))
    t0 = time.time()
    r = s.check()
    _LAST["seconds"] = time.time() - t0
    if r == z3.unsat:
        return "unsat", None
    if r == z3.sat:
        model = None
        if want_model:
            try:
                model = s.model().translate(z3.main_ctx())
            except Exception:  # noqa: BLE001
                model = None
        return "sat", model
    return "unknown", None


def _confirmed(assertions, timeout_ms, force=False):
    """Second opinion on an `unsat` that was not immediate: the same query again, fresh context, another seed, four times
    the budget.  Only `unsat` twice counts (a fast first answer - the normal case - is taken as it is)."""
    if not force and _LAST["seconds"] < 2.0:
        return True
    r, _m = _solve(assertions, 4 * timeout_ms, seed=7)
    return r == "unsat"


def check(pc, goal, timeout_ms=10000, portfolio=True, want_model=False):
    """Is pc => goal valid?  -> (status, backend, seconds, model|None); status unsat = discharged.

    A conjunctive goal is split: each conjunct is a separate, smaller query."""
    t0 = time.time()
    parts = list(goal.children()) if z3.is_and(goal) and goal.num_args() > 1 else [goal]
    if len(parts) > 1:
        backends = set()
        for g in parts:
            st, be, _t, m = check(pc, g, timeout_ms, portfolio, want_model)
            if st != "unsat":
                return st, be, time.time() - t0, m
            backends.add(be)
        return "unsat", "+".join(sorted(b for b in backends if b)), time.time() - t0, None
    # Every in-process attempt runs in its OWN z3 context (the formulas are translated into it).  With one shared context a
    # solver that follows solvers interrupted by their timeout has been seen to answer `unsat` on a query that cvc5 finds
    # satisfiable and that the same z3 leaves `unknown` when asked on its own - a wrong "proved".
    # 0. without the quantified hypotheses (dropping hypotheses is sound for `unsat`): the engine has already added the
    #    instances that matter (at the goal's skolem constants), and the quantified originals can make z3 diverge
    ground = [h for h in pc if not _has_quantifier(h)]
    neg = z3.Not(goal)
    budget = min(timeout_ms, IN_PROCESS_MS)
    if len(ground) != len(pc):
        r0, _m = _solve(ground + [neg], budget)
        if r0 == "unsat" and _confirmed(ground + [neg], budget):
            return "unsat", "z3py-%s(qf-subset)" % z3.get_version_string(), time.time() - t0, None
    # quick in-process attempt first; hard queries go to the concurrent CLI portfolio with the full budget
    r, model = _solve(list(pc) + [neg], budget if portfolio else timeout_ms, want_model=want_model)
    if r == "unsat" and _confirmed(list(pc) + [neg], budget):
        return "unsat", "z3py-%s" % z3.get_version_string(), time.time() - t0, None
    if r == "sat":
        return "sat", "z3py-%s" % z3.get_version_string(), time.time() - t0, model
    if portfolio:
        try:
            # a fresh solver: after check() z3 prints its preprocessed state (internal symbols such as
            # seq.nth_u) which other solvers cannot parse
            smt2 = to_smt2(list(pc) + [z3.Not(goal)])
        except Exception:
            smt2 = None
        if smt2:
            verdict, backend = run_cli(smt2, max(1, timeout_ms // 1000))
            if verdict == "unsat":
                return "unsat", backend, time.time() - t0, None
            if verdict == "sat":
                return "sat", backend, time.time() - t0, None
    # (retries with other random seeds were used while all attempts shared one z3 context and verdicts varied from run to
    #  run; with a fresh context per attempt they are not needed, and on a changed tree they cost half a minute per failing
    #  obligation)
    return "unknown", None, time.time() - t0, None

