"""Contract registry and the sidecar contract DSL.

Clauses are strings in Python expression syntax.  The same text is translated to
SMT by the engine and evaluated at run time by pyvc.runtime (replay, monitoring).

Spec-only forms usable inside clauses:
  old(e)            value of e in the function's pre-state
  at_entry(e)       (loop invariants) value of e at loop entry
  result            the return value;  exc  the raised exception (raises clauses)
  implies(a, b)     logical implication
  forall(lo, hi, lambda i: body) / exists(lo, hi, lambda i: body)   bounded-range quantifiers
  spec functions    declared with @spec (pure Python; inlined, or unfolded when recursive)
"""
from __future__ import annotations

import ast
import inspect
import textwrap


class LoopSpec:
    def __init__(self, invariant=(), decreases=None, types=None, unroll=False, assume_terminates=None):
        self.assume_terminates = assume_terminates  # text: why termination is argued, not proved (an assumption)
        self.invariant = list(invariant)
        self.decreases = decreases
        self.types = dict(types or {})
        self.unroll = unroll


class FunSpec:
    def __init__(
        self,
        target: str,
        requires=(),
        ensures=(),
        raises=None,
        modifies=(),
        pure=False,
        inline=False,
        decreases=None,
        loops=None,
        types=None,
        returns=None,
        trusted=False,
        properties=(),
        notes="",
        ghost=None,
        lemmas=(),
        until=None,
        since=None,
        callers=None,
        at_call=None,
        cut_ensures=None,
        opaque=(),
    ):
        self.target = target
        self.module, self.qualname = target.split(":")
        self.requires = list(requires)
        self.ensures = list(ensures)
        self.raises = {k: list(v) for k, v in (raises or {}).items()}
        self.modifies = list(modifies)
        self.pure = pure
        self.inline = inline
        self.decreases = decreases
        self.loops = {
            k: (v if isinstance(v, LoopSpec) else LoopSpec(**v))
            for k, v in (loops or {}).items()
        }
        self.types = dict(types or {})
        self.returns = returns
        self.trusted = trusted
        self.properties = list(properties)
        self.notes = notes
        self.ghost = dict(ghost or {})
        self.lemmas = list(lemmas)
        # statement contract on a PREFIX of the body: the contract covers the statements before the first top-level
        # statement whose source starts with this text; the rest of the body is dropped (and said so in the evidence)
        self.until = until
        # statement contract on a SUFFIX of the body: execution starts at the first top-level statement whose source starts
        # with this text; the locals the suffix reads are declared as ghost parameters (`ghost=`) and constrained by `requires`
        # - i.e. the suffix is proved for ANY values the dropped prefix may have computed
        self.since = since
        # recursive spec functions that this proof uses only as uninterpreted symbols (no unfolding: fewer, never wrong, facts)
        self.opaque = tuple(opaque)
        # with until=: clauses proved where control falls through to the cut (default: `ensures`; `ensures` then also covers
        # the returns inside the prefix)
        self.cut_ensures = None if cut_ensures is None else list(cut_ensures)
        # statement assertions: {source text of a call in the body: [clauses]} - proved in the state just before that call
        # (locals visible, old() = function entry); a key that matches no call of the body is an error
        self.at_call = {k: list(v) for k, v in (at_call or {}).items()}
        # what CALLERS of a function with a prefix contract may rely on: an assumed (trusted) contract of the whole function
        self.callers = None
        if callers is not None:
            kw = dict(callers)
            kw.setdefault("types", types)
            kw.setdefault("returns", returns)
            self.callers = FunSpec(target, trusted=True, **kw)


class Registry:
    def __init__(self):
        self.funs: dict[str, FunSpec] = {}
        self.specfuns: dict[str, "SpecFun"] = {}
        self.fields: dict[str, dict[str, str]] = {}  # "module:Class" -> field -> type str
        self.history: dict[str, list[str]] = {}  # "module:Class" -> two-state clauses over self
        self.invariants: dict[str, list[str]] = {}
        self.assumed: list[dict] = []  # free-text records of assumed (unchecked) contracts
        self.ext_consts: dict[str, object] = {}  # dotted external name -> python constant (assumed)
        self.ext_exc: dict[str, str] = {}  # exception class of a library -> its parent class name

    def contract(self, target, **kw) -> FunSpec:
        fs = FunSpec(target, **kw)
        self.funs[target] = fs
        return fs


REG = Registry()


def contract(target, **kw):
    return REG.contract(target, **kw)


def fields(target, **kw):
    REG.fields.setdefault(target, {}).update(kw)


def history(target, *clauses):
    REG.history.setdefault(target, []).extend(clauses)


def ext_exception(name, parent="Exception"):
    REG.ext_exc[name] = parent


def ext_const(name, value):
    REG.ext_consts[name] = value


def assumed(name, statement, where=""):
    REG.assumed.append({"name": name, "statement": statement, "where": where})


class SpecFun:
    def __init__(self, fn, recursive=False, sig=None, fuel=1, abstract=False):
        self.fn = fn
        self.name = fn.__name__
        self.recursive = recursive or abstract
        self.abstract = abstract  # uninterpreted: only the python body is used (at run time)
        self.sig = sig  # for recursive: ([arg types...], ret type) as strings
        self.fuel = fuel
        src = textwrap.dedent(inspect.getsource(fn))
        tree = ast.parse(src)
        self.node = tree.body[0]
        self.params = [a.arg for a in self.node.args.args]

    def __call__(self, *a, **k):
        return self.fn(*a, **k)


def spec(fn=None, *, recursive=False, sig=None, fuel=1, abstract=False):
    def deco(f):
        sf = SpecFun(f, recursive=recursive, sig=sig, fuel=fuel, abstract=abstract)
        REG.specfuns[sf.name] = sf
        return sf

    if fn is not None:
        return deco(fn)
    return deco


# run-time helpers with the same names as the spec-only forms ----------------


def implies(a, b):
    return (not a) or bool(b)


# (run-time evaluation only - the verifier never calls these.)  An open bound cannot be enumerated: the run-time checks then
# look at a window of integers that covers every index / level / count the monitored code works with; a clause evaluated
# this way is a sanity check of the contract against real executions, not part of any proof.
_WINDOW = (-64, 512)


def forall(lo, hi, f):
    return all(f(i) for i in range(_WINDOW[0] if lo is None else lo, _WINDOW[1] if hi is None else hi))


def exists(lo, hi, f):
    return any(f(i) for i in range(_WINDOW[0] if lo is None else lo, _WINDOW[1] if hi is None else hi))
