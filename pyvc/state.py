"""Execution state of one symbolic path: store, heap, path condition."""
from __future__ import annotations

import z3

from . import sym
from .sym import SV, TDict, TRef, fresh_name, sort_of


class EngineError(Exception):
    """The function is outside the supported subset (=> undecided, never a violation)."""


class Raised:
    """Exceptional result of an evaluation."""

    def __init__(self, cls: str, ref=None, exact=True, node=None, origin=""):
        self.cls = cls  # static class name (upper bound unless exact)
        self.ref = ref  # SV ref of the exception object (or None)
        self.exact = exact
        self.node = node
        self.origin = origin  # text describing where it was raised

    def __repr__(self):
        return f"Raised({self.cls}, {self.origin})"


class Outcome:
    def __init__(self, kind, value=None):
        self.kind = kind  # normal | return | break | continue | raise
        self.value = value


NORMAL = Outcome("normal")


class State:
    def __init__(self):
        self.store: dict[str, SV] = {}
        self.heap: dict[str, z3.ArrayRef] = {}
        self.heap_types: dict[str, sym.T] = {}
        self.alloc = z3.IntVal(0)
        self.epoch = "H0"  # name prefix of heap arrays created lazily (changes when the whole heap is havocked)
        self.pc: list = []
        self.guards: list = []
        self.spec = False
        self.old: State | None = None
        self.loop_entries: list[State] = []
        self.ghost: dict = {}
        self.handlers: list = []  # stack of sets of caught exception class names
        self.trace: list = []  # textual trace of branch decisions (for reports)
        self.depth = 0
        self.frame = None

    def copy(self) -> "State":
        s = State.__new__(State)
        s.store = dict(self.store)
        s.heap = dict(self.heap)
        s.heap_types = self.heap_types  # shared: field types are global facts
        s.alloc = self.alloc
        s.epoch = self.epoch
        s.pc = list(self.pc)
        s.guards = list(self.guards)
        s.spec = self.spec
        s.old = self.old
        s.loop_entries = list(self.loop_entries)
        s.ghost = dict(self.ghost)
        s.handlers = list(self.handlers)
        s.trace = list(self.trace)
        s.depth = self.depth
        s.frame = self.frame
        return s

    # -- path condition -------------------------------------------------
    def assume(self, c):
        if z3.is_true(c):
            return
        if self.guards:
            c = z3.Implies(z3.And(*self.guards), c)
        self.pc.append(c)

    def assume_raw(self, c):
        if not z3.is_true(c):
            self.pc.append(c)

    def cond(self, c):
        """c under the current short-circuit guards."""
        if self.guards:
            return z3.Implies(z3.And(*self.guards), c)
        return c

    # -- heap -------------------------------------------------------------
    def field_array(self, key: str, t: sym.T):
        if key not in self.heap:
            if isinstance(t, TDict):
                raise EngineError("dict-typed heap fields are handled by load/store")
            self.heap[key] = z3.Const(
                f"{self.epoch}.{key}", z3.ArraySort(z3.IntSort(), sort_of(t))
            )
            self.heap_types[key] = t
        return self.heap[key]

    def load(self, ref, key: str, t: sym.T) -> SV:
        log = self.ghost.get("load_log")
        if log is not None:
            log[key] = t  # (dry run of a recursive spec function: which heap fields does its body read?)
        if isinstance(t, TDict):
            parts = {}
            for p, ps in _dict_parts(t).items():
                arr = self._arr(f"{key}#{p}", ps)
                parts[p] = z3.Select(arr, ref)
            return SV(t, None, extra=parts)
        arr = self.field_array(key, t)
        v = SV(t, z3.Select(arr, ref))
        return v

    def store_field(self, ref, key: str, v: SV):
        t = v.t
        if isinstance(t, TDict):
            for p, ps in _dict_parts(t).items():
                arr = self._arr(f"{key}#{p}", ps)
                self.heap[f"{key}#{p}"] = z3.Store(arr, ref, v.extra[p])
            return
        arr = self.field_array(key, t)
        self.heap[key] = z3.Store(arr, ref, v.z)

    def _arr(self, key, elem_sort):
        if key not in self.heap:
            self.heap[key] = z3.Const(f"{self.epoch}.{key}", z3.ArraySort(z3.IntSort(), elem_sort))
        return self.heap[key]

    def havoc_loc(self, ref, key: str, t: sym.T):
        """Forget the value of one heap location."""
        if isinstance(t, TDict):
            for p, ps in _dict_parts(t).items():
                arr = self._arr(f"{key}#{p}", ps)
                self.heap[f"{key}#{p}"] = z3.Store(
                    arr, ref, z3.Const(fresh_name(f"hv.{key}.{p}"), ps)
                )
            return
        arr = self.field_array(key, t)
        self.heap[key] = z3.Store(arr, ref, z3.Const(fresh_name(f"hv.{key}"), sort_of(t)))

    def havoc_field(self, key: str, t: sym.T):
        """Forget a whole field (all objects)."""
        if isinstance(t, TDict):
            for p, ps in _dict_parts(t).items():
                self.heap[f"{key}#{p}"] = z3.Const(
                    fresh_name(f"HV.{key}.{p}"), z3.ArraySort(z3.IntSort(), ps)
                )
            return
        self.field_array(key, t)
        self.heap[key] = z3.Const(
            fresh_name(f"HV.{key}"), z3.ArraySort(z3.IntSort(), sort_of(t))
        )

    def havoc_all(self):
        """Forget the whole heap (a callee whose frame is `*`): every field array seen so far is replaced, and fields
        first touched later get arrays of a new epoch (so they cannot coincide with their pre-call values)."""
        for key, arr in list(self.heap.items()):
            self.heap[key] = z3.Const(fresh_name(f"HV.{key}"), arr.sort())
        self.epoch = fresh_name("HE")
        self.havoc_alloc()

    def new_ref(self, cls: str) -> SV:
        r = z3.Int(fresh_name(f"new.{cls}"))
        self.pc.append(r == self.alloc)
        self.alloc = self.alloc + 1
        return SV(TRef(cls), r)

    def havoc_alloc(self):
        a = z3.Int(fresh_name("alloc"))
        self.pc.append(a >= self.alloc)
        self.alloc = a


def _dict_parts(t: TDict):
    ks, vs = sort_of(t.k), sort_of(t.v)
    return {
        "keys": z3.SeqSort(ks),
        "has": z3.ArraySort(ks, z3.BoolSort()),
        "val": z3.ArraySort(ks, vs),
    }
